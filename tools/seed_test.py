#!/usr/bin/env python3
"""Apply a seeded change to /repo, run the existing tests, its demonstration and the checks, undo it.

usage: tools/seed_test.py <dir with patch.diff demo.py> [C01 C02 ...]   (default: all checks, quick tier)
Never leaves /repo modified: `git -C /repo checkout -- .` runs in a finally block."""
import json
import os
import re
import subprocess
import sys
import time

VERIF = os.path.dirname(os.path.dirname(os.path.abspath(__file__)))
REPO = "/repo"
ALL = ["C%02d" % i for i in range(1, 20)]


def sh(cmd, **kw):
    return subprocess.run(cmd, shell=True, stdout=subprocess.PIPE, stderr=subprocess.STDOUT, text=True, **kw)


def main():
    d = os.path.abspath(sys.argv[1])
    checks = sys.argv[2:] or ALL
    patch = os.path.join(d, "patch.diff")
    demo = os.path.join(d, "demo.py")
    if sh("git -C %s status --porcelain" % REPO).stdout.strip():
        print("/repo is not clean; refusing"); return 2
    res = {"dir": d, "checks": {}}
    try:
        a = sh("git -C %s apply %s" % (REPO, patch))
        if a.returncode != 0:
            print("patch does not apply:", a.stdout); return 2
        t = sh("cd %s && /venv/bin/python -m pytest -q -p no:cacheprovider --timeout=900 2>&1 | tail -1" % REPO)
        res["tests"] = t.stdout.strip()
        if os.path.exists(demo):
            r = sh("cd /tmp && PYTHONPATH=%s/src /venv/bin/python %s" % (REPO, demo), timeout=600)
            res["demo_with_change_exit"] = r.returncode
        for c in checks:
            t0 = time.time()
            r = sh("cd %s && ./check %s --tier quick" % (VERIF, c), timeout=1800)
            viol = [l for l in r.stdout.split("\n") if l.startswith("VIOLATION")]
            info = {"exit": r.returncode, "violations": len(viol), "no_failing_input": any("no-failing-input-found" in l for l in viol),
                    "wall": round(time.time() - t0, 1)}
            if viol:
                m = re.search(r"replay=(\S+)", viol[0])
                if m and os.path.exists(m.group(1)):
                    rp = json.load(open(m.group(1)))
                    info["first"] = (rp.get("what") or str(rp.get("no_longer_checks"))[:300])
                    info["first_case"] = json.dumps((rp.get("first") or {}).get("case"), default=repr)[:300]
            if r.returncode == 2:
                info["tail"] = r.stdout[-400:]
            res["checks"][c] = info
            print(c, info, flush=True)
    finally:
        sh("git -C %s checkout -- ." % REPO)
        sh("git -C %s clean -fdq" % REPO)
        # the generated Lean files were rebuilt from the changed source: regenerate them from the restored tree
        sh("cd %s/harness && /venv/bin/python -c \"import sys; sys.path.insert(0, '.'); from translate import all as a; a.generate_all()\"" % VERIF)
    if os.path.exists(demo):
        r = sh("cd /tmp && PYTHONPATH=%s/src /venv/bin/python %s" % (REPO, demo), timeout=600)
        res["demo_without_change_exit"] = r.returncode
    res["caught_by"] = [c for c, i in res["checks"].items() if i["exit"] == 1]
    res["caught_with_failing_input"] = [c for c, i in res["checks"].items() if i["exit"] == 1 and not i["no_failing_input"]]
    out = os.path.join(d, "result.json")
    json.dump(res, open(out, "w"), indent=1)
    print(json.dumps({k: res[k] for k in ("tests", "demo_with_change_exit", "demo_without_change_exit", "caught_by", "caught_with_failing_input") if k in res}))
    return 0


if __name__ == "__main__":
    sys.exit(main())
