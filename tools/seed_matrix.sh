#!/bin/sh
# usage: tools/seed_matrix.sh <seed-id>   — runs ALL quick checks against the seeded change in private
# copies of /verif and /repo (so several can run side by side); writes seeded/<id>/matrix.json.
# SNAP=<dir> takes the machinery from a frozen copy of /verif (tools/seed_snapshot.sh makes one under /tmp), so that
# /verif can be worked on while a long matrix run is under way; results always go to /verif/seeded/<id>/.
id="$1"
V=/verif
S=${SNAP:-/verif}
W=/tmp/seedrun/$id
rm -rf "$W"; mkdir -p "$W"
cp -r $S "$W/verif" && rm -rf "$W/verif/.git" "$W/verif/replays" "$W/verif/evidence"
git -C /repo worktree add -q "$W/repo" HEAD || exit 2
git -C "$W/repo" apply "$V/seeded/$id/patch.diff" || { echo "patch does not apply"; git -C /repo worktree remove --force "$W/repo"; exit 2; }
out="$V/seeded/$id/matrix.json"
echo "{" > "$out.tmp"
first=1
for c in C01 C02 C03 C04 C05 C06 C07 C08 C09 C10 C11 C12 C13 C14 C15 C16 C17 C18 C19; do
  r=$(cd "$W/verif" && CM_REPO="$W/repo" ./check $c --tier quick 2>&1); e=$?
  v=$(printf '%s\n' "$r" | grep -c '^VIOLATION')
  n=$(printf '%s\n' "$r" | grep -c 'no-failing-input-found')
  [ $first = 1 ] || echo "," >> "$out.tmp"; first=0
  printf ' "%s": {"exit": %d, "violation_lines": %d, "no_failing_input": %d}' $c $e $v $n >> "$out.tmp"
done
echo "" >> "$out.tmp"; echo "}" >> "$out.tmp"; mv "$out.tmp" "$out"
git -C /repo worktree remove --force "$W/repo"
rm -rf "$W"
echo "$id done"
