#!/bin/sh
# usage: tools/seed_static.sh <seed-id>  — which `source_*` theorem files stop building when every translator is re-run on the
# seeded change? Private copies of /verif (SNAP=<frozen copy>, default /verif) and of /repo's HEAD (scratch worktree, CM_REPO);
# writes seeded/<id>/static.json: {"broken_modules": [...], "untranslated": [...]}
id="$1"
V=/verif
S=${SNAP:-/verif}
W=/tmp/seedstat/$id
rm -rf "$W"; mkdir -p "$W"
cp -r $S "$W/verif" && rm -rf "$W/verif/.git" "$W/verif/replays" "$W/verif/evidence" "$W/verif/seeded"
git -C /repo worktree add -q --detach "$W/repo" HEAD || exit 2
git -C "$W/repo" apply "$V/seeded/$id/patch.diff" || { echo "patch does not apply"; git -C /repo worktree remove --force "$W/repo"; rm -rf "$W"; exit 2; }
(cd "$W/verif/harness" && CM_REPO="$W/repo" /venv/bin/python -c "import sys; sys.path.insert(0, '.'); from translate import all as a; a.generate_all()" >/dev/null 2>&1)
out=$(cd "$W/verif/lean" && lake build CmProps 2>&1)
broken=$(printf '%s\n' "$out" | grep '^✖' | sed 's/.*Building \([A-Za-z0-9_.]*\).*/"\1"/' | sort -u | paste -sd, -)
untr=$(grep -h '^-- .*outside the translated subset' "$W"/verif/lean/CmGen/*.lean 2>/dev/null | sed 's/^-- \([^:]*\):.*/"\1"/' | sort -u | paste -sd, -)
printf '{"broken_modules": [%s], "untranslated": [%s]}\n' "$broken" "$untr" > "$V/seeded/$id/static.json"
git -C /repo worktree remove --force "$W/repo"
rm -rf "$W"
echo "$id static: $(cat $V/seeded/$id/static.json | cut -c1-300)"
