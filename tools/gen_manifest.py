#!/usr/bin/env python3
"""Regenerates /verif/MANIFEST.json from the table below (kept in one place so the manifest is always valid)."""
import json, os
VERIF = os.path.dirname(os.path.dirname(os.path.abspath(__file__)))

TB = ("Trusted base: Lean 4.33 kernel; axioms audited per theorem on every run (subset of propext, Classical.choice, "
      "Quot.sound; no sorry/native_decide); the Python correspondence harness and model driver; IEEE-754 rounding/libm and "
      "the order laws LawfulNumOrd/LawfulLit at Float; ")

CHECKS = {
 "C01": dict(
  text="Theorems (CmProps/C01.lean) prove, for every numeric carrier, every leaf oracle and every descent function, that each strategy and check_and_fix_contrast report exactly the verdict 'contrast(returned colour, bg) >= table minimum' on every exit path, and that the table is 4.5/3.0/7.0/4.5. The executable model (Float instance, library leaves) is tied to /repo on every run by whole-pipeline comparison with check_and_fix_contrast (bit-exact results expected) on structured pairs; the API layer (spellings, formatting, read-back by an independent CSS reader) is checked against a 60-digit WCAG reference. The threshold table of check_and_fix_contrast is additionally translated from the source's syntax tree on every run (harness/translate/leaves.py -> CmGen/Leaves.lean) and CmProps/C01tie.lean proves it equal to the model's table.",
  note=TB + "modelled not verified: formatting/re-parsing of the result (covered by C06's theorems and sweeps), tinycss2.color3 as the CSS consumer.",
  tech="Lean 4 proof over abstract oracles + differential correspondence (model vs implementation) + source-to-Lean translation of the numeric leaves/constants, proved equal to the model", ref="6 C01"),
 "C02": dict(
  text="Theorems (CmProps/C02.lean): already-passing pairs are returned unchanged with success (no law needed); generate_accessible_color, all three strategies and check_and_fix_contrast never return a colour of lower contrast, for every ordered carrier, oracle, schedule, mode and setting (invariant of the schedule loop, induction over the step chains). Tie: the same whole-pipeline correspondence as C01 plus API-level evaluation with all spellings against the decimal WCAG reference.",
  note=TB + "the order laws are hypotheses of the monotonicity theorems (hold for non-NaN doubles).",
  tech="Lean 4 proof (loop invariant, induction) + differential correspondence", ref="6 C02"),
 "C03": dict(
  text="Theorems (CmProps/C03search.lean, 50+): a traced loop invariant of the lightness search (recorded numbers belong to the recorded colour; a target-meeting in-tolerance probe, once seen, is never replaced by a below-target one and the recorded dE only decreases), binarySearch_meets_target_of_probe / _ge_of_probe, gen_success_if_some_phase_meets_min and gen_early_within (success and an early return at the 1.6 entry), lifted through all three strategies to checkAndFix_C03_of_probe (success and dE <= 2.0 for every mode and setting, every ordered carrier and oracle). The full-strength statement C03_full is a definition; it is proved at the exact carriers Q and R relative to the explicit leaf hypotheses BandHyp (monotonicity of dE and contrast away from the text on the searched side, search direction correct, band wider than the 2^-20 bisection resolution): C03_full_rat / C03_full_real. Those numeric hypotheses are not control-flow facts; per input the property itself is decided on the implementation: an independent scan of the lightness line (Lean model leaves, 4096 points) finds witnesses and every witnessed case is run in all three modes and through the API in re-formatted spellings. Whole-pipeline correspondence ties the model to the code.",
  note=TB + "PARTIAL: completeness rests on BandHyp (numeric facts about OKLCH/CIEDE2000/WCAG along the lightness line), which is evaluated by observation per input, not proved.",
  tech="Lean 4 proof (loop invariant, completeness relative to explicit leaf hypotheses) + witness scan and differential correspondence", ref="6 C03"),
 "C04": dict(
  text="Theorems (CmProps/C04.lean): lightness search and descent return None or a valid colour within their tolerance; the multi-phase search returns its input or a valid colour within one entry of ANY schedule (empty schedule: input); mode 0 stays within 5.0 (every default-schedule entry <= 5.0 by decide + literal monotonicity); mode 1 is a chain of <= 10 steps of <= 3.0 and mode 2 that, or <= 15 such steps, or one step <= 15.0 (inductive Chain predicate). Tie: routine-level and whole-pipeline correspondence (bit-exact), direct calls with arbitrary schedules, and observation of every multi-phase call inside mode 1/2 runs. The four tolerance lists and the four loop bounds (10/15/20/50) of optimisation.py are read from the source's syntax tree on every run (CmGen/Leaves.lean); CmProps/C04tie.lean proves them equal to the model's and re-derives the <= 5.0 / 3.0 / 15.0 bounds for the lists as the code contains them now.",
  note=TB + "deltaE(t,t)=0 is a property of the leaf (C11), so the theorems say 'the input itself or within the bound'.",
  tech="Lean 4 proof (Hoare-style stage specs, induction) + differential correspondence + source-to-Lean translation of the numeric leaves/constants, proved equal to the model", ref="6 C04"),
 "C16": dict(
  text="Theorems (CmProps/C16.lean): (a) mode 2 returns mode 1's result whenever mode 1 succeeds (definitional, lifted to check_and_fix_contrast); (b) simulation: with the same target and schedule a weaker minimum can only stop earlier on a passing colour (gen_weaker_min), lifted through all three strategies to 'very_readable succeeds => ordinary succeeds' for every mode, using target_same and min_le from the threshold table. Tie: whole-pipeline correspondence + implementation-vs-implementation comparison through the public API.",
  note=TB + "order laws as hypotheses.",
  tech="Lean 4 proof (simulation between two runs) + differential correspondence", ref="6 C16"),
 "C05": dict(
  text="Theorems about the model at the real-number carrier (CmProps/C05.lean, C05cert.lean): luminance in [0,1], 0 only for black and 1 only for white, strictly monotone per channel; ratio symmetric, in [1,21], 1 on equal colours, 21 exactly for black/white; 0.03928 vs 0.04045 immaterial on 8-bit values; level_iff (inclusive thresholds); and a certified executable verdict: a 256-entry rational enclosure table of the linearisation proved sound via lo^5 <= x^12 <= hi^5 (decide +kernel) and certVerdict_sound over the reals. The same generic definitions run at Float in the driver and are compared bit-for-bit with the code (exhaustively on all 2^24 colours in the thorough tier), and with a 60-digit decimal reference typed from WCAG 2. Static tie: srgb_to_linear, calculate_relative_luminance, calculate_contrast_ratio, get_contrast_level and get_wcag_level are translated mechanically from the source's syntax tree on every run (CmGen/Leaves.lean) and CmProps/C05tie.lean proves each image equal to the model definition the theorems are about, for every carrier (rfl).",
  note=TB + "modelled not verified: IEEE rounding inside pow (bounded by the certified enclosures only for threshold verdicts).",
  tech="Lean 4 proof over the reals + certified rational enclosures + exhaustive differential correspondence + source-to-Lean translation of the numeric leaves/constants, proved equal to the model", ref="6 C05"),
 "C06": dict(
  text="Theorems (CmProps/C06*.lean): the output-format table of format_color, and (as they are merged) the exact round trips of hex / rgb() / tuple output through the modelled parser for all 2^24 colours and of HSL over exact rational arithmetic. Tie: format_color -> parse_color_to_rgb and -> tinycss2.color3 on every colour x {hex, rgb(), hsl(), tuple} (exhaustive in the thorough tier), compared with the model's formatter/reader; format mapping through make_readable for every input spelling x outcome, compared with the model's makeReadable.",
  note=TB + "repr(float)/float(str) are exact inverses (decimal text of the HSL numbers is not modelled); double rounding inside rgb_to_hsl/hsl_to_rgb is decided by the exhaustive sweep, not by theorem.",
  tech="Lean 4 proof (List Char round trips, exact HSL) + exhaustive differential correspondence", ref="6 C06"),
 "C07": dict(
  text="The keyword table is regenerated from named_colors.py into CmGen/NamedColors.lean on every run and the theorems that mention it are re-checked by lake build; theorems over the exact rational model of the parser (as merged): keyword table = CSS Color 3 + rebeccapurple, hex in any case with/without '#', nearest-8-bit channel for integer/percentage components, HSL = the CSS3 algorithm for any hue, compositing bounds. Tie: the Python parser is compared with the same generic parser run at Float (exact agreement expected) and at Rat (differences only at rounding ties, counted), and with the CSS definition via tinycss2.color3, on all keywords x case, hex (exhaustive in thorough), 200k functional values with case/whitespace variants.",
  note=TB + "Unicode classes (isspace, decimal digits, lower) are an oracle parameter of the model; the harness ships the classes of non-ASCII characters with each input. Plain decimal notation only.",
  tech="translator-regenerated table + Lean 4 proof over exact rationals + differential correspondence", ref="6 C07"),
 "C10": dict(
  text="Theorems at the real carrier (CmProps/C10.lean): L in [0,1], C >= 0, H in [0,360) (from Complex.arg); for ANY carrier: every triple converts to a valid 8-bit colour, the safe variants equal the plain ones on valid input; inverse-matrix rows sum to 1 hence C = 0 gives a grey, L=0 black, L=1 white. The exact agreement of doubles with the definition and the lossless round trip are decided by correspondence: forward conversion, ranges and round trip on all 2^24 colours in the thorough tier (bit-identical to the Float model), inverse on a dense grid incl. out-of-gamut, invalid input for the safe variants, independent transcription of Ottosson's definition and published sample values. Static tie: rgb_to_oklch, oklch_to_rgb, calculate_hue_angle, is_valid_oklch, linear_to_srgb and the nested safe_cbrt/safe_cube are translated from the source's syntax tree on every run and proved equal to the model's definitions (CmProps/C10tie.lean).",
  note=TB + "losslessness on all 2^24 colours is an exhaustive correspondence run, labelled as such, not a theorem (native_decide deliberately not used).",
  tech="Lean 4 proof over the reals / any carrier + exhaustive differential correspondence + source-to-Lean translation of the numeric leaves/constants, proved equal to the model", ref="6 C10"),
 "C11": dict(
  text="Theorems at the real carrier (CmProps/C11.lean): CIEDE2000 is symmetric, non-negative, zero on identical colours, its radicand is non-negative (|R_T| <= 2), every divisor is >= 1 or > 0 and every square-root argument non-negative (the real-number content of 'never raises'), L* in [0,100]. Agreement with the CIE definitions to 0.05 is numeric: Lab on all 2^24 colours (thorough) and dE on random / unit-step / near-neutral / hue-wrap pairs are bit-identical to the Float model, which reproduces the 34 published Sharma-Wu-Dalal pairs; the pairs are also fed through the implementation; an independent transcription with CIE's exact constants agrees within 3e-4. Static tie: rgb_to_xyz, xyz_to_lab (with lab_transform), rgb_to_lab and all of calculate_delta_e_2000 are translated from the source's syntax tree on every run and proved equal to the model's definitions (CmProps/C11tie.lean).",
  note=TB + "agreement to 0.05 is decided by sweeps against independent references, not by theorem.",
  tech="Lean 4 proof over the reals + published test data + differential correspondence + source-to-Lean translation of the numeric leaves/constants, proved equal to the model", ref="6 C11"),
 "C12": dict(
  text="Theorems (CmProps/C12.lean): the bulk loop (modelled as the accumulator fold it is) equals map entry, hence one result per entry in order, position independence (bulk_get), bulk_append, bulk_perm; invalid entries come back unchanged with 'invalid color', which is none of the readability strings; a valid entry carries exactly make_readable's colour. Tie: bulk vs per-entry ColorPair calls on generated lists (empty, duplicates, permutations, invalid entries, mixed arities, all spellings) x mode x very_readable, status vs the WCAG label of the returned colour (60-digit reference), and vs the model's fold.",
  note=TB + "the status clause relies on the returned colour being re-readable (C06).",
  tech="Lean 4 proof (fold = map) + differential correspondence", ref="6 C12"),
 "C13": dict(
  text="Theorems (CmProps/C13.lean): ColorPair parses the background first and passes its rgb as the compositing context of the text colour; a background is composited over white; is_readable/make_readable receive the composite. Numeric bounds of the blend (within 1/2 resp. < 1 per channel) are part of the C07 theorem set over exact rationals. Tie: (foreground, alpha, background) triples in rgba()/hsla()/RGBA-tuple spellings incl. alpha next to 0 and 1, compared with exact rational blends, with the model's ColorPair and makeReadable, and with make_readable on the composite.",
  note=TB + "exact blend reference uses tinycss2.color3 for the CSS-defined HSL channels.",
  tech="Lean 4 proof (data flow of the compositing context) + differential correspondence", ref="6 C13"),
 "C14": dict(
  text="The model gives every raising Python operation an explicit Except outcome (ValueError / TypeError / OverflowError) and Color.new records the first two as 'invalid'. Theorems (CmProps/C14*.lean, 47): parseColor_errors (every failure of the parser, for every carrier, environment, value and background, is a ValueError or a TypeError - one lemma per function), color_total (the constructor never lets an exception escape), color_states, parse_ok_valid (at the exact carrier every accepted colour has three channels in 0..255; the hypothesis on the supplied background is shown necessary), pair_invalid_behaviour (is_readable 'Not Readable', make_readable (None, False)), bulk_entry_invalid, bulk_carries_on. Tie: outcome-class comparison (valid rgb | invalid | raised) between Color/ColorPair and the model on near-miss CSS and typed sequences over ints, floats incl. nan/inf, strings, None, bools, containers, plus the invalid-pair behaviour of the API.",
  note=TB + "CPython's float() grammar and str() of numbers are modelled (compared on every generated token), Unicode classes are an oracle; float(huge int) -> OverflowError is outside the modelled domain (ints of moderate magnitude).",
  tech="Lean 4 model with explicit exception outcomes + differential correspondence", ref="6 C14"),
 "C17": dict(
  text="Theorems (CmProps/C17.lean) over an effects model of the API: silent_default, silent_invalid, result_indep / result_plain (the visualisers run after the result tuple is fixed), writes_documented, write_only_if_asked, preview_args_hex (the preview only ever receives #rrggbb strings when the result can be re-read, which C06 gives). Tie: every case is run plain and with show / save_report / both inside a private directory with stdout/stderr captured at file-descriptor level; results compared, files listed.",
  note=TB + "PARTIAL: rich's rendering of hex colours is trusted (exercised on every case, not modelled).",
  tech="Lean 4 proof over an effects model + observed effects", ref="6 C17"),
 "C08": dict(
  text="A Lean model of the rewriter (Cm.Cli) over an abstract stylesheet: custom-property collection, var() resolution with the tool's exact regular-expression semantics, pair extraction, three-way classification, declaration / custom-property rewriting, nesting in @media/@supports to any depth, the shared :root/html declaration lists, counters, detail lists, serialisation failures. Theorems (CmProps/C08cli.lean, 33, for every oracle pairEval and stylesheet): partition (the three counters grow by exactly the number of rules with a text colour; a skipped file leaves at most that), rule_counted_once, details_agree, listed_by_selector, attention_unchanged(_nested), written_value_direct / adjusted_written / written_in_file_direct (reported = written for direct declarations); the custom-property case is reported_is_written_var_partial (K1 makes the file-level claim false). Tie: the harness parses each generated stylesheet with the real tinycss2, hands the tree to the model and compares counters, the needs-attention list, the report cards and the parsed _cm.css with the model's prediction; independently an oracle that shares no code with the model judges the property on the tool's observable output alone.",
  note=TB + "PARTIAL: tinycss2's tokeniser/parser/serialiser is a parameter (modelled, not verified); K1 (a shared custom property adjusted for several rules) and K2 (unserialisable vendor hack in an adjusted rule) are known findings.",
  tech="Lean 4 model of the rewriter + differential correspondence + independent output oracle", ref="6 C08"),
 "C09": dict(
  text="Same rewriter model. Theorems (CmProps/C09cli.lean, 20): only_values_change (a written file has the same shape as its input: same nodes, selectors, at-rules, opaque items, declaration names and !important flags, in order), only_adjusted_values_change (outside :root/html every rule is literally unchanged or differs exactly in the value of its last color declaration), opaque_nodes_verbatim; path lemmas over List Char: outName_ne, outName_of_css, outName_injective, writes_beside_inputs, writes_not_inputs. Observation: byte snapshots of every input before/after each run, directory listings, token-level comparison of input and output through tinycss2 on stylesheets full of carry-through material, single-file (incl. a *_cm.css given directly) and directory runs.",
  note=TB + "PARTIAL: tinycss2 serialisation fidelity and the OS honouring open(..., 'r') are modelled, not verified; K2 is a known finding (no output at all for that file).",
  tech="Lean 4 model of the rewriter + observed file-system effects and token-level diff", ref="6 C09"),
 "C15": dict(
  text="The state signature of the package (module-level bindings, global statements, stores and mutating calls on module-level names, mutable default arguments, cache decorators, class-level mutables, self.x assignments outside constructors) is regenerated from an ast scan of /repo/src on every run into CmGen/StateSig.lean; theorem no_mutation_sites (decide) is re-checked against it, so a new cache / growing default / self.x assignment breaks a proof obligation. Over an abstract state machine: frame (a probe after any history = in a fresh state), outputs at any batch position, interleave (any interleaving of per-thread sequences), repeat_same; make_readable is read-only on the pair in the model. Dynamic backing: digests of every cm_colors module's globals around random histories, probe vs fresh interpreter (different PYTHONHASHSEED), deep comparison of a reused ColorPair, 8 threads vs sequential.",
  note=TB + "PARTIAL: the scan's soundness is trusted (backed by the dynamic digests); CPython thread switching inside an operation and rich's console state are not modelled - the schedule clause rests on the observed thread run.",
  tech="translator-regenerated state signature + Lean 4 proof (frame/interleaving) + history / fresh-process / thread runs", ref="6 C15"),
 "C18": dict(
  text="Same rewriter model with the per-file loop (Cm.Fs.runFiles). Theorems (CmProps/C18cli.lean, 21): per_file_independent (a file's outcome does not depend on the incoming counters/details: it is a function of its own nodes, the settings and pairEval), run_writes_eq / run_write_of_file / run_alone, run_writes_perm (any traversal order gives the same writes and errors up to order), faults_skipped / unreadable_reported / failing_file_skipped, discovered_not_cm, outputs_not_inputs, rerun_discovers_same, rerun_same_writes, dotfile_edge. Tie: generated directory trees with every fault kind placed at random, each run twice in a row and every good file alone: outputs byte-compared, stderr lines and exit status checked, discovery set checked, and the run compared with the model fed the same files in the traversal order the tool used.",
  note=TB + "PARTIAL: the OS's behaviour on unreadable files is observed, not modelled; traversal order is taken from Path.rglob.",
  tech="Lean 4 model of the rewriter + fault enumeration over directory trees + differential correspondence", ref="6 C18"),
 "C19": dict(
  text="The report templates and the per-slot substitution of the five markup metacharacters are extracted from the behaviour of both generators on every run (sentinel rendering) into CmGen/Templates.lean. Theorems (CmProps/C19.lean): escape_no_meta, unescape_escape (displays verbatim), the structure theorem render_structure (if every slot sits in element text or a double-quoted attribute value then for ANY slot strings the markup skeleton of the rendered document is the template's own) and, re-checked by decide +kernel on the regenerated data, templates_ok_cli/api and slots_escaped_cli/api, hence cli_report_structure / api_report_structure. Tie: both generators rendered with random strings over a metacharacter-rich alphabet in one or all slots; html.parser's element/attribute structure equals the benign one and the text is displayed verbatim; the model's skeleton is computed on the same documents; end-to-end CLI and save_report runs.",
  note=TB + "the coarse tokenizer model is validated against html.parser on every rendered document; per-character, context-free escaping is checked by the random strings.",
  tech="translator-extracted templates + Lean 4 proof (structure theorem) + differential validation against html.parser", ref="6 C19"),
}

def main():
    props = [json.loads(l) for l in open(os.path.join(VERIF, "properties.jsonl"))]
    checks, na = [], []
    for p in props:
        pid = p["id"]
        c = CHECKS.get(pid)
        if not c:
            na.append({"property_id": pid, "reason": "check not built yet (work in progress; see DESIGN.md section 9) - not a claim that the technique cannot apply"})
            continue
        checks.append({
            "property_id": pid,
            "quick_cmd": "./check %s --tier quick" % pid,
            "thorough_cmd": "./check %s --tier thorough" % pid,
            "evidence_file": "evidence/%s.json" % pid,
            "replay_cmd_template": "./check %s --replay {path}" % pid,
            "engine": "lean-model",
            "level_claimed": {"category": "proof", "text": c["text"], "design_ref": "DESIGN.md section " + c["ref"]},
            "level_note": c["note"],
            "technique": c["tech"],
        })
    m = {
        "version": 1,
        "setup_cmd": "cd lean && lake build",
        "hooks": {
            "guard": "CM_COLORS_VERIF",
            "enable": "no source hooks: all interception is attribute replacement inside the harness process (CM_COLORS_VERIF=1 is exported for completeness)",
            "baseline_off_cmd": "cd /repo && /venv/bin/python -m pytest -ra -q -p no:cacheprovider --timeout=900 --continue-on-collection-errors",
            "source_commits": [],
            "add_only": True,
        },
        "engines": [{"name": "lean-model", "path": "lean/", "serves_properties": [c["property_id"] for c in checks],
                     "kind_free_text": "Lean 4 model + theorems (CmModel/CmProofs/CmProps), native line-protocol driver, Python correspondence harness (harness/)"}],
        "checks": checks,
        "not_applicable": na,
        "notes": "Known findings and fixes: known_findings.json. Each check prints KNOWN-FINDING lines for listed findings and exits 0; exit 1 + VIOLATION only for unlisted violations; exit 2 = infrastructure.",
    }
    json.dump(m, open(os.path.join(VERIF, "MANIFEST.json"), "w"), indent=1)
    print("checks:", len(checks), "not_applicable:", len(na))

main()
