#!/usr/bin/env python3
"""Regenerates /verif/MANIFEST.json from the table below (kept in one place so the manifest is always valid)."""
import json, os
VERIF = os.path.dirname(os.path.dirname(os.path.abspath(__file__)))

TB = ("Trusted base: Lean 4.33 kernel; axioms audited per theorem on every run (subset of propext, Classical.choice, "
      "Quot.sound; no sorry/native_decide); the Python correspondence harness and model driver; IEEE-754 rounding/libm and "
      "the order laws LawfulNumOrd/LawfulLit at Float; ")

CHECKS = {
 "C01": dict(
  text="Theorems (CmProps/C01.lean) prove, for every numeric carrier, every leaf oracle and every descent function, that each strategy and check_and_fix_contrast report exactly the verdict 'contrast(returned colour, bg) >= table minimum' on every exit path, and that the table is 4.5/3.0/7.0/4.5. The executable model (Float instance, library leaves) is tied to /repo on every run by whole-pipeline comparison with check_and_fix_contrast (bit-exact results expected) on structured pairs; the API layer (spellings, formatting, read-back by an independent CSS reader) is checked against a 60-digit WCAG reference.",
  note=TB + "modelled not verified: formatting/re-parsing of the result (covered by C06's theorems and sweeps), tinycss2.color3 as the CSS consumer.",
  tech="Lean 4 proof over abstract oracles + differential correspondence (model vs implementation)", ref="6 C01"),
 "C02": dict(
  text="Theorems (CmProps/C02.lean): already-passing pairs are returned unchanged with success (no law needed); generate_accessible_color, all three strategies and check_and_fix_contrast never return a colour of lower contrast, for every ordered carrier, oracle, schedule, mode and setting (invariant of the schedule loop, induction over the step chains). Tie: the same whole-pipeline correspondence as C01 plus API-level evaluation with all spellings against the decimal WCAG reference.",
  note=TB + "the order laws are hypotheses of the monotonicity theorems (hold for non-NaN doubles).",
  tech="Lean 4 proof (loop invariant, induction) + differential correspondence", ref="6 C02"),
 "C03": dict(
  text="PARTIAL. What is machine-checked so far is the search skeleton shared with C04 (only in-tolerance candidates on the text's own chroma/hue line are ever recorded); completeness of the numeric search is not a control-flow fact and is decided by evaluating the property itself on the implementation: an independent scan of the lightness line (Lean model leaves, 4096 points) finds witnesses, and every witnessed case is run in all three modes. The whole-pipeline correspondence ties the executable model to the code on the same cases.",
  note=TB + "completeness rests on numeric facts about OKLCH/CIEDE2000/WCAG monotonicity along the lightness line, observed per input, not proved.",
  tech="Lean 4 proof (partial: search invariants) + witness scan and differential correspondence", ref="6 C03"),
 "C04": dict(
  text="Theorems (CmProps/C04.lean): lightness search and descent return None or a valid colour within their tolerance; the multi-phase search returns its input or a valid colour within one entry of ANY schedule (empty schedule: input); mode 0 stays within 5.0 (every default-schedule entry <= 5.0 by decide + literal monotonicity); mode 1 is a chain of <= 10 steps of <= 3.0 and mode 2 that, or <= 15 such steps, or one step <= 15.0 (inductive Chain predicate). Tie: routine-level and whole-pipeline correspondence (bit-exact), direct calls with arbitrary schedules, and observation of every multi-phase call inside mode 1/2 runs.",
  note=TB + "deltaE(t,t)=0 is a property of the leaf (C11), so the theorems say 'the input itself or within the bound'.",
  tech="Lean 4 proof (Hoare-style stage specs, induction) + differential correspondence", ref="6 C04"),
 "C16": dict(
  text="Theorems (CmProps/C16.lean): (a) mode 2 returns mode 1's result whenever mode 1 succeeds (definitional, lifted to check_and_fix_contrast); (b) simulation: with the same target and schedule a weaker minimum can only stop earlier on a passing colour (gen_weaker_min), lifted through all three strategies to 'very_readable succeeds => ordinary succeeds' for every mode, using target_same and min_le from the threshold table. Tie: whole-pipeline correspondence + implementation-vs-implementation comparison through the public API.",
  note=TB + "order laws as hypotheses.",
  tech="Lean 4 proof (simulation between two runs) + differential correspondence", ref="6 C16"),
}

def main():
    props = [json.loads(l) for l in open(os.path.join(VERIF, "properties.jsonl"))]
    checks, na = [], []
    for p in props:
        pid = p["id"]
        c = CHECKS.get(pid)
        if not c:
            na.append({"property_id": pid, "reason": "check not built yet (work in progress; see DESIGN.md section 9) - not a claim that the technique cannot apply"})
            continue
        checks.append({
            "property_id": pid,
            "quick_cmd": "./check %s --tier quick" % pid,
            "thorough_cmd": "./check %s --tier thorough" % pid,
            "evidence_file": "evidence/%s.json" % pid,
            "replay_cmd_template": "./check %s --replay {path}" % pid,
            "engine": "lean-model",
            "level_claimed": {"category": "proof", "text": c["text"], "design_ref": "DESIGN.md section " + c["ref"]},
            "level_note": c["note"],
            "technique": c["tech"],
        })
    m = {
        "version": 1,
        "setup_cmd": "cd lean && lake build",
        "hooks": {
            "guard": "CM_COLORS_VERIF",
            "enable": "no source hooks: all interception is attribute replacement inside the harness process (CM_COLORS_VERIF=1 is exported for completeness)",
            "baseline_off_cmd": "cd /repo && /venv/bin/python -m pytest -ra -q -p no:cacheprovider --timeout=900 --continue-on-collection-errors",
            "source_commits": [],
            "add_only": True,
        },
        "engines": [{"name": "lean-model", "path": "lean/", "serves_properties": [c["property_id"] for c in checks],
                     "kind_free_text": "Lean 4 model + theorems (CmModel/CmProofs/CmProps), native line-protocol driver, Python correspondence harness (harness/)"}],
        "checks": checks,
        "not_applicable": na,
        "notes": "Known findings and fixes: known_findings.json. Each check prints KNOWN-FINDING lines for listed findings and exits 0; exit 1 + VIOLATION only for unlisted violations; exit 2 = infrastructure.",
    }
    json.dump(m, open(os.path.join(VERIF, "MANIFEST.json"), "w"), indent=1)
    print("checks:", len(checks), "not_applicable:", len(na))

main()
