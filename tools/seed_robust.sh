#!/bin/sh
# usage: [SNAP=<dir>] tools/seed_robust.sh <seed-id>  — how reliably is the change caught? Re-runs, under seeds 1-3, the change's
# own property check and every check that caught it with a failing input at seed 0 (seeded/<id>/matrix.json); writes
# seeded/<id>/robust.json {check: {seed: {exit, violation_lines, no_failing_input}}}. Private copies as in seed_matrix.sh.
id="$1"
V=/verif
S=${SNAP:-/verif}
W=/tmp/seedrun/r_$id
rm -rf "$W"; mkdir -p "$W"
cp -r $S "$W/verif" && rm -rf "$W/verif/.git" "$W/verif/replays" "$W/verif/evidence"
git -C /repo worktree add -q "$W/repo" HEAD || exit 2
git -C "$W/repo" apply "$V/seeded/$id/patch.diff" || { echo "patch does not apply"; git -C /repo worktree remove --force "$W/repo"; exit 2; }
own=${id%%-*}
checks=$(python3 -c "
import json,sys
mx=json.load(open('$V/seeded/$id/matrix.json'))
cs=['$own']+[c for c,i in sorted(mx.items()) if i['exit']==1 and i['violation_lines']>i['no_failing_input'] and c!='$own']
print(' '.join(cs[:4]))")
rb="$V/seeded/$id/robust.json"
printf '{' > "$rb.tmp"
fc=1
for c in $checks; do
  [ $fc = 1 ] || printf ', ' >> "$rb.tmp"; fc=0
  printf '"%s": {' $c >> "$rb.tmp"
  first=1
  for s in 1 2 3; do
    r=$(cd "$W/verif" && CM_REPO="$W/repo" VERIF_SEED=$s ./check $c --tier quick 2>&1); e=$?
    v=$(printf '%s\n' "$r" | grep -c '^VIOLATION')
    n=$(printf '%s\n' "$r" | grep -c 'no-failing-input-found')
    [ $first = 1 ] || printf ', ' >> "$rb.tmp"; first=0
    printf '"%d": {"exit": %d, "violation_lines": %d, "no_failing_input": %d}' $s $e $v $n >> "$rb.tmp"
  done
  printf '}' >> "$rb.tmp"
done
echo '}' >> "$rb.tmp"; mv "$rb.tmp" "$rb"
git -C /repo worktree remove --force "$W/repo"
rm -rf "$W"
echo "$id robust done"
