#!/bin/sh
# usage: tools/seed_private.sh <seed-id> [C01 C02 ...]   — like tools/seed_test.py (existing tests, demonstration with and
# without the change, the listed quick checks; default: the change's own property) but in PRIVATE copies of /verif and /repo
# (a scratch worktree of /repo's HEAD under /tmp, CM_REPO pointing at it), so /repo itself is never modified and several can
# run side by side. Writes seeded/<id>/result.json. SNAP=<dir> takes the machinery from a frozen copy of /verif.
id="$1"; shift
V=/verif
S=${SNAP:-/verif}
checks="$*"; [ -n "$checks" ] || checks=$(echo "$id" | sed 's/-.*//')
W=/tmp/seedpriv/$id
rm -rf "$W"; mkdir -p "$W"
cp -r $S "$W/verif" && rm -rf "$W/verif/.git" "$W/verif/replays" "$W/verif/evidence" "$W/verif/seeded"
git -C /repo worktree add -q --detach "$W/repo" HEAD || exit 2
demo="$V/seeded/$id/demo.py"
d0=$(cd /tmp && PYTHONPATH="$W/repo/src" /venv/bin/python "$demo" >/dev/null 2>&1; echo $?)
git -C "$W/repo" apply "$V/seeded/$id/patch.diff" || { echo "patch does not apply"; git -C /repo worktree remove --force "$W/repo"; rm -rf "$W"; exit 2; }
tests=$(cd "$W/repo" && PYTHONPATH="$W/repo/src" /venv/bin/python -m pytest -q -p no:cacheprovider --timeout=900 2>&1 | tail -1)
d1=$(cd /tmp && PYTHONPATH="$W/repo/src" /venv/bin/python "$demo" >/dev/null 2>&1; echo $?)
out="$V/seeded/$id/result.json"
{
printf '{\n "dir": "%s",\n "tests": "%s",\n "demo_with_change_exit": %s,\n "demo_without_change_exit": %s,\n "checks": {\n' "$V/seeded/$id" "$tests" "$d1" "$d0"
first=1
for c in $checks; do
  r=$(cd "$W/verif" && CM_REPO="$W/repo" ./check $c --tier quick 2>&1); e=$?
  v=$(printf '%s\n' "$r" | grep -c '^VIOLATION')
  n=$(printf '%s\n' "$r" | grep -c 'no-failing-input-found')
  rp=$(printf '%s\n' "$r" | grep '^VIOLATION' | head -1 | sed 's/.*replay=\([^ ]*\).*/\1/')
  what=""
  [ -n "$rp" ] && [ -f "$rp" ] && what=$(/venv/bin/python -c "import json,sys; d=json.load(open('$rp')); print(json.dumps(((d.get('what') or str(d.get('no_longer_checks')))[:300]) + ' | ' + json.dumps((d.get('first') or {}).get('case'), default=repr)[:300]))")
  [ -n "$what" ] || what='""'
  [ $first = 1 ] || printf ',\n'; first=0
  printf '  "%s": {"exit": %d, "violations": %d, "no_failing_input": %d, "first": %s}' $c $e $v $n "$what"
  echo "$id $c exit=$e violations=$v nfi=$n" >&2
done
printf '\n }\n}\n'
} > "$out.tmp" && mv "$out.tmp" "$out"
git -C /repo worktree remove --force "$W/repo"
rm -rf "$W"
echo "$id done: tests='$tests' demo_with=$d1 demo_without=$d0"
