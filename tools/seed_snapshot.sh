#!/bin/sh
# usage: tools/seed_snapshot.sh [dir]  — a frozen copy of the committed /verif (plus the current Lean build output) for
# tools/seed_matrix.sh to run from: SNAP=<dir> sh tools/seed_matrix.sh <id>. Remove the directory when the run is over.
d=${1:-/tmp/seedsnap}
rm -rf "$d"; mkdir -p "$d"
git -C /verif archive HEAD | tar -x -C "$d" || exit 2
cp -r /verif/lean/.lake "$d/lean/.lake"
echo "$d"
