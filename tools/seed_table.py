#!/usr/bin/env python3
"""Markdown table of the seeded changes and the checks that catch them (from seeded/*/meta.json, matrix.json)."""
import glob, json, os
rows = []
for d in sorted(glob.glob(os.path.join(os.path.dirname(os.path.dirname(os.path.abspath(__file__))), "seeded", "*"))):
    sid = os.path.basename(d)
    m = json.load(open(d + "/meta.json"))
    mx = json.load(open(d + "/matrix.json")) if os.path.exists(d + "/matrix.json") else {}
    caught = [c for c, i in mx.items() if i["exit"] == 1]
    with_input = [c for c, i in mx.items() if i["exit"] == 1 and i["violation_lines"] > i["no_failing_input"]]
    only_corr = [c for c in caught if c not in with_input]
    infra = [c for c, i in mx.items() if i["exit"] == 2]
    s = m.get("summary", "").replace("|", "/")
    rows.append("| %s | %s | %s | %s | %s |" % (sid, s[:230] + ("…" if len(s) > 230 else ""), ", ".join(with_input) or "—", ", ".join(only_corr) or "—", ", ".join(infra) or ""))
print("| seeded change | what it does | caught with a concrete failing input by | caught as `no-failing-input-found` by | exit 2 |")
print("|---|---|---|---|---|")
print("\n".join(rows))
