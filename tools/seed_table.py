#!/usr/bin/env python3
"""Markdown table of the seeded changes and the checks that catch them (from seeded/*/meta.json, matrix.json, robust.json)."""
import glob, json, os
rows, retired = [], []
for d in sorted(glob.glob(os.path.join(os.path.dirname(os.path.dirname(os.path.abspath(__file__))), "seeded", "*"))):
    sid = os.path.basename(d)
    m = json.load(open(d + "/meta.json"))
    if m.get("retired"):
        retired.append((sid, m["retired"]))
        continue
    mx = json.load(open(d + "/matrix.json")) if os.path.exists(d + "/matrix.json") else {}
    caught = [c for c, i in mx.items() if i["exit"] == 1]
    with_input = [c for c, i in mx.items() if i["exit"] == 1 and i["violation_lines"] > i["no_failing_input"]]
    only_corr = [c for c in caught if c not in with_input]
    infra = [c for c, i in mx.items() if i["exit"] == 2]
    rb = json.load(open(d + "/robust.json")) if os.path.exists(d + "/robust.json") else {}
    cell = []
    if rb and "seeds" not in rb:
        for c, seeds in rb.items():
            k = sum(1 for i in seeds.values() if i["exit"] == 1 and i["violation_lines"] > i["no_failing_input"])
            cell.append("%s %d/%d" % (c, k, len(seeds)))
    st = json.load(open(d + "/static.json")) if os.path.exists(d + "/static.json") else None
    static = "—" if st is None else (", ".join(x.replace("CmProps.", "").replace("CmProofs.", "proofs/").replace("CmGen.", "gen/") for x in st["broken_modules"]) or ("(outside the subset: " + ", ".join(st["untranslated"]) + ")" if st["untranslated"] else "none"))
    s = m.get("summary", "").replace("|", "/")
    rows.append("| %s | %s | %s | %s | %s | %s |%s" % (sid, s[:200] + ("…" if len(s) > 200 else ""), ", ".join(with_input) or "—", ", ".join(only_corr) or "—",
                                                   ", ".join(cell) or "—", static, (" exit 2: " + ", ".join(infra)) if infra else ""))
print("| seeded change | what it does | caught with a concrete failing input by (seed 0, all 19 checks) | caught as `no-failing-input-found` by | with a failing input under seeds 1-3 (own check and seed-0 catchers) | theorem files that stop building when every translator is re-run on the change (tools/seed_static.sh, final machinery) |")
print("|---|---|---|---|---|---|")
print("\n".join(rows))
if retired:
    print()
    for sid, why in retired:
        print("* %s — retired: %s" % (sid, why))
