"""Generators of colour inputs: valid CSS in every spelling, near-miss CSS, typed sequences."""
import math

from opt_common import _named

WS = ["", " ", "  ", "\t", "\n", " \t "]
ODD_WS = ["\x0b", "\x0c", "\x1c", "\x1f", "\x85", "\xa0", " ", "　", "​", "﻿"]
UDIGITS = ["٣", "５", "१", "𝟗"]


def case_fuzz(rng, s):
    return "".join(ch.upper() if rng.random() < 0.3 else ch for ch in s)


def num(rng, lo, hi, decimals=None, pct=False):
    if decimals is None and rng.random() < 0.07:
        # a hair away from a landmark (0, the ends of the range, whole turns of the hue circle), written in plain decimal
        # notation however small the offset: "0.00001", "-0.00000000000000001", "359.99999999999999", "99.999999%"
        from decimal import Decimal
        marks = [Decimal(0), Decimal(lo), Decimal(hi)] + ([Decimal(m) for m in (-720, -360, 360, 720)] if lo < -360 else [])
        v = rng.choice(marks) + rng.choice([1, -1]) * Decimal(10) ** -rng.choice([4, 5, 6, 9, 14, 17, 20])
        v = min(max(v, Decimal(lo)), Decimal(hi))
        return format(v, "f") + ("%" if pct else "")
    d = rng.choice([0, 0, 1, 2, 3, 6]) if decimals is None else decimals
    v = rng.uniform(lo, hi)
    s = ("%." + str(d) + "f") % v
    if rng.random() < 0.1 and s.startswith("0.") and len(s) > 2:
        s = s[1:]
    if rng.random() < 0.05 and not s.startswith("-"):
        s = "+" + s
    return s + ("%" if pct else "")


def valid_css(rng):
    """(string, kind) — an in-range CSS Color 3 value, random case and optional whitespace"""
    k = rng.random()
    w = lambda: rng.choice(WS[:3])
    if k < 0.15:
        c = tuple(rng.randrange(256) for _ in range(3))
        s = "#%02x%02x%02x" % c
        if rng.random() < 0.3:
            s = "#%x%x%x" % tuple(x // 17 for x in c)
        if rng.random() < 0.25:
            s = s[1:]
        return case_fuzz(rng, s), "hex"
    if k < 0.25:
        return case_fuzz(rng, rng.choice(_named())[0]), "named"
    if k < 0.45:
        if rng.random() < 0.5:
            parts = [str(rng.randrange(256)) for _ in range(3)]
        else:
            parts = [num(rng, 0, 100, pct=True) for _ in range(3)]
        s = "rgb(" + w() + ("," + w()).join(p + w() for p in parts) + ")"
        return w() + case_fuzz(rng, s) + w(), "rgb"
    if k < 0.6:
        parts = [str(rng.randrange(256)) for _ in range(3)] if rng.random() < 0.6 else [num(rng, 0, 100, pct=True) for _ in range(3)]
        a = rng.choice(["0", "1", "0.5", "1.0", "0.0", num(rng, 0, 1, 3)])
        s = "rgba(" + w() + ("," + w()).join(p + w() for p in parts + [a]) + ")"
        return w() + case_fuzz(rng, s) + w(), "rgba"
    if k < 0.8:
        h = num(rng, -1080, 1080)
        s = "hsl(" + w() + h + w() + "," + w() + num(rng, 0, 100, pct=True) + w() + "," + w() + num(rng, 0, 100, pct=True) + w() + ")"
        return w() + case_fuzz(rng, s) + w(), "hsl"
    h = num(rng, -720, 720)
    a = rng.choice(["0", "1", "0.5", "0.25", num(rng, 0, 1, 3)])
    s = "hsla(" + w() + h + w() + "," + w() + num(rng, 0, 100, pct=True) + w() + "," + w() + num(rng, 0, 100, pct=True) + w() + "," + w() + a + w() + ")"
    return w() + case_fuzz(rng, s) + w(), "hsla"


NEAR = ["hsl(120px,50%,50%)", "hsl(1e,50%,50%)", "hsla(0.5turns,100%,50%,1)", "hsl(90grad 50% 50%)", "hsl(0.5turn, 100%, 50%)", "hsl(3.14rad,50%,50%)",
        "hsla(120deg, 50%, 50%, 0.5)", "hsl(120 deg,50%,50%)", "hsl(120°,50%,50%)", "rgb(1em,2,3)", "rgba(1,2,3,0.5x)",
        "rgb(" + "9" * 320 + "%, 0%, 0%)", "rgb(" + "9" * 320 + ", 0, 0)", "rgba(1,2,3," + "9" * 320 + ")", "hsl(" + "9" * 320 + ",50%,50%)",
        "hsl(120," + "9" * 320 + "%,50%)", "hsla(120,50%,50%," + "9" * 320 + "%)", "rgb(0." + "0" * 330 + "1%, 0%, 0%)",
        "rgb(", "rgb()", "rgb(1,2)", "rgb(1,2,3", "rgb(1 2 3)", "rgb(1,2,3,4,5)", "rgb(300,0,0)", "rgb(-1,0,0)", "rgb(1e2,0,0)",
        "rgb(50%,50%)", "rgb(1px,2px,3px)", "rgb(1,2,3)garbage", "rgba(1,2,3)", "rgba(1,2,3,2)", "rgba(1,2,3,150)", "rgba(1,2,3,-0.5)",
        "rgba(1,2,3,50%)", "rgba(1 2 3 / 0.5)", "hsl(", "hsl()", "hsl(120)", "hsl(120,50%)", "hsl(120,50%,50%", "hsl(120deg,50%,50%)",
        "hsl(120,150%,50%)", "hsl(120,50%,-5%)", "hsl(120 50% 50%)", "hsl(120,0.5,0.5)", "hsl(120,50,50)", "hsl(nan,50%,50%)",
        "hsl(inf,50%,50%)", "hsl(1e3,50%,50%)", "hsl(120,nan%,50%)", "hsl(1_0,5_0%,50%)", "hsla(120,50%,50%)", "hsla(120,50%,50%,0.5",
        "hsla(120,50%,50%,1.5)", "hsla(120,50%,50%,50)", "hsla(120 50% 50% / 0.5)", "hsla(,,,)", "hsla(120,,,0.5)", "hsla(120,50%,50%,)",
        "hsla(120,50%,50%,nan)", "hsla(inf,50%,50%,0.5)", "#", "#12", "#1234", "#12345", "#1234567", "#ggg", "##fff", "# fff", "fff", "ffff",
        "12345", "123456", "abcdef", "abcdeg", "inherit", "transparent", "currentcolor", "initial", "var(--x)", "var(--x, #fff)", "none", "",
        " ", "red;", "re d", "1,2,3", "1 2 3", "(1,2,3)", "(1,2,3,0.5)", "1,2", "1,2,3,4", "255,255,256", "0.5,0.5,0.5", "50%,50%,50%", "a,b,c",
        "#-12345", "#+12345", "#-fffff", "-12345", "#1_2345", "#0x123", "# 12345", "#12 345", "#١٢٣", "#１２３４５６", "#ＡＢＣ",
        ",", " , ", "rgb 1 2 3", "rgb (1,2,3)", "RGB(1,2,3)", "Rgb(1, 2, 3)", "rgb(1,2,3))", "rgb((1,2,3))", "rgb(1.5,2.5,3.5)", "rgb(0.5,0.5,0.5)",
        "rgb(+1,+2,+3)", "rgb(1,,2,3)", "rgb(1;2;3)", "color(srgb 1 0 0)", "hwb(0 0% 0%)", "lab(50% 0 0)", "#fff fff", "red blue", "ＲＥＤ", "blacK"]


def near_miss(rng):
    s = rng.choice(NEAR)
    k = rng.random()
    if k < 0.15:
        i = rng.randrange(len(s) + 1)
        s = s[:i] + rng.choice(ODD_WS + UDIGITS + ["%", "-", "+", ".", ",", "(", ")", "e", "_", "#", "/"]) + s[i:]
    elif k < 0.25 and s:
        i = rng.randrange(len(s))
        s = s[:i] + s[i + 1:]
    elif k < 0.32:
        s = rng.choice(ODD_WS) + s + rng.choice(ODD_WS)
    elif k < 0.4:
        s = case_fuzz(rng, s)
    elif k < 0.45:
        s = "".join(rng.choice(UDIGITS) if ch.isdigit() and rng.random() < 0.5 else ch for ch in s)
    return s


ATOMS = [0, 0, 1, 1, 2, 127, 128, 255, 256, 300, 360, 361, -1, -255, 1000, 2 ** 31, 2 ** 62, -2 ** 62,
         0.0, 1.0, 0.5, 0.25, 0.999, 1.0000001, 1.5, 2.0, 100.0, 127.5, 254.5, 255.0, 255.5, 359.9, 360.0, 360.5, -0.0, -0.5, 1e-9, 1e9, 1e300,
         float("nan"), float("inf"), float("-inf"),
         "", "0", "1", "255", "256", "0.5", "50%", "100%", "101%", "-5%", "abc", " 12 ", "1e2", "nan", "inf", "0x10", "1_0", "٣", "12px", "%",
         "inf%", "-inf%", "nan%", "1e400%", "-1e400%", "1e400", "1e-400%", "Infinity%", "9" * 320 + "%", "9" * 320,
         None, True, False]


def typed_seq(rng):
    if rng.random() < 0.08:
        # sequences of very small ints / empty strings: where type heuristics (0/1 as "normalised"?) go wrong
        n = rng.choice([3, 4])
        items = [rng.choice([0, 1, 0, 1, 2, "", " ", "0", "1"]) for _ in range(3)] + ([rng.choice([0.9, 0.5, 1, 0, "", 1.0])] if n == 4 else [])
        return tuple(items) if rng.random() < 0.6 else items
    if rng.random() < 0.06:
        # what the heuristics read as HSL / HSLA: three floats no larger than 1, then an alpha of any kind
        items = [round(rng.random(), rng.choice([1, 2, 3])) for _ in range(3)]
        if rng.random() < 0.85:
            items.append(rng.choice([-0.5, -1e-9, -1.0, -255.0, 0.0, 0.5, 1.0, 1.0000001, 1.5, 100.0, float("nan"), float("inf"), float("-inf"),
                                     "0.5", "-0.5", "50%", "-50%", None, True, -1, 2]))
        return tuple(items) if rng.random() < 0.6 else items
    n = rng.choice([0, 1, 2, 3, 3, 3, 3, 4, 4, 4, 4, 5, 6])
    items = []
    for _ in range(n):
        k = rng.random()
        if k < 0.6:
            items.append(rng.choice(ATOMS))
        elif k < 0.75:
            items.append(rng.randrange(256))
        elif k < 0.9:
            items.append(round(rng.random(), rng.choice([1, 2, 3])))
        elif k < 0.95:
            items.append(rng.choice([[], (), [1, 2, 3], (0.5, 0.5)]))
        else:
            items.append(round(rng.uniform(0, 360), 1))
    return tuple(items) if rng.random() < 0.6 else items


def canon(v):
    """hashable key of a value (NaN-safe)"""
    if isinstance(v, float):
        return ("f", "nan") if v != v else ("f", v, math.copysign(1, v))
    if isinstance(v, (list, tuple)):
        return (type(v).__name__,) + tuple(canon(x) for x in v)
    return (type(v).__name__, v)
