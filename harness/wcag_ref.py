"""Independent high-precision WCAG 2 reference (decimal, 60 digits), typed from the WCAG 2
definition — not from the repository. Used as the reference verdict in failing-input searches."""
from decimal import Decimal, getcontext
from functools import lru_cache

getcontext().prec = 60
_D = Decimal


@lru_cache(maxsize=None)
def lin(v: int) -> Decimal:
    c = _D(v) / _D(255)
    # WCAG 2.x text says 0.03928; the sRGB standard 0.04045; they agree on all 256 8-bit values
    if c <= _D("0.04045"):
        return c / _D("12.92")
    base = (c + _D("0.055")) / _D("1.055")
    return (base.ln() * _D("2.4")).exp()


def luminance(rgb) -> Decimal:
    r, g, b = rgb
    return _D("0.2126") * lin(r) + _D("0.7152") * lin(g) + _D("0.0722") * lin(b)


def ratio(a, b) -> Decimal:
    la, lb = luminance(a), luminance(b)
    hi, lo = (la, lb) if la >= lb else (lb, la)
    return (hi + _D("0.05")) / (lo + _D("0.05"))


def meets(a, b, thr) -> bool:
    """exact-real verdict `ratio >= thr` (undecided only within 1e-40 of the threshold: none of the
    2^48 pairs is that close; asserted)"""
    r = ratio(a, b)
    t = _D(str(thr))
    assert abs(r - t) > _D("1e-40") or r == t
    return r >= t


def level(a, b, large=False) -> str:
    aaa, aa = (4.5, 3.0) if large else (7.0, 4.5)
    if meets(a, b, aaa):
        return "AAA"
    if meets(a, b, aa):
        return "AA"
    return "FAIL"
