"""Shared machinery of the checks: proof status, verdict protocol, evidence, findings."""
import fcntl
import hashlib
import json
import os
import random
import re
import subprocess
import sys
import time

VERIF = os.path.dirname(os.path.dirname(os.path.abspath(__file__)))
LEAN = os.path.join(VERIF, "lean")
REPO = os.environ.get("CM_REPO", "/repo")
REPO_SRC = os.path.join(REPO, "src")
EVIDENCE = os.path.join(VERIF, "evidence")
REPLAYS = os.path.join(VERIF, "replays")
ALLOWED_AXIOMS = {"propext", "Classical.choice", "Quot.sound"}
FORBIDDEN = re.compile(
    r"\bsorry\b|\badmit\b|^\s*axiom\s|native_decide|bv_decide|implemented_by|\bunsafe\s|maxHeartbeats\s+0")

TRUSTED_BASE = [
    "Lean 4.33.0 kernel (and leanchecker's replay of the .olean files in the thorough tier)",
    "axioms: every theorem's axiom set is audited on each run and must be a subset of {propext, Classical.choice, Quot.sound}; no sorry/admit/axiom/native_decide/bv_decide in the library (grepped each run)",
    "the correspondence harness under /verif/harness (generators, canonicaliser, model driver protocol)",
    "the translation rules of harness/translate/*.py (Python syntax tree -> Lean definitions in lean/CmGen, regenerated on every run): that each generated definition equals the model's is proved in Lean, that the rules render Python faithfully is assumed (DESIGN 10.7) and cross-checked by the bit-exact correspondence of the model with CPython",
    "IEEE-754 double rounding and libm accuracy; that non-NaN doubles are totally ordered and decimal literals keep their order (LawfulNumOrd / LawfulLit at Float)",
]


def repo_import():
    """Make `cm_colors` importable from /repo's working tree (not from site-packages)."""
    if REPO_SRC in sys.path:
        sys.path.remove(REPO_SRC)
    sys.path.insert(0, REPO_SRC)
    for k in [k for k in sys.modules if k == "cm_colors" or k.startswith("cm_colors.")]:
        del sys.modules[k]
    os.environ.setdefault("CM_COLORS_VERIF", "1")
    import cm_colors  # noqa
    assert os.path.abspath(cm_colors.__file__).startswith(os.path.abspath(REPO_SRC)), cm_colors.__file__
    return cm_colors


class InfraError(RuntimeError):
    """Infrastructure failure (toolchain missing, …): exit 2, never a verdict."""


# --------------------------------------------------------------------------- proof status

def _strip_comments(src: str) -> str:
    # block comments (nested) and line comments
    out, depth, i, n = [], 0, 0, len(src)
    while i < n:
        if src.startswith("/-", i):
            depth += 1
            i += 2
        elif src.startswith("-/", i) and depth:
            depth -= 1
            i += 2
        elif depth:
            if src[i] == "\n":
                out.append("\n")
            i += 1
        elif src.startswith("--", i):
            while i < n and src[i] != "\n":
                i += 1
        else:
            out.append(src[i])
            i += 1
    return "".join(out)


def grep_forbidden():
    hits = []
    for root, _dirs, files in os.walk(LEAN):
        if ".lake" in root:
            continue
        for f in files:
            if not f.endswith(".lean"):
                continue
            p = os.path.join(root, f)
            body = _strip_comments(open(p, encoding="utf-8").read())
            for ln, line in enumerate(body.split("\n"), 1):
                if FORBIDDEN.search(line):
                    hits.append("%s:%d: %s" % (os.path.relpath(p, VERIF), ln, line.strip()))
    return hits


class _Lock:
    def __enter__(self):
        os.makedirs(os.path.join(LEAN, ".lake"), exist_ok=True)
        self.f = open(os.path.join(LEAN, ".lake", "verif.lock"), "w")
        fcntl.flock(self.f, fcntl.LOCK_EX)
        return self

    def __exit__(self, *a):
        fcntl.flock(self.f, fcntl.LOCK_UN)
        self.f.close()


def lake_build(targets):
    """Build targets; returns (ok, output)."""
    with _Lock():
        try:
            p = subprocess.run(["lake", "build"] + list(targets), cwd=LEAN, stdout=subprocess.PIPE,
                               stderr=subprocess.STDOUT, timeout=3000)
        except FileNotFoundError as e:
            raise InfraError("lake not found: %s" % e)
        return p.returncode == 0, p.stdout.decode(errors="replace")


def prop_modules(pid):
    """every module CmProps/<pid>*.lean (a property's theorems may be spread over several files)"""
    d = os.path.join(LEAN, "CmProps")
    return sorted("CmProps." + f[:-5] for f in os.listdir(d) if f.endswith(".lean") and re.fullmatch(re.escape(pid) + r"[A-Za-z_]*", f[:-5]))


def audit(pid):
    """axioms of every theorem in namespace CmProps.<pid>: {name: [axioms]}"""
    src = "import CmAudit\n" + "".join("import %s\n" % m for m in prop_modules(pid)) + "#audit_ns CmProps.%s\n" % pid
    with _Lock():
        p = subprocess.run(["lake", "env", "lean", "--stdin"], cwd=LEAN, input=src.encode(),
                           stdout=subprocess.PIPE, stderr=subprocess.STDOUT, timeout=1200)
    out = p.stdout.decode(errors="replace")
    res = {}
    for line in out.split("\n"):
        m = re.search(r"THEOREM (\S+) \|(.*)$", line)
        if m:
            res[m.group(1)] = m.group(2).split()
    return p.returncode == 0, res, out


def enclosing_decl(path, line):
    """the theorem / definition a line of a Lean source belongs to, as `name (file)`"""
    try:
        lines = open(path, encoding="utf-8").read().split("\n")
    except OSError:
        return None
    for i in range(min(line, len(lines)) - 1, -1, -1):
        m = re.match(r"\s*(?:private\s+|protected\s+|noncomputable\s+)*(theorem|lemma|def|example|instance)\s+([^\s:(\[{]+)?", lines[i])
        if m:
            return "%s %s (%s)" % (m.group(1), m.group(2) or "", os.path.relpath(path, LEAN))
    return None


def declared_theorems(pid):
    """theorem names declared in CmProps/<pid>.lean (textually), so that a theorem that no longer
    builds is still counted as an obligation."""
    names = []
    for mod in prop_modules(pid):
        p = os.path.join(LEAN, "CmProps", mod.split(".")[1] + ".lean")
        body = _strip_comments(open(p, encoding="utf-8").read())
        if not re.search(r"^namespace\s+CmProps\." + pid + r"\s*$", body, re.M):
            continue
        for m in re.finditer(r"^\s*(private\s+)?theorem\s+([A-Za-z_][\w.'?!]*)", body, re.M):
            if not m.group(1):
                names.append("CmProps.%s.%s" % (pid, m.group(2)))
    return names


def proof_status(pid, regenerate=None):
    """Regenerate translated files, build the property's theorem module and the driver, audit.

    Returns dict(obligations, discharged, broken=[...], build_ok, theorems={name: axioms})."""
    t0 = time.time()
    if regenerate:
        regenerate()
    # the keyword table is part of the model driver every check runs (Main imports CmGen.NamedColors) and of several properties'
    # theorem closures: it is regenerated for every property, not only for C07
    try:
        from translate import named as _named
        _named.generate()
    except Exception:  # noqa  (a tree whose package does not import: the correspondence run will say so)
        pass
    forb = grep_forbidden()
    ok_drv, out_drv = lake_build(["cmmodel", "CmAudit"])
    if not ok_drv:
        raise InfraError("model driver does not build:\n" + out_drv[-3000:])
    ok, out = lake_build(prop_modules(pid) or ["CmProps." + pid])
    declared = declared_theorems(pid)
    st = {"build_ok": ok, "forbidden": forb, "broken": [], "theorems": {}, "build_tail": ""}
    if not ok:
        st["build_tail"] = out[-4000:]
        st["obligations"] = max(1, len(declared))
        st["discharged"] = 0
        errs = re.findall(r"error: ([^\n]*)", out)
        names = []
        for m in re.finditer(r"error: ((?:Cm\w+)/[\w/]+\.lean):(\d+):\d+", out):
            d = enclosing_decl(os.path.join(LEAN, m.group(1)), int(m.group(2)))
            if d and d not in names:
                names.append(d)
        st["broken"] = ["CmProps.%s does not build%s: %s" % (pid, (" - no longer proved: " + ", ".join(names[:8])) if names else "", "; ".join(errs[:3]))]
    else:
        aok, thms, aout = audit(pid)
        if not aok or not thms:
            raise InfraError("axiom audit failed for %s:\n%s" % (pid, aout[-2000:]))
        st["theorems"] = thms
        names = sorted(set(thms) | set(declared))
        st["obligations"] = len(names)
        good = 0
        for n in names:
            axs = thms.get(n)
            if axs is None:
                st["broken"].append("theorem %s is declared but was not found in the built module" % n)
            elif not set(axs) <= ALLOWED_AXIOMS:
                st["broken"].append("theorem %s depends on inadmissible axioms %s" % (n, sorted(set(axs) - ALLOWED_AXIOMS)))
            else:
                good += 1
        st["discharged"] = good
    if forb:
        st["broken"].append("forbidden tokens in the Lean library: " + "; ".join(forb[:5]))
    if ok and os.environ.get("VERIF_TIER") == "thorough":
        # independent replay of the compiled modules by leanchecker
        with _Lock():
            lc = subprocess.run(["lake", "env", "leanchecker"] + prop_modules(pid), cwd=LEAN, stdout=subprocess.PIPE,
                                stderr=subprocess.STDOUT, timeout=3000)
        st["leanchecker"] = "ok" if lc.returncode == 0 else "FAILED: " + lc.stdout.decode(errors="replace")[-500:]
        if lc.returncode != 0:
            st["broken"].append("leanchecker rejects the compiled theorems of %s" % pid)
    st["wall_s"] = round(time.time() - t0, 2)
    return st


# --------------------------------------------------------------------------- findings

def load_findings():
    p = os.path.join(VERIF, "known_findings.json")
    if not os.path.exists(p):
        return []
    return json.load(open(p))["findings"]


# --------------------------------------------------------------------------- a run

class Run:
    def __init__(self, pid, tier, seed):
        self.pid = pid
        self.tier = tier
        self.seed = seed
        self.rng = random.Random((seed * 1000003) ^ int(hashlib.sha1(pid.encode()).hexdigest()[:8], 16))
        self.t0 = time.time()
        self.violations = []       # dicts: {what, case, ...} property failures on the implementation
        self.divergences = []      # model/implementation disagreements (not violations by themselves)
        self.broken = []           # proof obligations / correspondences that no longer check
        self.evaluations = 0
        self.distinct = set()
        self.distinct_bulk = 0   # distinct cases counted where they were evaluated (worker-side sweeps)
        self.samples = []
        self.branches = {}
        self.notes = []
        self.extra = {}
        self.proof = None
        self.rule = ""
        self.exhaustive = False
        self.assumptions = []
        self.trusted = list(TRUSTED_BASE)

    # -- bookkeeping
    def hit(self, tag, n=1):
        self.branches[tag] = self.branches.get(tag, 0) + n

    def count(self, key, nontrivial=True):
        self.evaluations += 1
        if nontrivial:
            self.distinct.add(key if isinstance(key, (str, int, tuple)) else repr(key))

    def sample(self, s, limit=6):
        if len(self.samples) < limit:
            self.samples.append(s)

    def violation(self, what, case, **kw):
        v = {"what": what, "case": case}
        v.update(kw)
        self.violations.append(v)

    def diverge(self, corr, case, impl, model):
        self.divergences.append({"correspondence": corr, "case": case, "impl": impl, "model": model})

    def quick(self):
        return self.tier == "quick"


def _write_replay(pid, idx, payload):
    os.makedirs(REPLAYS, exist_ok=True)
    p = os.path.join(REPLAYS, "%s_%d.json" % (pid, idx))
    with open(p, "w") as f:
        json.dump(payload, f, indent=1, default=repr)
    return p


def finish(run, matchers=None):
    """Classify, print the verdict lines, write the evidence, return the exit code."""
    matchers = matchers or {}
    if os.path.isdir(REPLAYS):
        for f in os.listdir(REPLAYS):
            if f.startswith(run.pid + "_"):
                os.remove(os.path.join(REPLAYS, f))
    findings = [f for f in load_findings() if f["property"] == run.pid]
    known = [f for f in findings if f.get("status") == "known"]
    known_hits = {}
    new = []
    for v in run.violations:
        hit = None
        for f in known:
            m = matchers.get(f.get("predicate"))
            if m and m(v, f):
                hit = f
                break
        if hit:
            known_hits.setdefault(hit["id"], []).append(v)
        else:
            new.append(v)
    # known findings are printed whenever listed (they describe the tree as committed)
    lines = []
    for f in known:
        n = len(known_hits.get(f["id"], []))
        lines.append("KNOWN-FINDING: property=%s %s [%s; reproduced on %d generated case(s) this run]"
                     % (run.pid, f["summary"], f["id"], n))
    code = 0
    idx = 0
    # group new violations by 'what' to keep the output readable; one replay per group (first case)
    groups = {}
    for v in new:
        groups.setdefault(v["what"], []).append(v)
    for what, vs in groups.items():
        path = _write_replay(run.pid, idx, {
            "property": run.pid, "what": what, "count": len(vs), "first": vs[0], "more": vs[1:10],
            "seed": run.seed, "tier": run.tier,
            "replay": "cd /verif && ./check %s --replay <this file>" % run.pid})
        idx += 1
        lines.append("VIOLATION property=%s replay=%s" % (run.pid, path))
        code = 1
    broken = list(run.broken)
    if run.proof and run.proof["broken"]:
        broken = run.proof["broken"] + broken
    if run.divergences:
        by = {}
        for d in run.divergences:
            by.setdefault(d["correspondence"], []).append(d)
        for c, ds in by.items():
            broken.append("correspondence %s: model and implementation differ on %d case(s), first: %s"
                          % (c, len(ds), json.dumps(ds[0], default=repr)[:600]))
    if broken and not new:
        # something no longer checks and no concrete failing input was found: still a violation,
        # unless every divergence is explained by a listed known finding
        unexplained = [b for b in broken if not any(
            (matchers.get(f.get("predicate") + ":broken") or (lambda *_: False))(b, f) for f in known)]
        if unexplained:
            path = _write_replay(run.pid, idx, {
                "property": run.pid, "no_longer_checks": unexplained, "seed": run.seed, "tier": run.tier,
                "divergences": run.divergences[:10],
                "note": "a proof obligation or correspondence no longer checks; the failing-input search found no input on which the property itself fails"})
            lines.append("VIOLATION property=%s replay=%s no-failing-input-found" % (run.pid, path))
            code = 1
    for l in lines:
        print(l)
    write_evidence(run, len(new) + (1 if code and not new else 0), broken)
    print("%s %s tier=%s seed=%d evaluations=%d distinct=%d obligations=%s discharged=%s wall=%.1fs" % (
        "FAIL" if code else "ok", run.pid, run.tier, run.seed, run.evaluations, len(run.distinct) + run.distinct_bulk,
        run.proof and run.proof["obligations"], run.proof and run.proof["discharged"], time.time() - run.t0))
    return code


def write_evidence(run, nviol, broken):
    if os.environ.get("VERIF_NO_FALLBACK") == "1":
        return          # a diagnostic sub-run against the committed HEAD (harness/main.py): not this run's evidence
    os.makedirs(EVIDENCE, exist_ok=True)
    pr = run.proof or {"obligations": 0, "discharged": 0, "theorems": {}}
    cov = {
        "obligations": pr["obligations"],
        "discharged": pr["discharged"],
        "checker_cmd": "cd /verif/lean && lake build CmProps.%s && printf 'import CmAudit\\nimport CmProps.%s\\n#audit_ns CmProps.%s\\n' | lake env lean --stdin" % (run.pid, run.pid, run.pid),
        "trusted_base": run.trusted,
        "theorems": {k: v for k, v in sorted(pr.get("theorems", {}).items())},
        "evaluations": run.evaluations,
        "distinct_nontrivial": len(run.distinct) + run.distinct_bulk,
        "rule": run.rule,
        "samples": run.samples,
        "exhaustive": bool(run.exhaustive),
        "branch_hits": dict(sorted(run.branches.items())),
        "model_impl_divergences": len(run.divergences),
        "no_longer_checks": broken,
        "leanchecker": pr.get("leanchecker", "not run (thorough tier only)"),
        "notes": run.notes,
    }
    cov.update(run.extra)
    ev = {
        "property_id": run.pid,
        "tier": run.tier,
        "seed": run.seed,
        "level": "proof",
        "coverage": cov,
        "assumptions": run.assumptions,
        "wall_s": round(time.time() - run.t0, 2),
        "violations": nviol,
    }
    with open(os.path.join(EVIDENCE, run.pid + ".json"), "w") as f:
        json.dump(ev, f, indent=1, default=repr)
        f.write("\n")
