"""C12 — the bulk API is exactly a map of the single-pair API, in order."""
import json

import gen_colors as gc
import valenc
import wcag_ref
from common import proof_status, repo_import
from opt_common import gen_pairs, knife_edge_pairs, pool
from proto import run_lines
from spellings import OPAQUE_KINDS, TRANSLUCENT_KINDS, spell

MATCHERS = {}
LABEL = {"AAA": "very readable", "AA": "readable", "FAIL": "not readable"}


def w_bulk(job):
    """runs in a worker: bulk over the list, and every entry alone"""
    import opt_common
    items, mode, very = job
    from cm_colors import ColorPair, make_readable_bulk
    from cm_colors.core.color_parser import parse_color_to_rgb
    try:
        bulk = make_readable_bulk(items, mode=mode, very_readable=very)
    except Exception as e:  # noqa
        return {"raise": type(e).__name__ + ": " + str(e)[:200]}
    singles = []
    for it in items:
        large = it[2] if len(it) == 3 else False
        try:
            p = ColorPair(it[0], it[1], large)
            if not p.is_valid:
                singles.append(("invalid",)); continue
            out, ok = p.make_readable(mode=mode, very_readable=very)
            try:
                rb = tuple(parse_color_to_rgb(out, background=tuple(p.bg.rgb)))
            except Exception:  # noqa
                rb = None
            css = opt_common.css_read(out) if isinstance(out, str) else tuple(out)
            singles.append((out, ok, rb, tuple(p.bg.rgb), css))
        except Exception as e:  # noqa
            singles.append(("raise", type(e).__name__))
    return {"bulk": bulk, "singles": singles}


def gen_list(rng):
    n = rng.choice([0, 1, 2, 3, 3, 4, 5, 8])
    pairs, _ = gen_pairs(rng, max(n, 1))
    items = []
    for (t, b) in pairs[:n]:
        k = rng.random()
        if k < 0.18:
            text, bg = rng.choice([gc.near_miss(rng), gc.typed_seq(rng), "notacolor", "", None, 5]), "#fff"
            if rng.random() < 0.3:
                text, bg = "#333", rng.choice([gc.near_miss(rng), "nope", ()])
        else:
            text, _ = spell(rng, t, rng.choice(OPAQUE_KINDS + TRANSLUCENT_KINDS))
            bg, _ = spell(rng, b, rng.choice(OPAQUE_KINDS))
        items.append((text, bg) if rng.random() < 0.5 else (text, bg, bool(rng.randrange(2))))
    if items and rng.random() < 0.4:
        it = items[rng.randrange(len(items))]
        k = rng.random()
        if k < 0.4:
            items.append(it)                                  # exact duplicate
        elif k < 0.7:
            items.append((it[0], it[1], not (it[2] if len(it) == 3 else False)))   # same colours, other text size
        else:
            items.insert(0, (it[0], it[1], True))             # a large-text entry ahead of a 2-element one
            items.append((it[0], it[1]))
    if rng.random() < 0.15:
        # entries that compare equal in Python (1 == 1.0 == True) but are different colours to the parser
        tw = rng.choice([(1, 1, 1), (1, 0, 0), (0, 1, 0), (0, 0, 1), (1, 1, 0), (1, 1, 1, 1), (0, 0, 0)])
        variants = [tw, tuple(float(x) for x in tw), tuple(bool(x) for x in tw), list(tw)]
        rng.shuffle(variants)
        bgv = rng.choice(["#000000", "#fff", (0, 0, 0), (0.0, 0.0, 0.0)])
        for v in variants[: rng.randrange(2, 5)]:
            items.insert(rng.randrange(len(items) + 1), (v, bgv) if rng.random() < 0.6 else (v, bgv, bool(rng.randrange(2))))
    return items


def enc_colour(v):
    import fmt_workers as fw
    from proto import fbits
    from proto import t3
    if isinstance(v, (tuple, list)):
        return t3(v)
    m = fw.HSL_RE.match(v) if isinstance(v, str) else None
    if m:
        try:
            return "h:" + ",".join(fbits(float(x)) for x in m.groups())
        except ValueError:
            pass
    return "s:" + v.encode().hex() if isinstance(v, str) else "x:" + repr(v)


def regen_api():
    """CmGen/Api.lean: Color / ColorPair / make_readable / make_readable_bulk as they read now (the `source_*` theorems of
    CmProps/C12api.lean identify them with the model)"""
    from translate import api
    api.generate()


def check(run):
    run.proof = proof_status("C12", regenerate=regen_api)
    from translate import api as _api
    run.extra["source_translation_api"] = _api.summary()
    q = run.quick()
    repo_import()
    nl = 260 if q else 6000
    run.rule = ("lists of 0-9 entries (2- and 3-element, mixed), every colour spelling incl. translucent and hsl, invalid "
                "entries (near-miss CSS, wrong types) at random positions, duplicates; each list also permuted; x mode x "
                "very_readable. Bulk output is compared with the single-pair API entry by entry, with the WCAG label of the "
                "returned colour (60-digit reference) and with the model's fold. distinct = distinct (list, settings); "
                "non-trivial = the list has at least two entries")
    jobs = []
    for _ in range(nl):
        items = gen_list(run.rng)
        mode, very = run.rng.choice([0, 1, 2]), bool(run.rng.randrange(2))
        jobs.append((items, mode, very))
        if len(items) > 1 and run.rng.random() < 0.5:
            perm = items[:]
            run.rng.shuffle(perm)
            jobs.append((perm, mode, very))
    # entries whose ratio sits within 0.004 of a threshold: the label must not move
    for (t, b) in knife_edge_pairs(run.rng, 40 if q else 1200):
        large = bool(run.rng.randrange(2))
        jobs.append(([("#%02x%02x%02x" % t, "#%02x%02x%02x" % b, large), ("rgb(%d, %d, %d)" % t, tuple(b))], run.rng.choice([0, 1, 2]), bool(run.rng.randrange(2))))
    jobs = [j for j in jobs if all(valenc.encodable(x) for it in j[0] for x in it[:2])]
    with pool() as p:
        res = p.map(w_bulk, jobs, chunksize=2)
    enc_ok = []
    for (items, mode, very) in jobs:
        try:
            enc_ok.append(valenc.bulk_line(items, mode, very))
        except TypeError:
            enc_ok.append(None)
    idx = [i for i, l in enumerate(enc_ok) if l is not None]
    mo = dict(zip(idx, run_lines([enc_ok[i] for i in idx], chunks=16)))
    for ji, ((items, mode, very), r) in enumerate(zip(jobs, res)):
        key = json.dumps([items, mode, very], default=repr)
        run.count(key, len(items) >= 2)
        run.hit("len.%s" % (len(items) if len(items) < 4 else "4+"))
        case = {"items": repr(items), "mode": mode, "very_readable": very}
        if "raise" in r:
            run.violation("make_readable_bulk raised", case, got=r["raise"]); continue
        bulk, singles = r["bulk"], r["singles"]
        if len(bulk) != len(items):
            run.violation("bulk does not return one result per entry", case, got=len(bulk)); continue
        enc = []
        for i, (it, b, s) in enumerate(zip(items, bulk, singles)):
            large = it[2] if len(it) == 3 else False
            if s[0] == "raise":
                run.violation("the single-pair API raised on a bulk entry", case, index=i, got=s[1]); enc.append("?"); continue
            if s[0] == "invalid":
                run.hit("entry.invalid")
                # NaN-safe comparison: the values crossed a process boundary, so `nan == nan` is false
                if not (b[1] == "invalid color" and gc.canon(b[0]) == gc.canon(it[0])):
                    run.violation("an unparseable entry is not returned unchanged with a non-readability status", case, index=i, got=repr(b))
                enc.append("orig " + "invalid color".encode().hex())
                continue
            out, ok, rb, bgc, css = s
            run.hit("entry.%s" % ("hsl" if isinstance(out, str) and out.startswith("hsl(") else type(out).__name__))
            if gc.canon(b[0]) != gc.canon(out):
                run.violation("bulk colour differs from ColorPair(...).make_readable for the same entry", case, index=i, got=repr(b[0]), single=repr(out))
            shown = css if css is not None else rb
            if shown is None:
                run.violation("the returned colour cannot be read back", case, index=i, got=repr(out))
            else:
                want = LABEL[wcag_ref.level(shown, bgc, large)]
                if b[1] != want:
                    run.violation("bulk status is not the readability label of the returned colour against that background at that text size",
                                  case, index=i, got=b[1], expected=want, colour=repr(out), reads_as=list(shown), bg=list(bgc), large=large)
            enc.append(enc_colour(out) + " " + (b[1].encode().hex() if isinstance(b[1], str) else "x:" + repr(b[1])))
        if ji in mo:
            ms = mo[ji].split(" ; ") if mo[ji] else []
            if len(items) == 0:
                ms = []
            same = len(ms) == len(enc) and all(a == b_ or (a.split()[0][:2] == "h:" and b_.split()[0][:2] == "h:" and a.split()[1] == b_.split()[1]) for a, b_ in zip(enc, ms))
            if not same and "?" not in enc:
                run.diverge("make_readable_bulk==Cm.Bulk.run", case, " ; ".join(enc), mo[ji])
    run.sample({"items": repr(jobs[3][0]), "mode": jobs[3][1], "very": jobs[3][2], "bulk": repr(res[3].get("bulk"))})
    run.assumptions = ["readability label judged by the 60-digit WCAG reference on the colour as a CSS reader reads it back"]


def replay(run, path):
    d = json.load(open(path))
    v = d.get("first")
    print(json.dumps(v or d.get("no_longer_checks"), default=repr)[:1500])
    if not v:
        return 1
    repo_import()
    from cm_colors import make_readable_bulk
    items = eval(v["case"]["items"], {"nan": float("nan"), "inf": float("inf")})
    print("now:", make_readable_bulk(items, mode=v["case"]["mode"], very_readable=v["case"]["very_readable"]))
    return 1
