"""C15 — results are pure functions of the arguments: no history or thread dependence."""
import copy
import hashlib
import json
import os
import pickle
import subprocess
import sys
import threading

import gen_colors as gc
from common import REPO_SRC, proof_status, repo_import
from opt_common import gen_pairs
from spellings import OPAQUE_KINDS, TRANSLUCENT_KINDS, spell

MATCHERS = {}


def regen():
    from translate import statesig
    statesig.generate()


def globals_digest():
    """digest of every non-function, non-class, non-module global of every loaded cm_colors module"""
    out = {}
    for name, mod in sorted(sys.modules.items()):
        if name == "cm_colors" or name.startswith("cm_colors."):
            for k, v in sorted(vars(mod).items()):
                if k.startswith("__") and k not in ("__all__", "__version__"):
                    continue
                if callable(v) or isinstance(v, type(sys)):
                    continue
                try:
                    out[name + "." + k] = hashlib.sha1(pickle.dumps(v)).hexdigest()
                except Exception:  # noqa
                    out[name + "." + k] = "repr:" + repr(v)[:200]
    return out


def deep(o, depth=0):
    """structural snapshot of an object graph (attributes, containers), independent of class identity"""
    if depth > 6:
        return "..."
    if isinstance(o, (str, int, float, bool, type(None), bytes)):
        return repr(o)
    if isinstance(o, (list, tuple)):
        return [type(o).__name__] + [deep(x, depth + 1) for x in o]
    if isinstance(o, dict):
        return {repr(k): deep(v, depth + 1) for k, v in o.items()}
    if hasattr(o, "__dict__"):
        return {"<%s>" % type(o).__name__: {k: deep(v, depth + 1) for k, v in vars(o).items()}}
    return repr(o)


def do_op(op):
    """runs one API operation, returns a JSON-able result"""
    from cm_colors import Color, ColorPair, make_readable_bulk
    kind = op[0]
    try:
        if kind == "color":
            c = Color(op[1]); return ["color", c.is_valid, list(c.rgb) if c.rgb else None]
        if kind == "pair":
            p = ColorPair(op[1], op[2], op[3]); return ["pair", p.is_valid, p.is_readable]
        if kind == "mr":
            p = ColorPair(op[1], op[2], op[3]); r = p.make_readable(mode=op[4], very_readable=op[5]); return ["mr", repr(r)]
        if kind == "bulk":
            # canonical text: tuples and lists alike (the fresh interpreter receives the operation through JSON), NaN-safe
            return ["bulk", json.dumps(make_readable_bulk(op[1], mode=op[2], very_readable=op[3]), default=list)]
        if kind == "cli":
            import cli_workers
            r = cli_workers.run_cli(({"h.css": op[1].encode()}, "h.css", op[2]))
            import re as _re
            # the report line prints an absolute path inside the per-run scratch directory
            out = _re.sub(r"Report generated: .*", "Report generated: <path>", r["stdout"])
            return ["cli", out, (r["after"].get("h_cm.css") or (None, b""))[1].decode("utf-8", "replace")]
    except Exception as e:  # noqa
        return ["raise", type(e).__name__]
    return ["?"]


def rand_op(rng, pairs):
    t, b = rng.choice(pairs)
    ts, _ = spell(rng, t, rng.choice(OPAQUE_KINDS + TRANSLUCENT_KINDS))
    bs, _ = spell(rng, b, rng.choice(OPAQUE_KINDS))
    k = rng.random()
    if k < 0.15:
        return ("color", rng.choice([ts, gc.near_miss(rng), gc.typed_seq(rng)]))
    if k < 0.3:
        return ("pair", ts, bs, bool(rng.randrange(2)))
    if k < 0.7:
        return ("mr", ts, bs, bool(rng.randrange(2)), rng.choice([0, 1, 2]), bool(rng.randrange(2)))
    if k < 0.9:
        items = []
        for _ in range(rng.randrange(0, 4)):
            t2, b2 = rng.choice(pairs)
            items.append((spell(rng, t2, rng.choice(OPAQUE_KINDS))[0], spell(rng, b2, rng.choice(OPAQUE_KINDS))[0]))
        if rng.random() < 0.3:
            # neighbours that are equal as Python values (1 == 1.0 == True) but different colours, and the same colours at
            # the other text size: a result must not depend on what else is in the list
            tw = rng.choice([(1, 1, 1), (1, 0, 0), (0, 1, 0), (1, 1, 1, 1), (0, 0, 0)])
            for v in rng.sample([tw, tuple(float(x) for x in tw), tuple(bool(x) for x in tw)], 2):
                items.insert(rng.randrange(len(items) + 1), (v, "#000000"))
        if items and rng.random() < 0.5:
            # a large-text entry somewhere (often ahead of the two-element entries, which must not inherit its flag)
            it = rng.choice(items)
            items.insert(rng.choice([0, 0, rng.randrange(len(items) + 1)]), (it[0], it[1], True))
            if rng.random() < 0.5:
                items.append(("#888888", "#ffffff"))      # 3.54:1 - readable only as large text
        return ("bulk", items, rng.choice([0, 1, 2]), bool(rng.randrange(2)))
    import gen_css
    return ("cli", gen_css.stylesheet(rng), ["--mode", str(rng.choice([0, 1, 2]))])


FRESH = r'''
import sys, json
sys.path.insert(0, %r); sys.path.insert(0, %r)
from props.c15 import do_op
ops = json.load(sys.stdin)
print(json.dumps([do_op(tuple(o) if not isinstance(o, tuple) else o) for o in ops]))
'''


def fresh_results(ops, hashseed):
    env = dict(os.environ, PYTHONHASHSEED=str(hashseed), CM_REPO=os.environ.get("CM_REPO", "/repo"))
    p = subprocess.run([sys.executable, "-c", FRESH % (REPO_SRC, os.path.dirname(os.path.dirname(os.path.abspath(__file__))))],
                       input=json.dumps(ops).encode(), stdout=subprocess.PIPE, stderr=subprocess.PIPE, env=env, timeout=600)
    if p.returncode != 0:
        raise RuntimeError("fresh interpreter failed: " + p.stderr.decode()[-400:])
    return json.loads(p.stdout.decode().strip().split("\n")[-1])


def jsonable(op):
    return json.loads(json.dumps(op, default=list))


def check(run):
    run.proof = proof_status("C15", regenerate=regen)
    q = run.quick()
    repo_import()
    from cm_colors import ColorPair
    nh = 40 if q else 600
    run.rule = ("random histories of 3-12 API operations (Color, ColorPair + is_readable, make_readable with any settings, "
                "make_readable_bulk, in-process CLI runs) followed by a probe; the probe's result is compared with the result "
                "in a fresh interpreter (different PYTHONHASHSEED); module globals of every cm_colors module are digested "
                "before/after each history; a reused ColorPair is deep-compared before/after make_readable; a fixed workload is "
                "run sequentially and on 8 threads. distinct = distinct (history, probe); non-trivial = the history contains at "
                "least one fixing operation")
    pairs, _ = gen_pairs(run.rng, 120)
    probes, hists = [], []
    for _ in range(nh):
        h = [rand_op(run.rng, pairs) for _ in range(run.rng.randrange(3, 13))]
        p = rand_op(run.rng, pairs)
        while p[0] == "cli" and run.rng.random() < 0.7:
            p = rand_op(run.rng, pairs)
        hists.append(h); probes.append(p)
    ok_idx = []
    for i, p in enumerate(probes):
        try:
            json.dumps(p, default=list); ok_idx.append(i)
        except (TypeError, ValueError):
            pass
    fresh = fresh_results([jsonable(probes[i]) for i in ok_idx], hashseed=run.rng.randrange(1, 10 ** 6))
    fresh_by = dict(zip(ok_idx, fresh))
    base_digest = globals_digest()
    for i, (h, p) in enumerate(zip(hists, probes)):
        before = globals_digest()
        for op in h:
            do_op(op)
        got = do_op(p)
        after = globals_digest()
        run.count(json.dumps([h, p], default=repr), any(o[0] in ("mr", "bulk", "cli") for o in h))
        for o in h:
            run.hit("history_op." + o[0])
        run.hit("probe." + p[0])
        case = {"history": repr(h)[:1500], "probe": repr(p)}
        if before != after:
            changed = [k for k in after if before.get(k) != after[k]] + [k for k in before if k not in after]
            run.violation("module-level state of the package changed during a history of API calls", case, details={"changed": changed[:6]})
        if i in fresh_by:
            want = fresh_by[i]
            if json.loads(json.dumps(got, default=list)) != want:
                run.violation("the result of an operation depends on the history of earlier calls (differs from a fresh interpreter)", case,
                              details={"after_history": repr(got)[:400], "fresh_interpreter": repr(want)[:400]})
    # "at any position in a bulk list": an entry's result inside a list = its result as a list of its own
    from cm_colors import make_readable_bulk
    for _ in range(36 if q else 1500):
        op = rand_op(run.rng, pairs)
        while op[0] != "bulk" or not op[1]:
            op = rand_op(run.rng, pairs)
        _, items, mode, very = op
        try:
            whole = make_readable_bulk(items, mode=mode, very_readable=very)
        except Exception as e:  # noqa
            run.violation("make_readable_bulk raised", {"items": repr(items), "mode": mode, "very_readable": very}, details={"exception": repr(e)[:200]})
            continue
        run.count(("bulk-position", repr(items), mode, very))
        for k, ent in enumerate(items):
            alone = make_readable_bulk([ent], mode=mode, very_readable=very)
            if repr(whole[k:k + 1]) != repr(alone):
                run.violation("the result for an entry depends on the other entries of the bulk list", {"items": repr(items), "position": k, "mode": mode, "very_readable": very},
                              details={"in_list": repr(whole[k]), "alone": repr(alone[0]) if alone else None})
                break
    run.hit("bulk_position.checked", 36 if q else 1500)
    # make_readable does not alter the pair; repeated calls agree
    for _ in range(60 if q else 1500):
        t, b = run.rng.choice(pairs)
        ts, _ = spell(run.rng, t, run.rng.choice(OPAQUE_KINDS + TRANSLUCENT_KINDS))
        bs, _ = spell(run.rng, b, run.rng.choice(OPAQUE_KINDS))
        p = ColorPair(ts, bs, bool(run.rng.randrange(2)))
        snap = deep(p)
        mode, very = run.rng.choice([0, 1, 2]), bool(run.rng.randrange(2))
        r1 = p.make_readable(mode=mode, very_readable=very)
        mid = deep(p)
        p.make_readable(mode=run.rng.choice([0, 1, 2]), very_readable=bool(run.rng.randrange(2)))
        r2 = p.make_readable(mode=mode, very_readable=very)
        run.count(("reuse", repr(ts), repr(bs), mode, very))
        if snap != mid or deep(p) != snap:
            run.violation("make_readable altered the ColorPair it was called on", {"text": repr(ts), "bg": repr(bs), "mode": mode, "very_readable": very}, details={})
        if r1 != r2:
            run.violation("repeating make_readable on the same ColorPair gives a different result", {"text": repr(ts), "bg": repr(bs), "mode": mode, "very_readable": very},
                          details={"first": repr(r1), "again": repr(r2)})
    run.hit("reuse.checked", 60 if q else 1500)
    # threads: fixed workload sequentially and on 8 threads
    work = [rand_op(run.rng, pairs) for _ in range(48 if q else 400)]
    work = [w for w in work if w[0] != "cli"]
    # blends that land exactly on x.5 (alpha 1/2, channel and background of opposite parity; alpha 3/4 with 4 | c + 3 - k):
    # where a rounding rule kept in per-thread state of the standard library (decimal context, locale) would show
    for _ in range(16 if q else 120):
        c = tuple(2 * run.rng.randrange(20, 120) for _ in range(3))
        txt = run.rng.choice(["rgba(%d, %d, %d, 0.5)" % c, (c[0], c[1], c[2], 0.5), "rgba(%d, %d, %d, 0.75)" % tuple(x | 1 for x in c)])
        work.append(("mr", txt, run.rng.choice(["#ffffff", "white", (255, 255, 255)]), bool(run.rng.randrange(2)), run.rng.choice([0, 1, 2]), bool(run.rng.randrange(2))))
        work.append(("pair", txt, "#ffffff", False))
    seq = [do_op(w) for w in work]
    res = [None] * len(work)

    def worker(k):
        for j in range(k, len(work), 8):
            res[j] = do_op(work[j])
    ths = [threading.Thread(target=worker, args=(k,)) for k in range(8)]
    for t in ths:
        t.start()
    for t in ths:
        t.join()
    for w, a, b in zip(work, seq, res):
        run.count(("thread", repr(w)))
        if a != b:
            run.violation("an operation issued concurrently from several threads gives a different result", {"operation": repr(w)},
                          details={"sequential": repr(a)[:300], "threaded": repr(b)[:300]})
    run.hit("threads.ops", len(work))
    if globals_digest() != base_digest:
        run.violation("module-level state of the package changed over the whole run", {"run": "all"}, details={})
    run.sample({"history": repr(hists[0])[:600], "probe": repr(probes[0]), "fresh": fresh[0] if fresh else None})
    run.assumptions = ["the static scan (harness/translate/statesig.py) can miss state: it is in the trusted base and is backed by the dynamic digests above",
                       "CPython's thread switching inside an operation and rich's global console state are not modelled: the schedule clause rests on the observed 8-thread run (exploration-level support)"]


def replay(run, path):
    d = json.load(open(path))
    v = d.get("first")
    print(json.dumps(v or d.get("no_longer_checks"), default=repr)[:2500])
    return 1
