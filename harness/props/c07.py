"""C07 — CSS colour values parse to the colour CSS defines."""
import json
import math
from fractions import Fraction

import gen_colors as gc
import valenc
from common import proof_status, repo_import
from opt_common import _named
from proto import run_lines

MATCHERS = {}


def regen():
    from translate import named, strhelpers, parsersrc, convstr, parserseq
    named.generate()
    parserseq.generate()        # CmGen/ParserSeq.lean: the sequence branch and the dispatch (CmProps/C07whole.lean composes it with the string branch)
    from translate import hexsrc
    hexsrc.generate()           # CmGen/HexSrc.lean: hex_to_rgb, the number-token pattern and _extract_number_tokens as they read now (CmProps/C07hex.lean)
    convstr.generate()          # CmGen/ConvStr.lean: the input parsing of hsl_to_rgb as it reads now (CmProps/C07conv.lean)
    parsersrc.generate()        # CmGen/ParserSrc.lean: the string branch of parse_color_to_rgb as it reads now (CmProps/C07parse.lean)
    strhelpers.generate()       # CmGen/StrHelpers.lean: the parser's string-to-number helpers as they read now (CmProps/C07tie.lean)


def css_expected(s):
    """(r,g,b,alpha) exact-ish channels on the 0..255 scale as CSS Color 3 defines them
    (tinycss2.color3, an independent reader), or None"""
    import tinycss2.color3 as c3
    if s.strip().lower() == "rebeccapurple":   # the one keyword CSS Color 4 added
        return (102.0, 51.0, 153.0, 1)
    try:
        c = c3.parse_color(s)
    except Exception:
        return None
    if c is None or c == "currentColor":
        return None
    return (255 * c.red, 255 * c.green, 255 * c.blue, c.alpha)


def nearest_ok(got, exact, slack=1e-9):
    return abs(got - exact) <= 0.5 + slack


def variants(rng, s):
    """spellings CSS treats as equivalent: letter case, optional whitespace around tokens"""
    out = [s.upper(), s.lower(), gc.case_fuzz(rng, s), "  " + s + "\t", "\n" + s]
    if "(" in s:
        body = s[s.index("(") + 1:s.rindex(")")]
        head = s[:s.index("(") + 1]
        parts = [p.strip() for p in body.split(",")]
        out.append(head + " " + " , ".join(parts) + " )")
        out.append(head + ",".join(parts) + ")")
        out.append(head + ",\t".join(parts) + ")")
    if s.startswith("#"):
        out.append(s[1:])
    return out


def w_hex_slab(r):
    """all 65,536 six-digit hex strings with red = r, in three spellings: exact value expected"""
    import sys, os
    from common import repo_import
    sys.stdout = open(os.devnull, "w")
    repo_import()
    from cm_colors.core.color_parser import parse_color_to_rgb
    bad = []
    n = 0
    for g in range(256):
        for b in range(256):
            s = "%02x%02x%02x" % (r, g, b)
            for v in ("#" + s, s.upper(), "#" + s[:3].upper() + s[3:]):
                n += 1
                try:
                    got = tuple(parse_color_to_rgb(v))
                except Exception as e:  # noqa
                    got = type(e).__name__
                if got != (r, g, b):
                    bad.append((v, got))
    return n, bad[:5], len(bad)


def check(run):
    run.proof = proof_status("C07", regenerate=regen)
    from translate import strhelpers as _sh
    run.extra["source_translation"] = _sh.summary()
    from translate import parsersrc as _psrc
    run.extra["source_translation_parser"] = _psrc.summary()
    q = run.quick()
    repo_import()
    from cm_colors.core.color_parser import parse_color_to_rgb
    n = 12000 if q else 200000
    run.rule = ("all 148 keywords x letter case; hex: %s; %d functional values rgb()/rgba()/hsl()/hsla() with integer or "
                "percentage components (0-6 decimals), hues in [-1080, 1080], alpha in [0,1], random opaque backgrounds, "
                "each with letter-case and optional-whitespace variants; 3-tuples/lists of 8-bit ints. Each value is compared "
                "with the Float model, the exact (rational) model and the CSS definition (tinycss2.color3). distinct = distinct "
                "(value, background); all non-trivial" % ("4096 three-digit + 20k six-digit strings x case x '#'" if q else "all 4096 three-digit and all 16,777,216 six-digit strings", n))

    import zlib

    def impl(v, bg=None):
        # every third value (by a checksum of the case) is first parsed on its own, without a background: the result for (value,
        # background) must not depend on what was parsed before
        if bg is not None and zlib.crc32(repr((v, bg)).encode()) % 3 == 0:
            try:
                parse_color_to_rgb(v)
            except Exception:  # noqa
                pass
        try:
            return tuple(parse_color_to_rgb(v, background=bg))
        except Exception as e:  # noqa
            return type(e).__name__

    cases = []   # (value, bg, kind)
    for name, rgb in _named():
        for v in (name, name.upper(), gc.case_fuzz(run.rng, name), " " + name.title() + " "):
            cases.append((v, None, "named"))
    for i in range(4096):
        s = "%03x" % i
        cases.append(("#" + s, None, "hex3"))
        cases.append((gc.case_fuzz(run.rng, s), None, "hex3"))
    if q:
        for _ in range(20000):
            s = "%06x" % run.rng.randrange(1 << 24)
            cases.append((run.rng.choice(["#", ""]) + gc.case_fuzz(run.rng, s), None, "hex6"))
    for _ in range(n):
        s, kind = gc.valid_css(run.rng)
        bg = None if run.rng.random() < 0.4 else tuple(run.rng.randrange(256) for _ in range(3))
        cases.append((s, bg, kind))
    for _ in range(2000):
        c = tuple(run.rng.randrange(256) for _ in range(3))
        cases.append((c if run.rng.random() < 0.5 else list(c), None, "tuple"))
    if not q:
        # exhaustive: every six-digit hex string (lower-case with '#', upper-case bare, mixed case)
        import multiprocessing as mp
        with mp.get_context("fork").Pool(16) as hp:
            hres = hp.map(w_hex_slab, range(256))
        run.evaluations += sum(x[0] for x in hres)
        run.distinct_bulk += sum(x[0] for x in hres)
        run.extra["hex6_exhaustive"] = {"strings": sum(x[0] for x in hres), "wrong": sum(x[2] for x in hres)}
        run.exhaustive = True
        for _n, bads, _c in hres:
            for v, got in bads[:2]:
                run.violation("a six-digit hex colour does not parse to the colour it denotes", {"value": repr(v), "background": None}, got=got)
    fm = run_lines([valenc.parse_line(v, b) for v, b, _ in cases], chunks=16)
    strs = [(i, c) for i, c in enumerate(cases) if isinstance(c[0], str)]
    qm = run_lines([valenc.parse_line(v, b).replace("parse", "parseq", 1) for _, (v, b, _) in strs], chunks=16)
    qres = {i: o for (i, _), o in zip(strs, qm)}
    exact_vs_float = 0
    for i, ((v, bg, kind), m) in enumerate(zip(cases, fm)):
        got = impl(v, bg)
        run.count((gc.canon(v), bg))
        run.hit("kind." + kind)
        gs = "ok %d %d %d" % got if isinstance(got, tuple) else "err " + {"ValueError": "value", "TypeError": "type"}.get(got, got)
        if gs != m.rsplit(" ", 1)[0]:
            run.diverge("parse_color_to_rgb==Cm.Parse.parseColor (Float)", {"value": repr(v), "background": bg}, gs, m)
        if i in qres and qres[i] != m.rsplit(" ", 1)[0]:
            # the exact model may differ from the float model only by one unit at a rounding tie
            a, b = qres[i].split(), m.split()
            if a[0] == "ok" and b[0] == "ok" and all(abs(int(x) - int(y)) <= 1 for x, y in zip(a[1:4], b[1:4])):
                exact_vs_float += 1
            else:
                run.diverge("Cm.Parse.parseColor at Float == at Rat (up to rounding ties)", {"value": repr(v), "background": bg}, m, qres[i])
        # against the CSS definition
        if not isinstance(got, tuple):
            run.violation("an in-range CSS colour value is rejected", {"value": repr(v), "background": bg}, got=got)
            continue
        if kind == "tuple":
            if got != tuple(v):
                run.violation("a tuple/list of three 8-bit integers does not parse to itself", {"value": repr(v)}, got=got)
            continue
        exp = css_expected(v.strip() if kind not in ("hex", "hex6", "hex3") else ("#" + v.strip().lstrip("#")))
        if exp is None:
            run.notes.append("reference reader has no value for %r" % (v,))
            continue
        r, g, b, a = exp
        if a == 1:
            if not all(nearest_ok(x, y) for x, y in zip(got, (r, g, b))):
                run.violation("parsed colour is not the nearest 8-bit value of the colour CSS defines", {"value": repr(v), "background": bg},
                              got=got, css=[round(r, 4), round(g, 4), round(b, 4)])
        else:
            bgc = bg or (255, 255, 255)
            blend = [a * x + (1 - a) * y for x, y in zip((r, g, b), bgc)]
            run.hit("translucent")
            if not all(abs(x - y) <= 1.5 + 1e-9 for x, y in zip(got, blend)):
                run.violation("translucent colour is not composited over the supplied background (white by default) within 1.5 units",
                              {"value": repr(v), "background": bg}, got=got, exact_blend=[round(x, 3) for x in blend])
    run.extra["exact_model_vs_float_model_rounding_ties"] = exact_vs_float
    # equivalent spellings
    nv = 1500 if q else 20000
    for _ in range(nv):
        s, kind = gc.valid_css(run.rng)
        s = s.strip()
        bg = None if run.rng.random() < 0.5 else tuple(run.rng.randrange(256) for _ in range(3))
        base = impl(s, bg)
        for v in variants(run.rng, s):
            run.count((gc.canon(v), bg))
            r = impl(v, bg)
            if r != base:
                run.violation("spellings CSS treats as equivalent give different results", {"value": repr(s), "variant": repr(v), "background": bg}, got=[base, r])
    run.hit("equivalence.checked", nv)
    run.sample({"value": "hsl(-120.5, 40%, 60%)", "impl": impl("hsl(-120.5, 40%, 60%)"), "css": css_expected("hsl(-120.5, 40%, 60%)")})
    run.sample({"value": repr(cases[-2001][0]), "bg": cases[-2001][1], "float_model": fm[-2001], "impl": impl(cases[-2001][0], cases[-2001][1])})
    run.assumptions = ["CSS definition: tinycss2.color3 (independent CSS Color 3 reader) + rebeccapurple; where the exact value is within 1e-9 of a half-integer either neighbour is accepted",
                       "plain decimal notation only (scientific notation is outside the stated domain)"]


def replay(run, path):
    d = json.load(open(path))
    v = d.get("first")
    print(json.dumps(v or d.get("no_longer_checks"), default=repr)[:1500])
    if not v:
        return 1
    repo_import()
    from cm_colors.core.color_parser import parse_color_to_rgb
    val = eval(v["case"]["value"])
    try:
        print("now:", parse_color_to_rgb(val, background=tuple(v["case"]["background"]) if v["case"].get("background") else None), "css:", css_expected(val) if isinstance(val, str) else None)
    except Exception as e:  # noqa
        print("now: raises", repr(e))
    return 1
