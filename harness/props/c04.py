"""C04 — change is bounded: strict mode within dE 5.0, each search step within tolerance."""
import json

from common import proof_status
from opt_common import gen_pairs, correspond_caf, pool, rand_rgb, w_routine, w_steps
from proto import t3, bitsf, fbits, run_lines

MATCHERS = {}


def regen_leaves():
    """CmGen/Leaves.lean: the numeric functions and constants of the source as they read now (the `source_*`
    theorems of CmProps/C04tie.lean identify them with the model)"""
    from translate import leaves, optimiser, api
    leaves.generate()
    optimiser.generate()
    api.generate()              # CmGen/Api.lean: make_readable as it reads now (CmProps/C04cap.lean states the property about that image)
DEFAULT = [0.8, 1.0, 1.2, 1.4, 1.6, 1.8, 2.0, 2.1, 2.2, 2.3, 2.4, 2.5, 2.7, 3.0, 3.5, 4.0, 5.0]
STEP = [0.8, 1.0, 1.2, 1.4, 1.6, 1.8, 2.0, 2.2, 2.5, 2.8, 3.0]
RELAXED = [0.8, 1.0, 1.2, 1.4, 1.6, 1.8, 2.0, 2.5, 3.0, 3.5, 4.0, 5.0, 6.0, 7.0, 8.0, 9.0, 10.0, 12.0, 15.0]


def model_de(pairs):
    """CIEDE2000 by the Lean model (validated against the code by C11)"""
    out = run_lines(["de %d %d %d %d %d %d" % (tuple(a) + tuple(b)) for a, b in pairs])
    return [bitsf(x) for x in out]


def valid(c):
    return len(c) == 3 and all(isinstance(x, int) and 0 <= x <= 255 for x in c)


def rand_schedule(rng):
    k = rng.random()
    if k < 0.1:
        return []
    if k < 0.18:
        return [round(rng.uniform(0.2, 20), 2)]
    if k < 0.25:
        return rng.choice([[0.0], [0.0, 0.5], [0.0, 0.0], [1e-9]])
    if k < 0.45:
        return rng.choice([DEFAULT, STEP, RELAXED])
    n = rng.randint(2, 8)
    s = [round(rng.uniform(0.3, 12), 2) for _ in range(n)]
    if rng.random() < 0.4:
        s.sort()
    if rng.random() < 0.2:
        s.append(s[0])
    return s


def check(run):
    run.proof = proof_status("C04", regenerate=regen_leaves)
    from translate import leaves as _leaves
    run.extra["source_translation"] = _leaves.summary()
    from translate import optimiser as _opt
    run.extra["source_translation_optimiser"] = _opt.summary()
    q = run.quick()
    n0 = 400 if q else 8000      # mode 0 pairs
    nr = 450 if q else 8000      # direct routine calls
    ns = 200 if q else 4000      # mode 1/2 runs with the multi-phase search observed
    run.rule = ("mode 0: pair mix as C01 x large x very_readable, through check_and_fix_contrast and through the public API in every spelling "
                "(distance measured by the model's CIEDE2000 from the independently established original to what the caller reads back); routines: binary_search_lightness / "
                "gradient_descent_oklch / generate_accessible_color called directly with arbitrary tolerance or schedule "
                "(empty, single, unsorted, repeated, library schedules) and target; mode 1/2 runs with every call of the "
                "multi-phase search recorded. non-trivial = the routine/strategy returned a colour different from its input")
    with pool() as p:
        # ---- mode 0 through check_and_fix_contrast
        pairs, _ = gen_pairs(run.rng, n0)
        import colorsys
        for _ in range(n0 // 3):
            # saturated cyan/green text at the gamut edge on arbitrary backgrounds (the descent phase moves there)
            t = tuple(int(round(255 * x)) for x in colorsys.hsv_to_rgb(run.rng.uniform(0.25, 0.6), run.rng.uniform(0.85, 1.0), run.rng.uniform(0.85, 1.0)))
            pairs.append((t, rand_rgb(run.rng)))
        cases = [(t, b, run.rng.randrange(2), 0, run.rng.randrange(2)) for t, b in pairs]
        impl = correspond_caf(run, cases, p, tag="mode0")
        okc = [(c, r) for c, r in zip(cases, impl) if r[0] != "raise"]
        des = model_de([(c[0], r[0]) for c, r in okc])
        for (c, r), d in zip(okc, des):
            run.count(("m0",) + (tuple(c[0]), tuple(c[1])) + tuple(c[2:]), tuple(r[0]) != tuple(c[0]))
            run.hit("mode0.%s" % ("changed" if tuple(r[0]) != tuple(c[0]) else "unchanged"))
            if not valid(r[0]) or not (d <= 5.0):
                run.violation("mode 0 returned a colour further than CIEDE2000 5.0 from the original (or not a valid colour)",
                              list(c), returned=list(r[0]), dE=d)
        for c, r in zip(cases, impl):
            if r[0] == "raise":
                run.violation("check_and_fix_contrast raised on a valid pair", list(c), got=r[1])
        run.sample({"mode0": list(cases[0]), "impl": list(impl[0]), "dE": des[0] if des else None})
        # ---- mode 0 through the public API: what the caller receives (re-formatted, read back) against the original as an
        #      independent reader establishes it (the generator's colour, composited exactly when translucent)
        from opt_common import w_api
        from spellings import OPAQUE_KINDS, TRANSLUCENT_KINDS, alpha_of, composite, spell
        apairs, _ = gen_pairs(run.rng, 300 if q else 6000)
        acases, atruth = [], []
        for (t, b) in apairs:
            ts, tk = spell(run.rng, t, run.rng.choice(OPAQUE_KINDS + TRANSLUCENT_KINDS))
            bs, _ = spell(run.rng, b, run.rng.choice(OPAQUE_KINDS))
            acases.append((ts, bs, run.rng.randrange(2), 0, run.rng.randrange(2)))
            atruth.append((composite(t, alpha_of(ts, tk), b), tuple(b)))
        ares = p.map(w_api, acases, chunksize=4)
        back = []
        for r in ares:
            out = r.get("out")
            back.append(tuple(out) if isinstance(out, (tuple, list)) else r.get("rb_css"))
        idx = []
        for i, (r, bk) in enumerate(zip(ares, back)):
            if "raise" in r or "invalid" in r or bk is None or not valid(bk):
                continue
            # the colour the library takes as the original must be the independently established one (translucent text: to
            # within the 1.5 units per channel C07/C13 allow the blend); the distance is then measured from it
            if tuple(r["b"]) != atruth[i][1] or max(abs(x - y) for x, y in zip(r["t"], atruth[i][0])) > 1.5:
                run.violation("the colour the pair takes as its original text colour is not the text composited over the pair's own background",
                              list(acases[i]), got=list(r["t"]), expected=list(atruth[i][0]), background=list(atruth[i][1]))
                continue
            idx.append(i)
        ades = model_de([(ares[i]["t"], back[i]) for i in idx])
        for i, d in zip(idx, ades):
            run.count(("api0", json.dumps(acases[i], default=list)), tuple(back[i]) != tuple(ares[i]["t"]))
            run.hit("api_mode0")
            if not (d <= 5.0):
                run.violation("make_readable(mode=0) hands back a colour further than CIEDE2000 5.0 from the original text colour",
                              list(acases[i]), returned=ares[i].get("out"), reads_as=list(back[i]), original=list(ares[i]["t"]), dE=d)
        for r, c in zip(ares, acases):
            if "raise" in r:
                run.violation("make_readable raised on a parseable pair", list(c), got=r["raise"])
        # ---- the three routines, arbitrary arguments
        rc = []
        for _ in range(nr):
            t, b = rand_rgb(run.rng), rand_rgb(run.rng)
            if run.rng.random() < 0.5:
                (t, b), = gen_pairs(run.rng, 1)[0]
            k = run.rng.random()
            target = run.rng.choice([3.0, 4.5, 7.0, round(run.rng.uniform(1.0, 21.0), 2)])
            tol = round(run.rng.uniform(0.1, 25), 2) if run.rng.random() < 0.9 else run.rng.choice([0.0, 0.0, 0.01, 1e-9])
            if run.rng.random() < 0.25:
                # saturated text at the gamut edge: where the lightness-and-chroma descent actually moves
                import colorsys
                t = tuple(int(round(255 * x)) for x in colorsys.hsv_to_rgb(run.rng.uniform(0.25, 0.6), run.rng.uniform(0.85, 1.0), run.rng.uniform(0.85, 1.0)))
            if k < 0.35:
                rc.append(("bs", t, b, tol, target))
            elif k < 0.6:
                rc.append(("gd", t, b, tol, target))
            else:
                minc = run.rng.choice([3.0, 4.5, 7.0, target])
                rc.append(("gen", t, b, target, minc, rand_schedule(run.rng)))
        ri = p.map(w_routine, rc, chunksize=4)
        lines = []
        for c in rc:
            if c[0] in ("bs", "gd"):
                lines.append("%s %d %d %d %d %d %d %s %s" % ((c[0],) + tuple(c[1]) + tuple(c[2]) + (fbits(c[3]), fbits(c[4]))))
            else:
                lines.append("gen %d %d %d %d %d %d %s %s %s" % (tuple(c[1]) + tuple(c[2]) + (fbits(c[3]), fbits(c[4]), " ".join(fbits(x) for x in c[5]))))
        rm = run_lines(lines, chunks=16)
        depairs, deidx = [], []
        for i, (c, r, m) in enumerate(zip(rc, ri, rm)):
            rs = "none" if r is None else ("raise " + r[1] if r and r[0] == "raise" else t3(r, "", " "))
            if rs != m.strip():
                run.diverge({"bs": "binary_search_lightness==Cm.binarySearch", "gd": "gradient_descent_oklch==Cm.gradientDescent",
                             "gen": "generate_accessible_color==Cm.genAccessible"}[c[0]], list(c), rs, m)
            run.hit("routine.%s.%s" % (c[0], "none" if r is None else "same" if tuple(r) == tuple(c[1]) else "colour"))
            if c[0] == "gen":
                run.hit("schedule.%s" % ("empty" if not c[5] else "single" if len(c[5]) == 1 else "library" if c[5] in (DEFAULT, STEP, RELAXED) else "sorted" if c[5] == sorted(c[5]) else "unsorted"))
            run.count(("routine", json.dumps(c, default=list)), r is not None and tuple(r) != tuple(c[1]))
            if r is None:
                if c[0] == "gen":
                    run.violation("generate_accessible_color returned nothing", list(c))
                continue
            if r[0] == "raise":
                run.violation("search routine raised", list(c), got=r[1])
                continue
            if not valid(r):
                run.violation("search routine returned an invalid colour", list(c), returned=list(r))
                continue
            depairs.append((c[1], r)); deidx.append(i)
        for i, d in zip(deidx, model_de(depairs)):
            c, r = rc[i], ri[i]
            if c[0] == "gen":
                bound = max(c[5]) if c[5] else None
                if tuple(r) == tuple(c[1]):
                    continue
                if bound is None or not (d <= bound):
                    run.violation("generate_accessible_color returned a colour beyond the largest tolerance of its schedule",
                                  list(c), returned=list(r), dE=d, largest=bound)
            else:
                if not (d <= c[3]):
                    run.violation("%s returned a colour beyond its tolerance" % ("binary_search_lightness" if c[0] == "bs" else "gradient_descent_oklch"),
                                  list(c), returned=list(r), dE=d, tolerance=c[3])
        run.sample({"routine": list(rc[0]), "impl": ri[0], "model": rm[0]})
        # ---- steps observed inside mode 1 / mode 2 runs
        pairs, _ = gen_pairs(run.rng, ns)
        sc = [(t, b, run.rng.randrange(2), run.rng.choice([1, 2]), run.rng.randrange(2)) for t, b in pairs]
        sr = p.map(w_steps, sc, chunksize=2)
        depairs, meta = [], []
        skipped = 0
        for c, r in zip(sc, sr):
            if r[0] == "nowrap":
                skipped += 1
                continue
            if r[0] == "raise":
                run.violation("check_and_fix_contrast raised on a valid pair", list(c), got=r[1])
                continue
            res, ok, steps = r
            run.count(("steps",) + (tuple(c[0]), tuple(c[1])) + tuple(c[2:]), len(steps) > 0)
            run.hit("steps.n=%s" % (len(steps) if len(steps) < 4 else "4+"))
            reach = {tuple(c[0])}
            for (inp, sched, out) in steps:
                if sched is None:
                    sched = DEFAULT
                if sched not in (STEP, RELAXED, DEFAULT):
                    run.violation("a mode %d run used a tolerance schedule other than the documented ones" % c[3], list(c), schedule=sched)
                if tuple(inp) not in reach:
                    run.violation("a search step inside a mode %d run did not start from the original colour or a previous step's result" % c[3],
                                  list(c), step_input=list(inp))
                reach.add(tuple(out))
                if not valid(out):
                    run.violation("a search step returned an invalid colour", list(c), step=[list(inp), sched, list(out)])
                elif tuple(out) != tuple(inp):
                    depairs.append((inp, out)); meta.append((c, inp, sched, out))
            if tuple(res) not in reach:
                run.violation("the result of a mode %d run is not the end of a chain of bounded steps from the original colour" % c[3],
                              list(c), returned=list(res))
        for (c, inp, sched, out), d in zip(meta, model_de(depairs)):
            if not sched or not (d <= max(sched)):
                run.violation("a search step inside a mode %d run moved further than the largest tolerance of its schedule" % c[3],
                              list(c), step=[list(inp), sched, list(out)], dE=d)
        if skipped:
            run.notes.append("generate_accessible_color is no longer a module attribute: step observation skipped for %d runs; "
                             "whole-pipeline comparison and API-level clauses stand alone" % skipped)
        run.extra["step_observation_skipped"] = skipped
        if sr and sr[0][0] not in ("nowrap", "raise"):
            run.sample({"mode_run": list(sc[0]), "result": list(sr[0][0]), "steps": [[list(a), s, list(o)] for a, s, o in sr[0][2]][:3]})
    run.assumptions = ["CIEDE2000 distances judged by the Lean model's transcription of the CIE formula (validated against the code and the published pairs by C11)"]


def replay(run, path):
    from opt_common import _init_worker, w_caf
    import sys
    d = json.load(open(path))
    v = d.get("first")
    if not v:
        print("nothing to replay:", d.get("no_longer_checks"))
        return 1
    _init_worker()
    c = v["case"]
    if c and c[0] in ("bs", "gd", "gen"):
        r = w_routine(tuple(c))
        src = c[1]
    else:
        r0 = w_caf((tuple(c[0]), tuple(c[1]), c[2], c[3], c[4]))
        r, src = r0[0], c[0]
    sys.stdout = sys.__stdout__
    de = model_de([(src, r)])[0] if r and r[0] != "raise" else None
    print("case", c, "->", r, "dE(model)", de)
    return 1
