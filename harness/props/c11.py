"""C11 — CIE Lab and CIEDE2000 agree with the CIE definitions."""
import json
import math

import color_ref
import num_workers as nw
from common import proof_status, repo_import
from opt_common import rand_rgb
from proto import bitsf, fbits, run_lines

MATCHERS = {}


def regen_leaves():
    """CmGen/Leaves.lean: the numeric functions and constants of the source as they read now (the `source_*`
    theorems of CmProps/C11tie.lean identify them with the model)"""
    from translate import leaves
    leaves.generate()


def gen_pairs(rng, n):
    out = []
    for _ in range(n):
        k = rng.random()
        a = rand_rgb(rng)
        if k < 0.35:
            b = rand_rgb(rng)
        elif k < 0.6:      # unit-step neighbours
            b = tuple(max(0, min(255, x + rng.choice([-1, 0, 1]))) for x in a)
        elif k < 0.75:     # near neutral
            g = rng.randrange(256)
            a = tuple(max(0, min(255, g + rng.randint(-3, 3))) for _ in range(3))
            b = tuple(max(0, min(255, g + rng.randint(-3, 3))) for _ in range(3))
        elif k < 0.9:      # hue wrap: reds/magentas straddling h' = 0/360
            a = (rng.randrange(150, 256), rng.randrange(0, 60), rng.randrange(0, 90))
            b = (a[0], a[1], max(0, min(255, a[2] + rng.randint(-40, 40))))
        else:
            b = a
        out.append((a, b))
    return out


def check(run):
    run.proof = proof_status("C11", regenerate=regen_leaves)
    from translate import leaves as _leaves
    run.extra["source_translation"] = _leaves.summary()
    q = run.quick()
    repo_import()
    from cm_colors.core import conversions as cv, color_metrics as cmx
    run.rule = ("Lab on %s; CIEDE2000 on %d pairs: random, unit-step neighbours, near-neutral, hue-wrap straddling, "
                "identical; the 34 published Lab pairs fed through the implementation (rgb_to_lab replaced) in both orders; "
                "every case compared with the model and with an independent transcription of the CIE formulas (tolerance 0.05)"
                % ("100k random colours + lattice" if q else "all 16,777,216 colours (exhaustive)", 120000 if q else 3000000))
    with nw.pool() as p:
        if q:
            cols = [rand_rgb(run.rng) for _ in range(100000)] + [(r, g, b) for r in range(0, 256, 17) for g in range(0, 256, 17) for b in range(0, 256, 17)]
            slabs = [("list", cols[i:i + 5000]) for i in range(0, len(cols), 5000)]
            nd = len(set(cols))
        else:
            slabs = [("r", r) for r in range(256)]
            nd = 1 << 24
            run.exhaustive = True
        tot, bads, viols = nw.merge(run, "rgb_to_xyz/xyz_to_lab/rgb_to_lab==Cm.rgbToXyz/xyzToLab/rgbToLab", p.map(nw.w_lab, slabs), distinct=nd)
        for b in bads:
            run.diverge("rgb_to_lab==Cm.rgbToLab", list(b[0]), b[1], b[2])
        for v in viols:
            run.violation("Lab conversion: " + v[0], list(v[1]), got=v[2:])
        pairs = gen_pairs(run.rng, 120000 if q else 3000000)
        chunks = [pairs[i:i + 10000] for i in range(0, len(pairs), 10000)]
        stats = p.map(nw.w_de, chunks)
        tot, bads, viols = nw.merge(run, "calculate_delta_e_2000==Cm.deltaE2000", stats, distinct=len(set(pairs)))
        for b in bads:
            run.diverge("calculate_delta_e_2000==Cm.deltaE2000", [list(b[0]), list(b[1])], b[2], b[3])
        for v in viols:
            run.violation("CIEDE2000: " + v[0], [list(v[1]), list(v[2])], got=v[3:])
        vals = [x for st in stats for x in st["vals"]]
    # independent references (tolerance 0.05)
    worst_lab = worst_de = 0.0
    for c in [rand_rgb(run.rng) for _ in range(20000 if q else 200000)] + [(0, 0, 0), (255, 255, 255), (255, 0, 0), (1, 1, 1), (2, 0, 0)]:
        l, r = cv.rgb_to_lab(c), color_ref.lab(c)
        e = max(abs(x - y) for x, y in zip(l, r))
        worst_lab = max(worst_lab, e)
        run.count(("labref", c))
        if e > 0.05:
            run.violation("CIE L*a*b* differs from the CIE definition by more than 0.05", list(c), got=l, expected=r)
    for (a, b), v in list(zip(pairs, vals))[:30000 if q else 300000]:
        if v is None:
            continue
        r = color_ref.ciede2000(color_ref.lab(a), color_ref.lab(b)) if tuple(a) != tuple(b) else 0.0
        worst_de = max(worst_de, abs(v - r))
        run.count(("deref", a, b))
        if abs(v - r) > 0.05:
            run.violation("CIEDE2000 differs from the independent implementation of the CIE formula by more than 0.05", [list(a), list(b)], got=v, expected=r)
    run.extra["lab_max_abs_error_vs_reference"] = worst_lab
    run.extra["dE_max_abs_error_vs_reference"] = worst_de
    # the 34 published pairs: model (independent of /repo) and implementation (rgb_to_lab replaced)
    sp = color_ref.sharma_pairs()
    mo = run_lines(["delab " + " ".join(fbits(x) for x in a + b) for a, b, _ in sp] + ["delab " + " ".join(fbits(x) for x in b + a) for a, b, _ in sp])
    for i, (a, b, d) in enumerate(sp):
        for o in (mo[i], mo[i + len(sp)]):
            if abs(bitsf(o) - d) > 1e-4:
                run.broken.append("model validation: Cm.deltaE2000Lab gives %r for published pair %d (expected %s)" % (bitsf(o), i + 1, d))
    if hasattr(cmx, "rgb_to_lab"):
        orig = cmx.rgb_to_lab
        table = {}
        try:
            cmx.rgb_to_lab = lambda key: table[key]
            for i, (a, b, d) in enumerate(sp):
                table[("p", i, 0)] = a; table[("p", i, 1)] = b
                for x, y in ((("p", i, 0), ("p", i, 1)), (("p", i, 1), ("p", i, 0))):
                    run.count(("sharma", i, x[2]))
                    try:
                        got = cmx.calculate_delta_e_2000(x, y)
                    except Exception as e:  # noqa
                        run.violation("calculate_delta_e_2000 raised on a published test pair", {"pair": i + 1, "lab": [a, b]}, got=repr(e)); continue
                    if abs(got - d) > 1e-4:
                        run.violation("CIEDE2000 disagrees with the published Sharma-Wu-Dalal value", {"pair": i + 1, "lab": [a, b]}, got=got, expected=d)
        finally:
            cmx.rgb_to_lab = orig
        run.hit("sharma.through_impl", 68)
    else:
        run.notes.append("color_metrics no longer looks up rgb_to_lab as a module attribute: published-pair sub-check skipped")
    run.sample({"rgb_to_lab": [200, 30, 90], "impl": cv.rgb_to_lab((200, 30, 90)), "reference": color_ref.lab((200, 30, 90))})
    run.sample({"dE2000": [list(pairs[0][0]), list(pairs[0][1])], "impl": vals[0]})
    run.assumptions = ["independent reference: harness/color_ref.py (CIE 15 constants (6/29)^3 and (29/6)^2/3, Sharma-Wu-Dalal formulation, 34 published pairs)",
                       "agreement to 0.05 is a numeric fact decided by these sweeps; symmetry/non-negativity/zero-on-equal are additionally theorems over the reals"]


def replay(run, path):
    d = json.load(open(path))
    print(json.dumps(d.get("first") or d.get("no_longer_checks"), default=repr)[:2000])
    return 1
