"""C17 — no output or files unless asked; previews and reports never change the result."""
import json
import os
import shutil
import tempfile

from common import proof_status, repo_import
from opt_common import gen_pairs
from spellings import OPAQUE_KINDS, TRANSLUCENT_KINDS, spell

MATCHERS = {}
DOCUMENTED = {"quick": "cm_colors_quick_report.html", "bulk": "cm_colors_bulk_report.html"}


class Capture:
    """fd-level capture of stdout/stderr plus working-directory listing"""

    def __enter__(self):
        import sys
        sys.stdout.flush(); sys.stderr.flush()
        self.files = [tempfile.TemporaryFile(), tempfile.TemporaryFile()]
        self.saved = [os.dup(1), os.dup(2)]
        os.dup2(self.files[0].fileno(), 1); os.dup2(self.files[1].fileno(), 2)
        self.before = {f: os.stat(f).st_mtime_ns for f in os.listdir(".")}
        return self

    def __exit__(self, *a):
        import sys
        sys.stdout.flush(); sys.stderr.flush()
        os.dup2(self.saved[0], 1); os.dup2(self.saved[1], 2)
        os.close(self.saved[0]); os.close(self.saved[1])
        self.out = []
        for f in self.files:
            f.seek(0); self.out.append(f.read()); f.close()
        after = {f: os.stat(f).st_mtime_ns for f in os.listdir(".")}
        self.new = sorted(f for f in after if f not in self.before or after[f] != self.before[f])


def w_effects(job):
    """runs in a worker process, inside a private scratch directory"""
    import sys
    text, bg, large, mode, very = job
    d = tempfile.mkdtemp(prefix="cmv_c17_")
    cwd = os.getcwd()
    os.chdir(d)
    res = {"job": job}
    try:
        sys.stdout = sys.__stdout__
        from cm_colors import ColorPair, make_readable_bulk
        with Capture() as c0:
            try:
                p = ColorPair(text, bg, large)
                v = p.is_valid; r = p.is_readable; e = p.errors
                plain = p.make_readable(mode=mode, very_readable=very)
                bulk_plain = make_readable_bulk([(text, bg, large), ("#777", "#fff")], mode=mode, very_readable=very)
            except Exception as ex:  # noqa
                res["raise_plain"] = type(ex).__name__ + ": " + str(ex)[:150]
                return res
        res["plain"] = plain
        res["silent"] = (len(c0.out[0]), len(c0.out[1]), c0.new)
        res["valid"] = v
        for name, kw in (("show", dict(show=True)), ("save", dict(save_report=True)), ("both", dict(show=True, save_report=True))):
            with Capture() as c:
                try:
                    got = ColorPair(text, bg, large).make_readable(mode=mode, very_readable=very, **kw)
                    err = None
                except Exception as ex:  # noqa
                    got, err = None, type(ex).__name__ + ": " + str(ex)[:150]
            res[name] = (got, err, len(c.out[0]), len(c.out[1]), c.new)
            for f in c.new:
                os.remove(f)
        # the same report requested twice in a row in one directory: still only the documented file
        with Capture() as c2:
            try:
                ColorPair(text, bg, large).make_readable(mode=mode, very_readable=very, save_report=True)
                ColorPair(text, bg, large).make_readable(mode=mode, very_readable=very, save_report=True)
                make_readable_bulk([(text, bg, large), ("#777", "#fff")], mode=mode, very_readable=very, save_report=True)
                make_readable_bulk([(text, bg, large), ("#777", "#fff")], mode=mode, very_readable=very, save_report=True)
                err2 = None
            except Exception as ex:  # noqa
                err2 = type(ex).__name__ + ": " + str(ex)[:150]
        res["twice"] = (err2, sorted(os.listdir(".")))
        for f in os.listdir("."):
            os.remove(f)
        with Capture() as c:
            try:
                got = make_readable_bulk([(text, bg, large), ("#777", "#fff")], mode=mode, very_readable=very, save_report=True)
                err = None
            except Exception as ex:  # noqa
                got, err = None, type(ex).__name__ + ": " + str(ex)[:150]
        res["bulk_save"] = (got == bulk_plain, err, c.new)
        return res
    finally:
        os.chdir(cwd)
        shutil.rmtree(d, ignore_errors=True)


def w_long(job):
    """a long plain bulk batch (what a palette or a stylesheet's worth of pairs looks like) in a private directory"""
    import sys
    pairs, mode, very = job
    d = tempfile.mkdtemp(prefix="cmv_c17_")
    cwd = os.getcwd()
    os.chdir(d)
    try:
        sys.stdout = sys.__stdout__
        from cm_colors import make_readable_bulk
        with Capture() as c:
            try:
                out = make_readable_bulk(pairs, mode=mode, very_readable=very)
                err = None
            except Exception as ex:  # noqa
                out, err = None, type(ex).__name__ + ": " + str(ex)[:150]
        return {"n": len(pairs), "err": err, "results": None if out is None else len(out), "stdout": c.out[0][:80], "stderr": c.out[1][:80], "files": c.new}
    finally:
        os.chdir(cwd)
        shutil.rmtree(d, ignore_errors=True)


def regen_api():
    """CmGen/Api.lean: Color / ColorPair / make_readable / make_readable_bulk as they read now (the `source_*` theorems of
    CmProps/C17api.lean identify them with the model)"""
    from translate import api, effectsig
    api.generate()
    from translate import hexsrc
    hexsrc.generate()           # CmGen/HexSrc.lean: Color.to_hex, which feeds the console preview (CmProps/C17hex.lean)
    from translate import defaults
    defaults.generate()         # CmGen/Defaults.lean: default values of the public entry points' parameters (CmProps/C17defaults.lean)
    effectsig.generate()        # CmGen/EffectSig.lean: every output / file-system call of the core modules (CmProps/C17sig.lean)


def check(run):
    run.proof = proof_status("C17", regenerate=regen_api)
    from translate import api as _api
    run.extra["source_translation_api"] = _api.summary()
    from translate import effectsig as _es
    run.extra["source_translation_effect_sites"] = _es.summary()
    q = run.quick()
    repo_import()
    from opt_common import pool
    n = 220 if q else 5000
    run.rule = ("pairs (mix as C01) in every input spelling incl. translucent and hsl forms x mode x large x very_readable; "
                "each is run plain (construct, is_valid, is_readable, errors, make_readable, bulk) and with show, save_report "
                "and both, inside a private directory with stdout/stderr captured at file-descriptor level. distinct = distinct "
                "(pair spelling, settings); non-trivial = the fix changed the colour or failed (the preview has something to show)")
    pairs, _ = gen_pairs(run.rng, n)
    jobs = []
    for (t, b) in pairs:
        ts, tk = spell(run.rng, t, run.rng.choice(OPAQUE_KINDS + TRANSLUCENT_KINDS + ["hsl", "hsl"]))
        bs, _ = spell(run.rng, b, run.rng.choice(OPAQUE_KINDS))
        jobs.append((ts, bs, bool(run.rng.randrange(2)), run.rng.choice([0, 1, 2]), bool(run.rng.randrange(2))))
        run.hit("spelling." + tk)
    jobs += [("hsl(240, 100%, 10%)", "#fff", False, 1, False), ("notacolor", "#fff", False, 1, False), ((0, 0, 51), (0, 0, 60), False, 0, True)]
    with pool() as p:
        res = p.map(w_effects, jobs, chunksize=1)
    from proto import run_lines
    pred = {}
    for valid in (0, 1):
        for sh in (0, 1):
            for sv in (0, 1):
                o = run_lines(["effects %d %d %d" % (valid, sh, sv)])[0].split()
                pred[(valid, sh, sv)] = (any(x == "stdout" for x in o), sorted(x[6:] for x in o if x.startswith("write:")))
    for r in res:
        job = r["job"]
        case = {"text": repr(job[0]), "bg": repr(job[1]), "large": job[2], "mode": job[3], "very_readable": job[4]}
        if "raise_plain" in r:
            run.violation("the plain API raised", case, got=r["raise_plain"]); continue
        plain = r["plain"]
        changed = plain[0] is not None and not (plain[1] and str(plain[0]).lower() == str(job[0]).lower())
        run.count(json.dumps(case), changed)
        run.hit("outcome.%s" % ("invalid" if plain[0] is None else "ok" if plain[1] else "failed"))
        so, se, new = r["silent"]
        if so or se or new:
            run.violation("the API wrote to stdout/stderr or created files without show/save_report", case, stdout_bytes=so, stderr_bytes=se, files=new)
        for name in ("show", "save", "both"):
            got, err, o, e, new = r[name]
            if err:
                run.violation("make_readable(%s) raised" % name, case, got=err); continue
            if got != plain:
                run.violation("the result with %s differs from the plain call's" % name, case, got=repr(got), plain=repr(plain))
            allowed = [DOCUMENTED["quick"]] if name in ("save", "both") and r["valid"] else []
            if any(f not in allowed for f in new):
                run.violation("make_readable(%s) wrote a file other than the documented report" % name, case, files=new)
            if name in ("save", "both") and r["valid"] and DOCUMENTED["quick"] not in new:
                run.violation("save_report did not produce the documented report", case, files=new)
            if e:
                run.violation("make_readable(%s) wrote to stderr" % name, case, stderr_bytes=e)
            # the effects model's prediction (kinds of effect, not their text)
            want = pred[(1 if r["valid"] else 0, 1 if name in ("show", "both") else 0, 1 if name in ("save", "both") else 0)]
            if (o > 0, sorted(new)) != want:
                run.diverge("observed effects==Cm.mrEffects", case, [name, o > 0, sorted(new)], list(want))
        err2, listing = r["twice"]
        if err2:
            run.violation("save_report raised when repeated in the same directory", case, got=err2)
        elif any(f not in DOCUMENTED.values() for f in listing):
            run.violation("repeating save_report in one directory leaves a file other than the documented reports", case, files=listing)
        same, err, new = r["bulk_save"]
        if err:
            run.violation("make_readable_bulk(save_report=True) raised", case, got=err)
        elif not same:
            run.violation("bulk results with save_report differ from the plain call's", case)
        if any(f != DOCUMENTED["bulk"] for f in new):
            run.violation("make_readable_bulk(save_report=True) wrote a file other than the documented report", case, files=new)
    # long plain batches: silence must not depend on the size of the list
    from opt_common import pool as _pool
    longs = []
    for n in ((50, 64, 130) if run.quick() else (50, 51, 64, 100, 130, 257, 400)):
        items = []
        for k in range(n):
            g = run.rng.choice([0, 17, 34, 51, 68, 85, 102, 119, 136])       # mostly readable on white: cheap, a few need fixing
            items.append(("#%02x%02x%02x" % (g, g, g), "#ffffff") if k % 3 else ((g, g, g), "white", bool(k % 2)))
        longs.append((items, run.rng.choice([0, 1, 2]), bool(run.rng.randrange(2))))
    with _pool() as pl:
        lres = pl.map(w_long, longs, chunksize=1)
    for (items, mode, very), r in zip(longs, lres):
        case = {"flow": "make_readable_bulk(pairs) - plain call", "entries": r["n"], "first_entries": repr(items[:3]), "mode": mode, "very_readable": very}
        run.count(("long", r["n"], mode, very))
        run.hit("long_batch")
        if r["err"]:
            run.violation("a long bulk batch raised", case, got=r["err"])
        elif r["stdout"] or r["stderr"] or r["files"] or r["results"] != r["n"]:
            run.violation("a long plain bulk batch wrote to stdout/stderr, created files or lost entries", case,
                          stdout=repr(r["stdout"]), stderr=repr(r["stderr"]), files=r["files"], results=r["results"])
    run.sample({"job": repr(res[0]["job"]), "plain": repr(res[0].get("plain")), "silent(stdout,stderr,files)": res[0].get("silent"),
                "show": repr(res[0].get("show"))})
    run.assumptions = ["rich's rendering of '#rrggbb' colours (the preview's only inputs, by theorem preview_args_hex) is trusted; it is exercised on every case",
                       "effects are observed at file-descriptor level and by directory listing; the model predicts their kinds, not their text"]


def replay(run, path):
    d = json.load(open(path))
    v = d.get("first")
    print(json.dumps(v or d.get("no_longer_checks"), default=repr)[:1500])
    if not v:
        return 1
    repo_import()
    c = v["case"]
    r = w_effects((eval(c["text"]), eval(c["bg"]), c["large"], c["mode"], c["very_readable"]))
    print("now:", {k: repr(x)[:200] for k, x in r.items()})
    return 1
