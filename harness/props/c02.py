"""C02 — fixing never harms: readable colours are kept, contrast never drops."""
import json

import wcag_ref
from common import proof_status
from opt_common import gen_caf_cases, gen_pairs, correspond_caf, isoluminant_pair, order_disagree_pair, pool, thresholds, w_api
from spellings import OPAQUE_KINDS, TRANSLUCENT_KINDS, alpha_of, composite, spell

MATCHERS = {}


def regen_optimiser():
    """CmGen/Optimiser.lean: the control logic of optimisation.py as it reads now (the `source_*` theorems of
    CmProps/C02opt.lean identify it with the model)"""
    from translate import optimiser, api
    optimiser.generate()
    api.generate()              # CmGen/Api.lean: make_readable as it reads now (CmProps/C02cap.lean states the property about that image)


def judge(run, where, case, t, b, large, very, returned, ok, shown=None):
    mn, _ = thresholds(large, very)
    if wcag_ref.meets(t, b, mn):
        run.hit(where + ".already_ok")
        if not ok or tuple(returned) != tuple(t):
            run.violation("a pair that already meets the minimum was changed or reported as failed (%s)" % where,
                          case, text=list(t), bg=list(b), returned=shown or list(returned), flag=ok, minimum=mn)
    else:
        r0, r1 = wcag_ref.ratio(t, b), wcag_ref.ratio(returned, b)
        run.hit(where + (".improved" if r1 > r0 else ".kept"))
        if r1 < r0:
            run.violation("the returned colour has lower contrast than the original (%s)" % where,
                          case, text=list(t), bg=list(b), returned=shown or list(returned), flag=ok,
                          ratio_before=str(r0)[:12], ratio_after=str(r1)[:12])


def check(run):
    run.proof = proof_status("C02", regenerate=regen_optimiser)
    from translate import optimiser as _opt
    run.extra["source_translation_optimiser"] = _opt.summary()
    q = run.quick()
    n_caf = 500 if q else 12000
    n_api = 600 if q else 15000
    run.rule = ("same pair mix as C01 (incl. pairs a blend step above/below each threshold and text == bg) x settings x "
                "spellings; non-trivial = the pair does not already meet the minimum")
    with pool() as p:
        cases, kinds = gen_caf_cases(run.rng, n_caf)
        # unfixable pairs of similar luminance and different hue, strict mode: the search first moves
        # *towards* the background's luminance when OKLCH lightness and WCAG luminance disagree
        for i in range(300 if q else 6000):
            t, b = isoluminant_pair(run.rng) if i % 3 else order_disagree_pair(run.rng)
            cases.append((t, b, run.rng.randrange(2), run.rng.choice([0, 0, 0, 1, 2]), run.rng.randrange(2)))
            kinds.append("isolum")
        impl = correspond_caf(run, cases, p)
        for c, res in zip(cases, impl):
            t, b, large, mode, very = c
            if res[0] == "raise":
                run.violation("check_and_fix_contrast raised on a valid pair", list(c), got=res[1])
                continue
            judge(run, "check_and_fix_contrast", list(c), t, b, large, very, res[0], res[1])
            run.count(("caf",) + (tuple(t), tuple(b)) + tuple(c[2:]), not wcag_ref.meets(t, b, thresholds(large, very)[0]))
            if tuple(t) == tuple(b):
                run.hit("text_equals_bg")
        run.sample({"check_and_fix_contrast": list(cases[0]), "impl": list(impl[0])})
        pairs, _ = gen_pairs(run.rng, n_api)
        api_cases, api_truth = [], []
        for (t, b) in pairs:
            ts, tk = spell(run.rng, t, run.rng.choice(OPAQUE_KINDS + TRANSLUCENT_KINDS))
            bs, bk = spell(run.rng, b, run.rng.choice(OPAQUE_KINDS))
            api_cases.append((ts, bs, run.rng.randrange(2), run.rng.choice([0, 1, 1, 2]), run.rng.randrange(2)))
            api_truth.append((tuple(t), tuple(b), alpha_of(ts, tk)))
            run.hit("spelling." + tk)
        res = p.map(w_api, api_cases, chunksize=4)
        for r, (t0, b0, a0) in zip(res, api_truth):
            case = r["case"]
            if "raise" in r:
                run.violation("make_readable raised on a parseable pair", case, got=r["raise"])
                continue
            if "invalid" in r:
                continue
            # the "original text colour (after compositing any transparency)" is established independently of the library
            want_t = composite(t0, a0, b0)
            if tuple(r["b"]) != tuple(b0) or max(abs(x - y) for x, y in zip(r["t"], want_t)) > 1:
                run.violation("the colour the pair takes as its original text colour is not the text composited over the pair's own background",
                              case, got=list(r["t"]), expected=list(want_t), background=list(b0), alpha=a0)
                continue
            out = r["out"]
            rb = out if isinstance(out, tuple) else r.get("rb_css")
            if rb is None:
                run.violation("returned colour is not readable by a CSS consumer", case, returned=out)
                continue
            judge(run, "make_readable", case, r["t"], r["b"], case[2], case[4], rb, r["ok"], shown=out)
            run.count(("api", json.dumps(case, default=list)), not wcag_ref.meets(r["t"], r["b"], thresholds(case[2], case[4])[0]))
        run.sample({"make_readable": api_cases[0], "result": {k: v for k, v in res[0].items() if k != "case"}})
    run.assumptions = ["contrast before/after judged by the 60-digit decimal WCAG reference (harness/wcag_ref.py)"]


def replay(run, path):
    from props.c01 import replay as r
    return r(run, path)
