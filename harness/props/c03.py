"""C03 — a barely perceptible lightness fix, when one exists, is found and stays small."""
import json

from common import proof_status
from opt_common import correspond_caf, near_threshold_pair, pool, rand_rgb, thresholds, w_caf, w_de
from proto import bitsf, fbits, run_lines

MATCHERS = {}


def regen_optimiser():
    """CmGen/Optimiser.lean: the control logic of optimisation.py as it reads now (the `source_*` theorems of
    CmProps/C03opt.lean identify it with the model)"""
    from translate import optimiser
    optimiser.generate()
SCAN = 4096


def gen_cases(rng, n):
    """pairs up to ~25 % below the minimum of their setting; text lighter and darker than light,
    mid and dark backgrounds"""
    from common import repo_import
    repo_import()
    from cm_colors.core.contrast import calculate_contrast_ratio as ratio
    out = []
    while len(out) < n:
        large, very = rng.randrange(2), rng.randrange(2)
        mn, _ = thresholds(large, very)
        if rng.random() < 0.35:
            # vivid text (on or next to the surface of the sRGB gamut: a channel at 0 or 255, any hue) against a background whose
            # grey level is chosen so that the pair sits just below its minimum, on either side of the text
            import colorsys
            h = rng.random() if rng.random() < 0.6 else rng.uniform(0.75, 0.95)        # magenta / purple / pink more often
            t = tuple(int(round(255 * x)) for x in colorsys.hsv_to_rgb(h, rng.choice([1.0, 1.0, rng.uniform(0.7, 1.0)]), rng.choice([1.0, rng.uniform(0.4, 1.0)])))
            want = mn * rng.uniform(0.8, 0.999)
            tint = tuple(rng.randrange(0, 24) for _ in range(3))
            side = rng.choice(["dark", "light"])
            lo_g, hi_g = (0, 255)
            found = None
            for g in (range(0, 256) if side == "dark" else range(255, -1, -1)):
                b = tuple(max(0, min(255, g + d)) for d in tint)
                if ratio(t, b) < want:
                    # the first grey level (from the far end) at which the ratio has dropped below `want`
                    found = b
                    break
            if found is None or ratio(t, found) >= mn or ratio(t, found) < mn * 0.75:
                continue
            out.append((t, found, large, very))
            continue
        bgk = rng.random()
        if bgk < 0.3:
            b = tuple(rng.randrange(0, 70) for _ in range(3))
        elif bgk < 0.6:
            b = tuple(rng.randrange(180, 256) for _ in range(3))
        else:
            b = rand_rgb(rng)
        t0 = rand_rgb(rng)
        r0 = ratio(t0, b)
        want = mn * rng.uniform(0.8, 0.999)
        # blend t0 towards / away from b until the ratio is ~want
        far = rng.choice([(0, 0, 0), (255, 255, 255)])
        if ratio(far, b) < want:
            far = (255, 255, 255) if far == (0, 0, 0) else (0, 0, 0)
            if ratio(far, b) < want:
                continue
        lo, hi = 0.0, 1.0
        src = b if r0 >= want else t0
        # walk from (a colour below want) towards far
        base = tuple(int(round(x + (y - x) * 0.0)) for x, y in zip(src, far))
        if ratio(base, b) >= want:
            base = b
        for _ in range(14):
            mid = (lo + hi) / 2
            tt = tuple(int(round(x + (y - x) * mid)) for x, y in zip(base, far))
            if ratio(tt, b) < want:
                lo = mid
            else:
                hi = mid
        t = tuple(int(round(x + (y - x) * lo)) for x, y in zip(base, far))
        if ratio(t, b) >= mn:
            continue
        out.append((t, b, large, very))
    return out


def check(run):
    run.proof = proof_status("C03", regenerate=regen_optimiser)
    from translate import optimiser as _opt
    run.extra["source_translation_optimiser"] = _opt.summary()
    q = run.quick()
    n = 900 if q else 20000
    run.rule = ("pairs 0-20 %% below the minimum of their (large, very_readable) setting, text lighter/darker than dark, "
                "light and arbitrary backgrounds, about a third of them vivid text (gamut surface, every hue) against greyish backgrounds; a case is non-trivial when the independent scan (model leaves, %d "
                "lightness values on the text's own chroma/hue line) finds a witness within dE 1.5 clearing the minimum "
                "by 0.05; each witnessed case is run in modes 0, 1, 2" % SCAN)
    base = gen_cases(run.rng, n)
    lines = ["witness %d %d %d %d %d %d %s %d" % (tuple(t) + tuple(b) + (fbits(thresholds(l, v)[0]), SCAN)) for t, b, l, v in base]
    wit = run_lines(lines, chunks=16)
    witnessed = [(c, w) for c, w in zip(base, wit) if w != "none"]
    run.extra["generated"] = len(base)
    run.extra["witnessed"] = len(witnessed)
    cases = []
    for (t, b, l, v), w in witnessed:
        for mode in (0, 1, 2):
            cases.append((t, b, l, mode, v))
    with pool() as p:
        impl = correspond_caf(run, cases, p)
        des = p.map(w_de, [(c[0], r[0]) if r[0] != "raise" else (c[0], c[0]) for c, r in zip(cases, impl)], chunksize=64)
    k = 0
    for (t, b, l, v), w in witnessed:
        ws = w.split()
        witness = {"colour": [int(x) for x in ws[:3]], "dE": round(bitsf(ws[3]), 4), "ratio": round(bitsf(ws[4]), 4)}
        side = "lighter" if sum(t) > sum(b) else "darker"
        run.hit("text_%s.bg_%s" % (side, "light" if sum(b) > 540 else "dark" if sum(b) < 210 else "mid"))
        run.hit("setting.%s%s" % ("large" if l else "normal", ".very" if v else ""))
        for mode in (0, 1, 2):
            c, r, d = cases[k], impl[k], des[k]
            k += 1
            run.count((tuple(t), tuple(b), l, v, mode))
            if r[0] == "raise":
                run.violation("check_and_fix_contrast raised", list(c), got=r[1])
            elif not r[1]:
                run.violation("a barely perceptible lightness fix exists but make_readable fails",
                              list(c), witness=witness, returned=list(r[0]), text_vs_bg=side)
            elif d > 2.0:
                run.violation("a barely perceptible lightness fix exists but the returned colour is further than dE 2.0",
                              list(c), witness=witness, returned=list(r[0]), dE=round(d, 4), text_vs_bg=side)
    # the same claim through the public API in spellings whose result is re-formatted (hsl(), rgb(), hex):
    # the colour the caller gets back must itself succeed and stay within dE 2.0
    from opt_common import w_api
    from spellings import spell
    sub = witnessed[: (120 if q else 2500)]
    api_cases, api_meta = [], []
    for (t, b, l, v), w in sub:
        for kind in ("hsl", "rgbfn", "hex6"):
            ts, used = spell(run.rng, t, kind)
            if used != kind:
                continue
            api_cases.append((ts, "#%02x%02x%02x" % tuple(b), bool(l), run.rng.choice([0, 1, 2]), bool(v)))
            api_meta.append((t, b, w))
    if api_cases:
        with pool() as p:
            ares = p.map(w_api, api_cases, chunksize=4)
        import wcag_ref
        good = [(c, m, r) for c, m, r in zip(api_cases, api_meta, ares) if "out" in r and r.get("rb_css") is not None]
        dd = run_lines(["de %d %d %d %d %d %d" % (tuple(m[0]) + tuple(r["rb_css"])) for c, m, r in good], chunks=4)
        for (c, m, r), d in zip(good, dd):
            run.count(("api",) + tuple(map(str, c)))
            run.hit("api.%s" % ("hsl" if str(c[0]).startswith("hsl") else "rgb" if str(c[0]).startswith("rgb") else "hex"))
            mn = thresholds(c[2], c[4])[0]
            if not r["ok"] or not wcag_ref.meets(r["rb_css"], m[1], mn):
                run.violation("a barely perceptible lightness fix exists but the colour make_readable hands back does not succeed",
                              list(c), witness=m[2], returned=r["out"], reads_as=list(r["rb_css"]), flag=r["ok"])
            elif bitsf(d) > 2.0:
                run.violation("a barely perceptible lightness fix exists but the colour make_readable hands back is further than dE 2.0",
                              list(c), witness=m[2], returned=r["out"], reads_as=list(r["rb_css"]), dE=round(bitsf(d), 4))
    if witnessed:
        (t, b, l, v), w = witnessed[0]
        run.sample({"text": list(t), "bg": list(b), "large": l, "very_readable": v, "witness(colour dE ratio)": w,
                    "results(mode0,1,2)": [list(map(str, r)) for r in impl[:3]]})
    run.assumptions = ["witness scan uses the Lean model's OKLCH / CIEDE2000 / WCAG leaves (validated against the code by C05/C10/C11)"]


def replay(run, path):
    from opt_common import _init_worker
    import sys
    d = json.load(open(path))
    v = d.get("first")
    if not v:
        print("nothing to replay:", d.get("no_longer_checks"))
        return 1
    _init_worker()
    c = v["case"]
    case = (tuple(c[0]), tuple(c[1]), c[2], c[3], c[4])
    r = w_caf(case)
    de = w_de((case[0], r[0]))
    sys.stdout = sys.__stdout__
    print("case", case, "witness", v.get("witness"), "-> returned", r, "dE", de)
    bad = (not r[1]) or de > 2.0
    print("REPRODUCED" if bad else "not reproduced")
    return 1 if bad else 0
