"""C18 — CLI batches: per-file isolation, bad files skipped, outputs never re-consumed."""
import json
import multiprocessing as mp

import cli_common
import cli_workers
import gen_css
from common import proof_status, repo_import
from proto import run_lines

MATCHERS = {}
FAULTS = ["non_utf8", "directory", "dangling_link", "unserialisable", "unserialisable_top", "empty"]


def make_tree(rng):
    files = {}
    names = ["a.css", "b.css", "sub/c.css", "sub/deep/d.css", "z/e.css", "sub/f.style.css", ".hidden/g.css", "lib.min.css", "v1.2.bundle.css"]
    rng.shuffle(names)
    good = names[: rng.randrange(2, 5)]
    shared_var = rng.random() < 0.5
    alias_chain = (not shared_var) and rng.random() < 0.6
    same_pair_grey = rng.choice([138, 130, 150, 119, 160])
    for i, nme in enumerate(good):
        css = gen_css.stylesheet(rng)
        if shared_var:
            # custom properties defined in one file and used in another must not leak
            css = (":root { --shared: #777; --sharedbg: #8a8a8a }\n" if i == 0 else
                   ".uses-shared { color: var(--shared); background-color: #fff }\n"
                   ".uses-shared-bg { color: #777777; background-color: var(--sharedbg) }\n"
                   ".uses-shared-fb { color: var(--shared, #767676); background-color: #fff }\n") + css
        if rng.random() < 0.6:
            # the same failing pair in every file, each in another notation: a result must not travel from file to file
            g = same_pair_grey
            spell_ = [("#%02x%02x%02x" % (g, g, g), "#fff"), ("rgb(%d, %d, %d)" % (g, g, g), "white"), ("hsl(0, 0%%, %s%%)" % round(g / 2.55, 4), "#ffffff"),
                      ("rgba(%d, %d, %d, 1)" % (g, g, g), "rgb(255, 255, 255)")][i % 4]
            css += "\n.same-pair-%d { color: %s; background-color: %s }\n" % (i, spell_[0], spell_[1])
        if alias_chain:
            # every file declares the same alias text over its own base value: one base is readable on white, the next is not —
            # what a reference resolved to in one file must not be reused for the same text in another
            base = ["#595959", "#9a9a9a", "#1a1a1a", "#8c8c8c"][i % 4]
            css = (":root { --brand: %s; --text: var(--brand); --soft: var(--missing-%s, var(--brand)) }\n" % (base, "x") +
                   ".alias-text { color: var(--text); background-color: #fff }\n"
                   ".alias-soft { color: var(--soft); background-color: white }\n") + css
        files[nme] = css.encode("utf-8")
    faults = {}
    for kind in rng.sample(FAULTS, rng.randrange(0, 4)):
        nme = rng.choice(["bad.css", "sub/bad2.css", "0first.css", "zz/last.css", "sub/deep/x.css"])
        if nme in files:
            continue
        faults[nme] = kind
        if kind == "non_utf8":
            files[nme] = b".a { color: #777 } /* \xff\xfe\x80 */"
        elif kind == "directory":
            files[nme] = ("dir",)
        elif kind == "dangling_link":
            files[nme] = ("link", "does-not-exist.css")
        elif kind == "unserialisable":
            # a :root block is always re-serialised, so the parse error always surfaces
            files[nme] = b":root { *zoom: 1; --x: #777 }\n.y { color: #888 }"
        elif kind == "unserialisable_top":
            # a parse error at the top level: only the final serialisation of the whole stylesheet meets it
            files[nme] = rng.choice([b".y { color: #888 } trailing", b".a { color: #777 }\n@media print { .p { color: #999 } } } trailing",
                                     b"trailing-only"])
        else:
            files[nme] = b""
    if rng.random() < 0.5:
        files["old_cm.css"] = b".stale { color: #777 }"      # an earlier output: never an input of a directory run
    files["notes.txt"] = b"color: #777"
    files["UP.CSS"] = b".u { color: #777 }"                    # not *.css
    return files, faults


def regen_clisrc():
    from translate import clisrc, cliresolve, climain, clirules
    clirules.generate()         # CmGen/CliRules.lean: process_nodes_recursive — rule selection, classification, write-back, recursion (CmProps/C08rules.lean)
    cliresolve.generate()       # CmGen/CliResolve.lean: resolve_variable, its call sites and the pre-pass of main (CmProps/C08resolve.lean)
    climain.generate()          # CmGen/CliMain.lean: the per-file loop of main (uses CliResolve's pre-pass image; CmProps/C18main.lean)
    clisrc.generate()           # CmGen/CliSrc.lean: path handling, target ratio, dispatch literals of cli/main.py as they read now (CmProps/C18src.lean)


def check(run):
    run.proof = proof_status("C18", regenerate=regen_clisrc)
    from translate import clisrc as _cs
    run.extra["source_translation"] = _cs.summary()
    from translate import climain as _cm
    run.extra["source_translation_main"] = _cm.summary()
    q = run.quick()
    repo_import()
    n = 45 if q else 1200
    run.rule = ("directory trees of 2-4 generated stylesheets in nested folders (incl. a hidden folder and multi-dot names), a "
                "custom property defined in one file and used in another, 0-3 faults placed at random (non-UTF-8 bytes, a "
                "directory named *.css, a dangling link named *.css, CSS that cannot be serialised inside a :root block or at the top level, an empty file), stale *_cm.css files, "
                "non-.css files; each tree is run as a directory twice in a row, and every good file alone; x settings. "
                "distinct = distinct trees; non-trivial = the tree contains at least one fault or a shared custom property")
    jobs, metas = [], []
    for _ in range(n):
        files, faults = make_tree(run.rng)
        mode = run.rng.choice([0, 1, 2]); prem = run.rng.random() < 0.3
        dbg = run.rng.choice(["white", "#000"])
        args = ["--mode", str(mode)] + (["--premium"] if prem else []) + ["--default-bg", dbg]
        tree = {"t/" + k: v for k, v in files.items()}
        metas.append((tree, faults, dbg, mode, prem, args))
    # directory runs
    with mp.get_context("fork").Pool(16) as p:
        first = p.map(cli_workers.run_cli, [(m[0], "t", m[5]) for m in metas], chunksize=1)
        # second run over the tree as the first run left it
        second_jobs = []
        for m, r in zip(metas, first):
            tree2 = dict(m[0])
            for k, v in r["after"].items():
                if v[0] == "file" and k not in tree2:
                    tree2[k] = v[1]
            second_jobs.append((tree2, "t", m[5]))
        second = p.map(cli_workers.run_cli, second_jobs, chunksize=1)
        singles_jobs, singles_idx = [], []
        for i, m in enumerate(metas):
            for k, v in m[0].items():
                if k.endswith(".css") and isinstance(v, bytes) and not k.endswith("_cm.css"):
                    singles_jobs.append(({k: v}, k, m[5])); singles_idx.append((i, k))
        singles = p.map(cli_workers.run_cli, singles_jobs, chunksize=2)
    single_out = {}
    for (i, k), r in zip(singles_idx, singles):
        single_out[(i, k)] = r["after"].get(k[:-4] + "_cm.css")
    lines = []
    for i, (m, r) in enumerate(zip(metas, first)):
        tree, faults, dbg, mode, prem, args = m
        order = [k for k in r["order"] if not k.endswith("_cm.css")]
        texts = []
        for k in order:
            v = tree.get(k)
            if isinstance(v, bytes):
                try:
                    texts.append(v.decode("utf-8"))
                except UnicodeDecodeError:
                    texts.append(None)
            else:
                texts.append(None)
        lines.append(cli_common.model_line(texts, dbg, mode, prem)[0])
    outs = run_lines(lines, chunks=16)
    for i, (m, r1, r2, o) in enumerate(zip(metas, first, second, outs)):
        tree, faults, dbg, mode, prem, args = m
        case = {"tree": {k: (v.decode("utf-8", "replace") if isinstance(v, bytes) else list(v)) for k, v in tree.items()}, "args": args, "faults": faults}
        run.count(json.dumps(case), bool(faults) or any(b"--shared" in v for v in tree.values() if isinstance(v, bytes)))
        for f in faults.values():
            run.hit("fault." + f)
        if r1["exception"] or r1["exit"] != 0:
            run.violation("a directory run was stopped (exception or non-zero exit)", case, details={"exception": r1["exception"], "exit": r1["exit"], "stderr": r1["stderr"][-300:]})
            continue
        expected_inputs = sorted(k for k in tree if k.endswith(".css") and not k.endswith("_cm.css"))
        if sorted(k for k in r1["order"] if not k.endswith("_cm.css")) != expected_inputs:
            run.violation("directory discovery does not yield exactly the *.css files that are not *_cm.css", case, details={"found": r1["order"], "expected": expected_inputs})
        # faults: reported on stderr, no output, run continues
        for k, kind in faults.items():
            kk = "t/" + k
            outk = kk[:-4] + "_cm.css"
            if kind in ("non_utf8", "directory", "dangling_link", "unserialisable", "unserialisable_top"):
                if "Error processing" not in r1["stderr"] or k.rsplit("/", 1)[-1] not in r1["stderr"]:
                    run.violation("a bad file was not reported on stderr", case, details={"file": k, "kind": kind, "stderr": r1["stderr"][-400:]})
                if outk in r1["after"] and outk not in tree:
                    run.violation("a bad file produced an output", case, details={"file": k, "kind": kind})
        # per-file isolation: byte-identical to the single-file run
        for k, v in tree.items():
            if k.endswith(".css") and isinstance(v, bytes) and not k.endswith("_cm.css"):
                outk = k[:-4] + "_cm.css"
                a = r1["after"].get(outk); b = single_out.get((i, k))
                if (a or (None, None))[1] != (b or (None, None))[1]:
                    run.violation("a stylesheet's output in a directory run differs from running the tool on that file alone", case,
                                  details={"file": k, "directory_run": None if a is None else a[1].decode("utf-8", "replace")[:300],
                                           "alone": None if b is None else b[1].decode("utf-8", "replace")[:300]})
        # outputs are never re-consumed: the second run reproduces the first
        outs1 = {k: v for k, v in r1["after"].items() if k not in r1["before"]}
        outs2 = {k: v for k, v in r2["after"].items() if k not in tree and k not in r1["before"]}
        stray = sorted(k for k in outs1 if not (k.endswith("_cm.css") and k[:-7] + ".css" in tree))
        if stray:
            run.violation("a directory run left something that is not the _cm.css sibling of one of its inputs", case, details={"left": stray})
        if any(k.endswith("_cm_cm.css") for k in r2["after"]):
            run.violation("a *_cm.css file was taken as an input of a directory run", case, details={"files": [k for k in r2["after"] if k.endswith("_cm_cm.css")]})
        if {k: v for k, v in outs1.items()} != outs2:
            run.violation("repeating the directory run does not reproduce the same outputs", case, details={"first": sorted(outs1), "second": sorted(outs2)})
        if "old_cm.css" in [k.rsplit("/", 1)[-1] for k in tree] and r1["after"].get("t/old_cm.css") != r1["before"].get("t/old_cm.css"):
            run.violation("a stale *_cm.css file was modified", case, details={})
        # model: same files in the same order, shared counters
        try:
            model = cli_common.parse_model(o)
        except Exception as e:  # noqa
            run.diverge("cm-colors <dir>==Cm.Cli.processFile (folded over the files)", case, "ran", "model failed %r" % e); continue
        d = cli_common.compare_run(model, r1, [k for k in r1["order"] if not k.endswith("_cm.css")])
        if d:
            run.diverge("cm-colors <dir>==Cm.Cli.processFile (folded over the files)", case, d[:3], "see model")
    run.sample({"tree": sorted(metas[0][0]), "faults": metas[0][1], "stderr": first[0]["stderr"][:200], "outputs": sorted(k for k in first[0]["after"] if k not in first[0]["before"])})
    run.assumptions = ["traversal order is whatever Path.rglob yields on this file system; the model is run in the same order (its per-file outputs are proved independent of it)",
                       "unreadable files (decode error, directory, dangling link) are inputs to the model as 'unreadable'; the OS's behaviour on them is observed, not modelled"]


def replay(run, path):
    d = json.load(open(path))
    v = d.get("first")
    print(json.dumps(v or d.get("no_longer_checks"), default=repr)[:3000])
    return 1
