"""C05 — luminance, contrast ratio and readability labels are exactly WCAG 2."""
import json
import math

import num_workers as nw
import wcag_ref
from common import proof_status, repo_import
from opt_common import near_threshold_pair, rand_rgb
from proto import bitsf, fbits, run_lines

MATCHERS = {}


def regen_leaves():
    """CmGen/Leaves.lean: the numeric functions and constants of the source as they read now (the `source_*`
    theorems of CmProps/C05tie.lean identify them with the model)"""
    from translate import leaves, api
    leaves.generate()
    api.generate()              # CmGen/Api.lean: ColorPair.is_readable as it reads now (CmProps/C05api.lean)
LABEL = {"AAA": "Very Readable", "AA": "Readable", "FAIL": "Not Readable"}


def spec_level(ratio, large):
    aaa, aa = (4.5, 3.0) if large else (7.0, 4.5)
    return "AAA" if ratio >= aaa else "AA" if ratio >= aa else "FAIL"


def check(run):
    run.proof = proof_status("C05", regenerate=regen_leaves)
    from translate import api as _api
    run.extra["source_translation_api"] = _api.summary()
    from translate import leaves as _leaves
    run.extra["source_translation"] = _leaves.summary()
    q = run.quick()
    cm = repo_import()
    from cm_colors.core import contrast as ct, conversions as cv
    from cm_colors import ColorPair, make_readable_bulk
    run.rule = ("luminance: %s; ratio: all 65,536 grey x grey pairs, %s, random and threshold-bisected pairs; labels: every "
                "threshold with its two adjacent doubles and random ratios x large flag, plus API labels on pairs bisected to "
                "both sides of each threshold. distinct = distinct inputs; all are non-trivial (each is compared against the "
                "model and an independent 60-digit reference)" % (
                    "200k random colours + 17^3 lattice" if q else "all 16,777,216 colours (exhaustive)",
                    "40k colours vs black and white" if q else "every colour vs black and white (exhaustive)"))
    # (a) linearisation of the 256 channel values
    vals = [cv.srgb_to_linear(v / 255.0) for v in range(256)]
    out = run_lines(["lin " + fbits(v / 255.0) for v in range(256)])
    ulp_max = 0.0
    for v, x, o in zip(range(256), vals, out):
        run.count(("lin", v))
        if fbits(x) != o and not nw.close(x, bitsf(o)):
            run.diverge("srgb_to_linear==Cm.srgbToLinear", v, x, bitsf(o))
        ref = float(wcag_ref.lin(v))
        u = abs(x - ref) / (math.ulp(ref) or 5e-324)
        ulp_max = max(ulp_max, u)
        if u > 16:  # rounding of (c+0.055)/1.055 is amplified 2.4x by the power; 7 ulp observed on the pinned tree
            run.violation("sRGB linearisation differs from the WCAG 2 definition", {"channel": v}, got=x, expected=ref, ulps=u)
    run.extra["linearisation_max_ulp_error_vs_reference"] = ulp_max
    with nw.pool() as p:
        # (b, c) luminance
        if q:
            cols = [rand_rgb(run.rng) for _ in range(200000)] + [(r, g, b) for r in range(0, 256, 15) for g in range(0, 256, 15) for b in range(0, 256, 15)]
            cols += [(255, 0, 0), (0, 255, 0), (0, 0, 255), (255, 255, 0), (0, 255, 255), (255, 0, 255), (0, 0, 0), (255, 255, 255)]
            slabs = [("list", cols[i:i + 8000]) for i in range(0, len(cols), 8000)]
        else:
            slabs = [("r", r) for r in range(256)]
            run.exhaustive = True
        tot, bads, _ = nw.merge(run, "calculate_relative_luminance==Cm.luminance", p.map(nw.w_lum, slabs),
                                distinct=(len(set(cols)) if q else 1 << 24))
        for b in bads:
            run.diverge("calculate_relative_luminance==Cm.luminance", list(b[0]), b[1], b[2])
        # luminance against the independent definition (weights included)
        f = ct.calculate_relative_luminance
        sample = [rand_rgb(run.rng) for _ in range(20000 if q else 300000)] + [(255, 0, 0), (0, 255, 0), (0, 0, 255), (255, 255, 0), (0, 255, 255), (255, 0, 255), (0, 0, 0), (255, 255, 255)]
        worst = 0.0
        for c in sample:
            x, ref = f(c), float(wcag_ref.luminance(c))
            worst = max(worst, abs(x - ref))
            run.count(("lumref", c))
            if abs(x - ref) > 1e-14:
                run.violation("relative luminance differs from the WCAG 2 definition", list(c), got=x, expected=ref)
        run.extra["luminance_max_abs_error_vs_reference"] = worst
        if f((0, 0, 0)) != 0.0 or abs(f((255, 255, 255)) - 1.0) > 1e-15:
            run.violation("luminance of black/white is not 0/1", [[0, 0, 0], [255, 255, 255]], got=[f((0, 0, 0)), f((255, 255, 255))])
        # (d) ratio
        grey = [((a, a, a), (b, b, b)) for a in range(256) for b in range(256)]
        if q:
            bw = [rand_rgb(run.rng) for _ in range(20000)]
        else:
            bw = [(r, g, b) for r in range(256) for g in range(256) for b in range(256)]
        bwp = [(c, k) for c in bw for k in ((0, 0, 0), (255, 255, 255))]
        rnd = [(rand_rgb(run.rng), rand_rgb(run.rng)) for _ in range(30000 if q else 400000)]
        near = [near_threshold_pair(run.rng, ct.calculate_contrast_ratio) for _ in range(6000 if q else 60000)]
        same = [(c, c) for c in (rand_rgb(run.rng) for _ in range(500))]
        allp = grey + bwp + rnd + near + same + [((0, 0, 0), (255, 255, 255)), ((255, 255, 255), (0, 0, 0))]
        chunks = [allp[i:i + 20000] for i in range(0, len(allp), 20000)]
        stats = p.map(nw.w_ratio, chunks)
        tot, bads, viols = nw.merge(run, "calculate_contrast_ratio==Cm.contrastRatio", stats, distinct=len(set(allp)))
        for b in bads:
            run.diverge("calculate_contrast_ratio==Cm.contrastRatio", [list(b[0]), list(b[1])], b[2], b[3])
        for v in viols:
            run.violation("contrast ratio: " + v[0], [list(v[1]), list(v[2])], got=v[3:])
        # verdicts against the exact-real reference, and 21 only for black/white
        vals = [x for st in stats for x in st["vals"]]
        judged = 0
        for (a, b), v in zip(near + rnd[:20000] + grey[::7], [None] * 0):
            pass
        idx0 = len(grey) + len(bwp)
        for i in list(range(idx0, idx0 + min(len(rnd), 20000))) + list(range(idx0 + len(rnd), idx0 + len(rnd) + len(near))) + list(range(0, len(grey), 5)):
            a, b = allp[i]
            v = vals[i]
            for thr in (3.0, 4.5, 7.0):
                judged += 1
                if (v >= thr) != wcag_ref.meets(a, b, thr):
                    run.violation("contrast ratio lands on the wrong side of a WCAG threshold", [list(a), list(b)], got=v, threshold=thr,
                                  exact=str(wcag_ref.ratio(a, b))[:20])
        run.extra["threshold_verdicts_checked_against_exact_reference"] = judged
        # the same verdicts against the *proved* reference: Cm.certVerdict (certVerdict_sound : sound over the reals)
        cl, ck = [], []
        for i in list(range(idx0 + len(rnd), idx0 + len(rnd) + len(near))) + list(range(idx0, idx0 + 5000)):
            a, b = allp[i]
            for thr, (nn, dd) in ((3.0, (3, 1)), (4.5, (9, 2)), (7.0, (7, 1))):
                cl.append("cert %d %d %d %d %d %d %d %d" % (tuple(a) + tuple(b) + (nn, dd)))
                ck.append((a, b, thr, vals[i]))
        undecided = 0
        for (a, b, thr, v), o in zip(ck, run_lines(cl, chunks=8)):
            if o == "none":
                undecided += 1
            elif (o == "true") != (v >= thr):
                run.violation("contrast ratio lands on the wrong side of a WCAG threshold (certified verdict)", [list(a), list(b)], got=v, threshold=thr, certified=o)
        run.extra["certified_verdicts_checked"] = len(cl)
        run.extra["certified_verdicts_undecided"] = undecided
        for (a, b), v in zip(allp, vals):
            if v == 21.0 and {tuple(a), tuple(b)} != {(0, 0, 0), (255, 255, 255)}:
                run.violation("ratio 21 for a pair other than black/white", [list(a), list(b)], got=v)
        if ct.calculate_contrast_ratio((0, 0, 0), (255, 255, 255)) != 21.0:
            run.violation("black on white is not 21", [[0, 0, 0], [255, 255, 255]], got=ct.calculate_contrast_ratio((0, 0, 0), (255, 255, 255)))
    # (e) labels
    ratios = []
    for thr in (3.0, 4.5, 7.0):
        ratios += [thr, math.nextafter(thr, math.inf), math.nextafter(thr, -math.inf)]
    ratios += [1.0, 21.0, 2.999, 4.4999999, 6.9999999] + [run.rng.uniform(1, 21) for _ in range(3000)]
    lines, exp = [], []
    for r in ratios:
        for large in (False, True):
            lines.append("level %s %d" % (fbits(r), int(large)))
    mo = run_lines(lines)
    k = 0
    for r in ratios:
        for large in (False, True):
            got = ct.get_contrast_level(r, large)
            run.count(("level", r, large))
            run.hit("level.%s.%s" % ("large" if large else "normal", got))
            if got != mo[k]:
                run.diverge("get_contrast_level==Cm.contrastLevel", [r, large], got, mo[k])
            if got != spec_level(r, large):
                run.violation("readability level differs from the WCAG thresholds (inclusive)", [r, large], got=got, expected=spec_level(r, large))
            k += 1
    # API labels on pairs on both sides of each threshold
    napi = 1500 if q else 20000
    for i in range(napi):
        a, b = near_threshold_pair(run.rng, ct.calculate_contrast_ratio)
        large = bool(run.rng.randrange(2))
        ref = wcag_ref.level(a, b, large)
        got = ct.get_wcag_level(a, b, large)
        lab = ColorPair("#%02x%02x%02x" % a, tuple(b), large).is_readable
        run.count(("label", a, b, large))
        run.hit("label." + ref)
        if got != ref:
            run.violation("get_wcag_level differs from the WCAG level of the pair", [list(a), list(b), large], got=got, expected=ref)
        if lab != LABEL[ref]:
            run.violation("ColorPair.is_readable differs from the WCAG label of the pair", [list(a), list(b), large], got=lab, expected=LABEL[ref])
        if i % 5 == 0:
            # bulk status = label of the colour it returns
            (out, status), = make_readable_bulk([("#%02x%02x%02x" % a, "#%02x%02x%02x" % b, large)])
            from cm_colors.core.color_parser import parse_color_to_rgb
            want = LABEL[wcag_ref.level(parse_color_to_rgb(out), b, large)].lower()
            if status != want:
                run.violation("bulk status differs from the WCAG label of the returned colour", [list(a), list(b), large], got=status, expected=want, returned=out)
            # the same two colours at both text sizes in one list, in both orders: each status is the label at ITS size
            ha, hb = "#%02x%02x%02x" % a, "#%02x%02x%02x" % b
            for lst, vr in (([(ha, hb, large), (ha, hb, not large)], False), ([(ha, hb, not large), (ha, hb), (ha, hb, True)], False),
                            ([(ha, hb, large), (ha, hb)], True)):
                for ent, (out2, st2) in zip(lst, make_readable_bulk(lst, very_readable=vr, mode=i % 3)):
                    lg = ent[2] if len(ent) == 3 else False
                    want2 = LABEL[wcag_ref.level(parse_color_to_rgb(out2), b, lg)].lower()
                    run.count(("bulk-label", a, b, tuple(e[2] if len(e) == 3 else None for e in lst), lg, vr))
                    if st2 != want2:
                        run.violation("bulk status differs from the WCAG label of the returned colour at the entry's own text size",
                                      {"entries": [list(e) for e in lst], "entry": list(ent), "very_readable": vr, "mode": i % 3}, got=st2, expected=want2, returned=out2)
    run.sample({"luminance": [119, 119, 119], "impl": ct.calculate_relative_luminance((119, 119, 119)), "reference": str(wcag_ref.luminance((119, 119, 119)))[:22]})
    run.sample({"ratio": [[119, 119, 119], [255, 255, 255]], "impl": ct.calculate_contrast_ratio((119, 119, 119), (255, 255, 255)), "reference": str(wcag_ref.ratio((119, 119, 119), (255, 255, 255)))[:22]})
    run.sample({"level": [4.5, False], "impl": ct.get_contrast_level(4.5, False)})
    run.assumptions = ["independent reference: 60-digit decimal evaluation of the WCAG 2 formulas (harness/wcag_ref.py)"]


def replay(run, path):
    d = json.load(open(path))
    print(json.dumps(d.get("first") or d.get("no_longer_checks"), default=repr)[:2000])
    repo_import()
    from cm_colors.core import contrast as ct
    v = d.get("first")
    if v and isinstance(v.get("case"), list) and len(v["case"]) >= 2 and isinstance(v["case"][0], list):
        a, b = tuple(v["case"][0]), tuple(v["case"][1])
        print("now:", ct.calculate_contrast_ratio(a, b), "reference", str(wcag_ref.ratio(a, b))[:22])
    return 1
