"""C19 — reports are injection-safe: user text appears only HTML-escaped."""
import html.parser
import json
import os
import tempfile

from common import proof_status, repo_import
from proto import run_lines, shex, unhex

MATCHERS = {}
ALPHABET = ["<", ">", "&", '"', "'", "`", "/", "=", " ", "script", "style=", "onerror=", "</div>", "</style>", "<!--", "-->", "&lt;", "&amp;", "&#x27;",
            "a", "b", "1", ";", ":", "(", ")", "{", "}", "\\", "\n", "é", "→", "<img src=x onerror=alert(1)>", "\"><script>alert(1)</script>", "javascript:"]
CLI_SLOTS = ["selector", "file", "bg", "original_text", "tuned_text", "original_level", "new_level"]
API_SLOTS = ["selector", "file", "fg", "bg", "tuned_fg"]


def regen():
    from translate import templates, escapesig
    templates.generate()
    escapesig.generate()        # CmGen/EscapeSig.lean: every placeholder of the report f-strings and how its value is obtained (CmProps/C19sig.lean)


class Tree(html.parser.HTMLParser):
    """element structure (tags with attribute names) and text chunks"""

    def __init__(self):
        super().__init__(convert_charrefs=True)
        self.structure, self.texts, self.attrs = [], [], []

    def handle_starttag(self, tag, attrs):
        self.structure.append(("<", tag, tuple(k for k, _ in attrs)))
        self.attrs += [v for _, v in attrs]

    def handle_endtag(self, tag):
        self.structure.append((">", tag))

    def handle_comment(self, data):
        self.structure.append(("!", "comment"))

    def handle_data(self, data):
        self.texts.append(data)


def tree_of(doc):
    t = Tree(); t.feed(doc); t.close()
    return t


def hostile(rng):
    return "".join(rng.choice(ALPHABET) for _ in range(rng.randrange(1, 9)))


def render(kind, values):
    d = tempfile.mkdtemp(prefix="cmv_c19_")
    p = os.path.join(d, "r.html")
    try:
        if kind == "cli":
            from cm_colors.cli.html_report import generate_report
            generate_report([values], output_path=p)
        else:
            from cm_colors.core.visualiser import to_html_bulk
            v = dict(values); v.setdefault("original_level", "FAIL"); v.setdefault("new_level", "AA")
            to_html_bulk([v], output_path=p)
        return open(p, encoding="utf-8").read()
    finally:
        if os.path.exists(p):
            os.remove(p)
        os.rmdir(d)


def check(run):
    run.proof = proof_status("C19", regenerate=regen)
    from translate import escapesig as _esc
    run.extra["source_translation_placeholders"] = _esc.summary()
    q = run.quick()
    repo_import()
    n = 400 if q else 12000
    run.rule = ("both report generators rendered with strings over a metacharacter-rich alphabet (<, >, &, both quotes, "
                "backticks, script, style=, onerror=, closing tags of the template, comment markers, entities, newlines, "
                "non-ASCII) in one or all user-controlled slots; compared with the benign rendering through html.parser "
                "(element/attribute structure, displayed text) and through the model's tokenizer (markup skeleton); plus "
                "end-to-end runs (CLI with hostile selectors and file names, save_report). distinct = distinct (generator, "
                "slot assignment); all non-trivial")
    skel_lines, skel_meta = [], []
    for kind, slots in (("cli", CLI_SLOTS), ("api", API_SLOTS)):
        benign = render(kind, {s: "benign" for s in slots})
        bt = tree_of(benign)
        skel_lines.append("skel " + shex(benign)); skel_meta.append((kind, None, None))
        for i in range(n):
            if i % 3 == 0:
                vals = {s: hostile(run.rng) for s in slots}
            else:
                vals = {s: "benign" for s in slots}
                vals[run.rng.choice(slots)] = hostile(run.rng)
            doc = render(kind, vals)
            run.count((kind, json.dumps(vals, sort_keys=True)))
            t = tree_of(doc)
            case = {"generator": "generate_report" if kind == "cli" else "to_html_bulk", "values": vals}
            if t.structure != bt.structure:
                extra = [x for x in t.structure if x not in bt.structure][:4]
                run.violation("user text changes the element/attribute structure of the report", case, details={"extra_or_changed": repr(extra)})
                continue
            # displayed verbatim: every slot value occurs as a text chunk or inside a style attribute
            text = "".join(t.texts)
            for s, v in vals.items():
                if kind == "api" and s in ("original_level", "new_level"):
                    continue
                shown = v in text or any(v in a for a in t.attrs if a)
                if not shown and v.strip():
                    # html.parser normalises nothing in text, so a missing value means it was altered
                    run.violation("user text is not displayed verbatim in the report", case, details={"slot": s, "value": v})
            if i < (60 if q else 600):
                skel_lines.append("skel " + shex(doc)); skel_meta.append((kind, vals, None))
            for s in vals:
                if vals[s] != "benign":
                    run.hit("slot.%s.%s" % (kind, s))
    sk = run_lines(skel_lines, chunks=8)
    base = {}
    for (kind, vals, _), o in zip(skel_meta, sk):
        if vals is None:
            base[kind] = o
        elif o != base[kind]:
            run.broken.append("model tokenizer: the markup skeleton of a %s report with %r differs from the benign one" % (kind, vals))
    run.extra["skeleton_chars"] = {k: len(unhex(v)) for k, v in base.items()}
    # end to end
    import cli_workers
    css = ('a[title="<script>alert(1)</script>"] { color: #777 }\n.x\\<img\\ src\\=x { color: #888; background-color: #fff }\n'
           '.q::after { content: "</style>"; color: #999 }\n')
    im = cli_workers.run_cli(({"a&b<c>'d\".css": css.encode()}, "a&b<c>'d\".css", []))
    rep = im["work"].get("cm_colors_report.html")
    if rep:
        doc = rep[1].decode("utf-8")
        t = tree_of(doc)
        tags = [x[1] for x in t.structure if x[0] == "<"]
        run.count(("e2e", "cli"))
        if "script" in tags or "img" in tags:
            run.violation("a hostile selector or file name adds elements to the CLI report", {"stylesheet": css}, details={"tags": sorted(set(tags))})
        if not any('a[title="<script>alert(1)</script>"]' in x for x in t.texts):
            run.violation("a selector is not displayed verbatim in the CLI report", {"stylesheet": css}, details={})
        run.hit("e2e.cli")
    else:
        run.notes.append("end-to-end CLI run produced no report: %s" % im["stdout"][:200])
    # directory run: hostile names of files and folders
    tree = {"site/<img src=x onerror=alert(1)>.css": b".a { color: #777 }", "site/q\"uo'te&amp;/<b>x.css": b".b { color: #888; background-color: #fff }"}
    im = cli_workers.run_cli((tree, "site", []))
    rep = im["work"].get("cm_colors_report.html")
    if rep:
        t = tree_of(rep[1].decode("utf-8"))
        tags = [x[1] for x in t.structure if x[0] == "<"]
        run.count(("e2e", "cli-dir"))
        if "img" in tags or "b" in tags:
            run.violation("a hostile file or folder name adds elements to the CLI report", {"files": sorted(tree)}, details={"tags": sorted(set(tags))})
        run.hit("e2e.cli_dir")
    else:
        run.notes.append("end-to-end directory run produced no report: %s %s" % (im["stdout"][:200], im["stderr"][-200:]))
    d = tempfile.mkdtemp(prefix="cmv_c19_")
    cwd = os.getcwd(); os.chdir(d)
    try:
        import io, contextlib
        from cm_colors import make_readable_bulk
        with contextlib.redirect_stdout(io.StringIO()):
            make_readable_bulk([("  #777  ", "RGB(255, 255,255)"), ("rgba(120,120,120,0.9)", " white "), ((120, 120, 120), [250, 250, 250])], save_report=True)
        doc = open("cm_colors_bulk_report.html", encoding="utf-8").read()
        t = tree_of(doc)
        run.count(("e2e", "api"))
        if len([x for x in t.structure if x[0] == "<" and x[1] == "div" and "class" in x[2]]) < 3:
            run.violation("the bulk report lost its structure", {"flow": "make_readable_bulk(save_report=True)"}, details={})
        run.hit("e2e.api")
    finally:
        os.chdir(cwd)
        import shutil
        shutil.rmtree(d, ignore_errors=True)
    # make_readable_bulk(save_report=True) over lists that mix readable, fixable and unparseable entries, the hostile text
    # sitting in entries the parser rejects as well as in ones it accepts (it ignores what follows 'rgb(...)'): the report
    # must have the structure of the same run with each hostile string replaced by a harmless one of the same validity
    import io, contextlib, shutil
    from cm_colors import make_readable_bulk, Color

    def bulk_doc(pairs):
        d = tempfile.mkdtemp(prefix="cmv_c19_")
        cwd = os.getcwd(); os.chdir(d)
        try:
            with contextlib.redirect_stdout(io.StringIO()):
                make_readable_bulk(pairs, save_report=True)
            pth = os.path.join(d, "cm_colors_bulk_report.html")
            return open(pth, encoding="utf-8").read() if os.path.exists(pth) else None
        finally:
            os.chdir(cwd)
            shutil.rmtree(d, ignore_errors=True)

    def harmless(v):
        c = Color(v)
        return "rgb(%d, %d, %d)" % c.rgb if c.is_valid else "notacolour"

    for _ in range(40 if q else 1500):
        pairs, calm = [("#777777", "#ffffff")], [("#777777", "#ffffff")]
        for _k in range(run.rng.randrange(1, 5)):
            h = hostile(run.rng)
            v = run.rng.choice([h, "rgb(119, 119, 119)" + h, "#777" + h, "notacolour" + h])
            as_bg = run.rng.random() < 0.3
            pairs.append(("#767676", v) if as_bg else (v, "#ffffff"))
            calm.append(("#767676", harmless(v)) if as_bg else (harmless(v), "#ffffff"))
        doc, ref = bulk_doc(pairs), bulk_doc(calm)
        run.count(("e2e-bulk", json.dumps(pairs)))
        run.hit("e2e.bulk_hostile")
        case = {"flow": "make_readable_bulk(pairs, save_report=True)", "pairs": pairs}
        if (doc is None) != (ref is None):
            run.violation("hostile text decides whether a bulk report is written", case, details={})
        elif doc is not None and tree_of(doc).structure != tree_of(ref).structure:
            extra = [x for x in tree_of(doc).structure if x not in tree_of(ref).structure][:4]
            run.violation("text of a bulk entry changes the element/attribute structure of the bulk report", case, details={"extra_or_changed": repr(extra)})
    run.sample({"generator": "generate_report", "values": {"selector": "\"><script>alert(1)</script>"}, "structure_equal_to_benign": True})
    run.assumptions = ["escaping is per character and context-free (checked here by random strings in every slot)",
                       "the coarse tokenizer model (data / tag / double- and single-quoted attribute value) is validated against html.parser on every rendered document"]


def replay(run, path):
    d = json.load(open(path))
    v = d.get("first")
    print(json.dumps(v or d.get("no_longer_checks"), default=repr)[:2500])
    if v and "pairs" in v.get("case", {}):
        repo_import()
        import io, contextlib, shutil
        from cm_colors import make_readable_bulk
        d = tempfile.mkdtemp(prefix="cmv_c19_"); cwd = os.getcwd(); os.chdir(d)
        try:
            with contextlib.redirect_stdout(io.StringIO()):
                make_readable_bulk([tuple(x) for x in v["case"]["pairs"]], save_report=True)
            tags = sorted({x[1] for x in tree_of(open("cm_colors_bulk_report.html", encoding="utf-8").read()).structure if x[0] == "<"})
        finally:
            os.chdir(cwd); shutil.rmtree(d, ignore_errors=True)
        print("tags in the bulk report:", tags)
        return 1 if set(tags) - {"html", "head", "meta", "title", "style", "body", "div", "span", "h1", "h2", "h3", "p", "code", "strong", "br", "link", "a", "small", "b"} else 0
    if not v or "generator" not in v.get("case", {}):
        return 1
    repo_import()
    kind = "cli" if v["case"]["generator"] == "generate_report" else "api"
    doc = render(kind, v["case"]["values"])
    slots = CLI_SLOTS if kind == "cli" else API_SLOTS
    same = tree_of(doc).structure == tree_of(render(kind, {s: "benign" for s in slots})).structure
    print("structure equal to benign:", same)
    return 0 if same else 1
