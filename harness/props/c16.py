"""C16 — asking for less never fails: mode 2 covers mode 1, readable covers very readable."""
import json

from common import proof_status
from opt_common import gen_pairs, correspond_caf, multi_step_pair, pool, w_api
from spellings import OPAQUE_KINDS, spell

MATCHERS = {}


def regen_optimiser():
    """CmGen/Optimiser.lean: the control logic of optimisation.py as it reads now (the `source_*` theorems of
    CmProps/C16opt.lean identify it with the model)"""
    from translate import optimiser, api
    optimiser.generate()
    api.generate()              # CmGen/Api.lean: make_readable as it reads now (CmProps/C16cap.lean states the property about that image)


def check(run):
    run.proof = proof_status("C16", regenerate=regen_optimiser)
    from translate import optimiser as _opt
    run.extra["source_translation_optimiser"] = _opt.summary()
    q = run.quick()
    n = 600 if q else 9000
    run.rule = ("pair mix as C01, weighted to pairs below a threshold, plus multi-step pairs and text that is almost its background; each pair is run through the API in modes 1 and 2 "
                "and with very_readable on/off (same mode, text size); non-trivial = at least one of the four runs had to "
                "change the colour")
    pairs, kinds = gen_pairs(run.rng, n // 3)
    nbase = len(pairs)
    # pairs that need several default-mode steps (where a fallback of mode 2 could out-compete mode 1)
    pairs += [multi_step_pair(run.rng) for _ in range(n - n // 3)]
    # text that is almost its background (ratio 1.0 - 1.3): the pairs that use up the step budget of the default mode, where a
    # budget that depends on the setting would let the harder request succeed and the easier one fail
    nfar = len(pairs)
    for _ in range(n // 5):
        b = tuple(run.rng.randrange(256) for _ in range(3))
        d = run.rng.choice([0, 2, 5, 9, 14, 20])
        pairs.append((tuple(max(0, min(255, x + run.rng.randint(-d, d))) for x in b), b))
    with pool() as p:
        caf = []
        api = []
        for pi, (t, b) in enumerate(pairs):
            large = run.rng.randrange(2)
            mode = run.rng.choice([0, 1, 2])
            if pi >= nfar:
                large, mode = run.rng.choice([0, 0, 1]), run.rng.choice([1, 1, 2, 0])
            ts, _ = spell(run.rng, t, run.rng.choice(OPAQUE_KINDS))
            bs, _ = spell(run.rng, b, run.rng.choice(OPAQUE_KINDS))
            # (a) mode 1 vs mode 2, both settings of very
            very = run.rng.randrange(2) if pi < nbase else 0     # AA-level successes of mode 1 are where mode 2 has room to differ
            api.append(((ts, bs, large, 1, very), (ts, bs, large, 2, very), "mode"))
            # (b) very vs ordinary, same mode
            api.append(((ts, bs, large, mode, 1), (ts, bs, large, mode, 0), "very"))
            caf.append((t, b, large, 2, very))
            caf.append((t, b, large, mode, 1))
        correspond_caf(run, caf, p)
        flat = [c for a, b, _ in api for c in (a, b)]
        res = p.map(w_api, flat, chunksize=4)
    for i, (a, b, kind) in enumerate(api):
        ra, rb = res[2 * i], res[2 * i + 1]
        if "raise" in ra or "raise" in rb:
            run.violation("make_readable raised", [a, b], got=[ra.get("raise"), rb.get("raise")])
            continue
        if "invalid" in ra:
            continue
        changed = ra.get("rb_own") != ra.get("t") or rb.get("rb_own") != rb.get("t")
        run.count((kind, json.dumps(a, default=list)), changed)
        if kind == "mode":
            run.hit("mode1.%s" % ("ok" if ra["ok"] else "fail"))
            if ra["ok"] and not (rb["ok"] and rb["out"] == ra["out"]):
                run.violation("mode 1 succeeds but mode 2 does not return the identical colour with success",
                              list(a), mode1=[ra["out"], ra["ok"]], mode2=[rb["out"], rb["ok"]])
            if not ra["ok"]:
                run.hit("mode2_after_mode1_fail.%s" % ("ok" if rb["ok"] else "fail"))
        else:
            run.hit("very.%s" % ("ok" if ra["ok"] else "fail"))
            if ra["ok"] and not rb["ok"]:
                run.violation("a very_readable request succeeds but the ordinary request for the same pair, mode and size fails",
                              list(a), very=[ra["out"], ra["ok"]], ordinary=[rb["out"], rb["ok"]])
    run.sample({"mode1_vs_mode2": [list(api[0][0]), list(api[0][1])], "results": [[res[0].get("out"), res[0].get("ok")], [res[1].get("out"), res[1].get("ok")]]})
    run.sample({"very_vs_ordinary": [list(api[1][0]), list(api[1][1])], "results": [[res[2].get("out"), res[2].get("ok")], [res[3].get("out"), res[3].get("ok")]]})


def replay(run, path):
    from opt_common import _init_worker
    import sys
    d = json.load(open(path))
    v = d.get("first")
    if not v:
        print("nothing to replay:", d.get("no_longer_checks"))
        return 1
    _init_worker()
    a = v["case"]
    other = list(a)
    if "mode1" in v:
        other[3] = 2
    else:
        other[4] = 0
    ra, rb = w_api(tuple(a)), w_api(tuple(other))
    sys.stdout = sys.__stdout__
    print(a, "->", ra.get("out"), ra.get("ok"), "|", other, "->", rb.get("out"), rb.get("ok"))
    bad = ra.get("ok") and not (rb.get("ok") and ("mode1" not in v or rb.get("out") == ra.get("out")))
    print("REPRODUCED" if bad else "not reproduced")
    return 1 if bad else 0
