"""C10 — OKLCH conversion matches the OKLab definition; lossless on all 8-bit colours."""
import json
import math

import color_ref
import num_workers as nw
from common import proof_status, repo_import
from opt_common import rand_rgb
from proto import bitsf, fbits, run_lines

MATCHERS = {}


def regen_leaves():
    """CmGen/Leaves.lean: the numeric functions and constants of the source as they read now (the `source_*`
    theorems of CmProps/C10tie.lean identify them with the model)"""
    from translate import leaves
    leaves.generate()


def valid(c):
    return len(c) == 3 and all(isinstance(x, int) and 0 <= x <= 255 for x in c)


def check(run):
    run.proof = proof_status("C10", regenerate=regen_leaves)
    from translate import leaves as _leaves
    run.extra["source_translation"] = _leaves.summary()
    q = run.quick()
    repo_import()
    from cm_colors.core import conversions as cv
    run.rule = ("forward conversion, ranges, round trip and safe==plain on %s; inverse on a (L,C,H) grid %s plus random "
                "points incl. out-of-gamut; invalid triples / colours for the safe variants; every input is distinct and "
                "non-trivial (compared with the model and the independent OKLab transcription)" % (
                    "150k random colours + 18^3 lattice + all greys" if q else "all 16,777,216 colours (exhaustive)",
                    "26x11x37" if q else "101x51x121"))
    with nw.pool() as p:
        if q:
            cols = [rand_rgb(run.rng) for _ in range(150000)] + [(r, g, b) for r in range(0, 256, 15) for g in range(0, 256, 15) for b in range(0, 256, 15)]
            cols += [(v, v, v) for v in range(256)]
            slabs = [("list", cols[i:i + 6000]) for i in range(0, len(cols), 6000)]
            nd = len(set(cols))
        else:
            slabs = [("r", r) for r in range(256)]
            nd = 1 << 24
            run.exhaustive = True
        stats = p.map(nw.w_oklch, slabs)
        tot, bads, viols = nw.merge(run, "rgb_to_oklch/oklch_to_rgb==Cm.rgbToOklch/oklchToRgb", stats, distinct=nd)
        run.extra["max_hue_seen"] = max(s["maxH"] for s in stats)
        for b in bads:
            run.diverge("rgb_to_oklch/oklch_to_rgb==Cm.rgbToOklch/oklchToRgb", list(b[0]), repr(b[1:2]), repr(b[2:]))
        for v in viols:
            what = {"range": "OKLCH component out of range (L in [0,1], C >= 0, H in [0,360))",
                    "roundtrip": "RGB -> OKLCH -> RGB is not the identity",
                    "safe!=plain": "rgb_to_oklch_safe differs from rgb_to_oklch on a valid colour",
                    "raise": "conversion raised"}[v[0]]
            run.violation(what, list(v[1]), got=v[2])
    # forward vs the independent transcription of Ottosson's definition, and published samples
    worst = 0.0
    for c in [rand_rgb(run.rng) for _ in range(20000 if q else 200000)] + list(color_ref.OKLCH_SAMPLES):
        L, C, H = cv.rgb_to_oklch(c)
        rL, rC, rH = color_ref.oklch(c)
        e = max(abs(L - rL), abs(C - rC), abs(C * math.cos(math.radians(H)) - rC * math.cos(math.radians(rH))), abs(C * math.sin(math.radians(H)) - rC * math.sin(math.radians(rH))))
        worst = max(worst, e)
        run.count(("ref", c))
        if e > 1e-9:
            run.violation("OKLCH differs from the published OKLab definition", list(c), got=[L, C, H], expected=[rL, rC, rH])
    for c, (sL, sC, sH) in color_ref.OKLCH_SAMPLES.items():
        L, C, H = cv.rgb_to_oklch(c)
        if abs(L - sL) > 5e-5 or abs(C - sC) > 5e-5 or (sH is not None and abs(H - sH) > 5e-3):
            run.violation("OKLCH differs from the published sample value", list(c), got=[L, C, H], expected=[sL, sC, sH])
    run.extra["forward_max_abs_error_vs_reference"] = worst
    # inverse: grid + random, in and out of gamut
    nL, nC, nH = (26, 11, 37) if q else (101, 51, 121)
    pts = [(i / (nL - 1), 0.5 * j / (nC - 1), 360.0 * k / (nH - 1)) for i in range(nL) for j in range(nC) for k in range(nH)]
    pts += [(run.rng.random(), run.rng.random() * 0.5, run.rng.random() * 360.0) for _ in range(20000 if q else 300000)]
    pts += [(0.0, 0.0, h) for h in (0.0, 90.0, 359.9)] + [(1.0, 0.0, h) for h in (0.0, 123.4, 360.0)]
    pts += [(run.rng.random(), 0.0, run.rng.random() * 360.0) for _ in range(2000)]
    mo = run_lines(["ofoklch %s %s %s" % (fbits(a), fbits(b), fbits(c)) for a, b, c in pts], chunks=16)
    ms = run_lines(["ofoklchs %s %s %s" % (fbits(a), fbits(b), fbits(c)) for a, b, c in pts], chunks=16)
    for t, m, m2 in zip(pts, mo, ms):
        run.count(("inv", t))
        try:
            c = tuple(cv.oklch_to_rgb(t)); cs = tuple(cv.oklch_to_rgb_safe(t))
        except Exception as e:  # noqa
            run.violation("oklch_to_rgb raised on a finite triple with L in [0,1]", list(t), got=repr(e)); continue
        if "%d %d %d" % c != m:
            run.diverge("oklch_to_rgb==Cm.oklchToRgb", list(t), c, m)
        if "%d %d %d" % cs != m2:
            run.diverge("oklch_to_rgb_safe==Cm.oklchToRgbSafe", list(t), cs, m2)
        if not valid(c):
            run.violation("oklch_to_rgb returned an invalid colour", list(t), got=c)
        if cs != c:
            run.violation("oklch_to_rgb_safe differs from oklch_to_rgb on valid input", list(t), got=[cs, c])
        if t[1] == 0.0:
            run.hit("inverse.achromatic")
            if max(c) - min(c) > 1:
                run.violation("C = 0 does not give a grey (within one unit per channel)", list(t), got=c)
            if t[0] == 0.0 and c != (0, 0, 0):
                run.violation("L = 0 is not black", list(t), got=c)
            if t[0] == 1.0 and c != (255, 255, 255):
                run.violation("L = 1, C = 0 is not white", list(t), got=c)
    # safe variants on invalid input
    bad_t = []
    for _ in range(3000 if q else 30000):
        k = run.rng.randrange(4)
        L, C, H = run.rng.random(), run.rng.random() * 0.5, run.rng.random() * 360
        if k == 0:
            L = run.rng.choice([-0.5, 1.5, -1e-9, 1.0000001, 3.0, -2.0])
        elif k == 1:
            C = -run.rng.random()
        elif k == 2:
            H = run.rng.choice([-1.0, 360.5, 720.0, -0.0001])
        else:
            L, C, H = 2 * run.rng.random() - 0.5, run.rng.random() - 0.3, 500 * run.rng.random() - 70
        bad_t.append((L, C, H))
    mo = run_lines(["ofoklchs %s %s %s" % (fbits(a), fbits(b), fbits(c)) for a, b, c in bad_t], chunks=4)
    for t, m in zip(bad_t, mo):
        run.count(("inv-safe", t))
        run.hit("safe.invalid_triple")
        try:
            cs = tuple(cv.oklch_to_rgb_safe(t))
        except Exception as e:  # noqa
            run.violation("oklch_to_rgb_safe raised", list(t), got=repr(e)); continue
        if "%d %d %d" % cs != m:
            run.diverge("oklch_to_rgb_safe==Cm.oklchToRgbSafe", list(t), cs, m)
        if not valid(cs):
            run.violation("oklch_to_rgb_safe returned an invalid colour", list(t), got=cs)
    bad_c = [tuple(run.rng.choice([-300, -1, 256, 300, 1000, run.rng.randrange(256)]) for _ in range(3)) for _ in range(600)]
    bad_c = [c for c in bad_c if not valid(c)]
    mo = run_lines(["oklchs %d %d %d" % c for c in bad_c])
    for c, m in zip(bad_c, mo):
        run.count(("fwd-safe", c))
        run.hit("safe.invalid_rgb")
        try:
            r = cv.rgb_to_oklch_safe(c)
        except Exception as e:  # noqa
            run.violation("rgb_to_oklch_safe raised", list(c), got=repr(e)); continue
        mm = [bitsf(x) for x in m.split()]
        if not all(nw.close(a, b) for a, b in zip(r, mm)):
            run.diverge("rgb_to_oklch_safe==Cm.rgbToOklchSafe", list(c), r, mm)
        if any(v != v or math.isinf(v) for v in r):
            run.violation("rgb_to_oklch_safe returned a non-finite value", list(c), got=r)
    run.sample({"rgb_to_oklch": [200, 30, 90], "impl": cv.rgb_to_oklch((200, 30, 90)), "reference": color_ref.oklch((200, 30, 90))})
    run.sample({"oklch_to_rgb": [0.7, 0.4, 30.0], "impl": cv.oklch_to_rgb((0.7, 0.4, 30.0))})
    run.assumptions = ["independent reference: harness/color_ref.py (Ottosson's matrices, math.cbrt, math.atan2)",
                       "the exact agreement of doubles with the real-number definition and the lossless round trip are decided by this sweep (exhaustive in the thorough tier), not by a theorem"]


def replay(run, path):
    d = json.load(open(path))
    print(json.dumps(d.get("first") or d.get("no_longer_checks"), default=repr)[:2000])
    return 1
