"""C14 — invalid colour input is reported, never raised."""
import json

import gen_colors as gc
import valenc
from common import proof_status, repo_import
from proto import run_lines

MATCHERS = {}


def state_of(c):
    if c.is_valid:
        from proto import t3
        return t3(c.rgb, "valid ", " ")
    return "invalid"


def probe(Color, ColorPair, bulk, v, bgv):
    """returns (impl_line or None, violations)"""
    viol = []
    try:
        c = Color(v)
    except BaseException as e:  # noqa
        return None, [("Color(...) raised", type(e).__name__ + ": " + str(e)[:120])]
    if c.is_valid:
        r = c.rgb
        if not (isinstance(r, tuple) and len(r) == 3 and all(type(x) is int and 0 <= x <= 255 for x in r)):
            viol.append(("a valid Color has a malformed rgb", repr(r)))
        if c.error is not None:
            viol.append(("a valid Color carries an error", repr(c.error)))
    else:
        if c.rgb is not None:
            viol.append(("an invalid Color has an rgb", repr(c.rgb)))
        if not (isinstance(c.error, str) and c.error):
            viol.append(("an invalid Color has no error message", repr(c.error)))
    try:
        p = ColorPair(v, bgv)
        line = "%s | %s | %s | %s" % (state_of(p.text), state_of(p.bg), p.text._format, p.is_readable)
        if not p.is_valid:
            if p.is_readable != "Not Readable":
                viol.append(("is_readable of an invalid pair", repr(p.is_readable)))
            mr = p.make_readable()
            if mr != (None, False):
                viol.append(("make_readable of an invalid pair", repr(mr)))
            if not p.errors or not all(isinstance(e, str) and e for e in p.errors):
                viol.append(("an invalid pair has no error messages", repr(p.errors)))
            res = bulk([("#777", "#fff"), (v, bgv), ("#000", "#fff", True)])
            if len(res) != 3 or res[1][1] != "invalid color" or res[0][1] not in ("readable", "very readable") or res[2][1] != "very readable":
                viol.append(("bulk does not report the entry as invalid and carry on", repr(res)))
    except BaseException as e:  # noqa
        return None, viol + [("ColorPair(...) / its queries raised", type(e).__name__ + ": " + str(e)[:120])]
    return line, viol


def regen():
    """CmGen/ParserSeq.lean: the tuple/list branch and the top-level dispatch of parse_color_to_rgb as they read now (the
    `source_*` theorems of CmProps/C14seq.lean identify them with the model's parseColor)"""
    from translate import parserseq, parsersrc, api
    parserseq.generate()
    parsersrc.generate()        # (CmProps/C14cap.lean states the parser's error kinds about the image of the whole function)
    api.generate()              # CmGen/Api.lean: Color._parse / ColorPair.__init__ as they read now (CmProps/C14api.lean)


def check(run):
    run.proof = proof_status("C14", regenerate=regen)
    from translate import parserseq as _ps
    run.extra["source_translation_parser_sequences"] = _ps.summary()
    from translate import api as _api
    run.extra["source_translation_api"] = _api.summary()
    q = run.quick()
    repo_import()
    from cm_colors import Color, ColorPair, make_readable_bulk
    n = 6000 if q else 150000
    run.rule = ("near-miss CSS strings (truncated functions, stray units/signs/percent, nested parentheses, var(), CSS-wide "
                "keywords, odd whitespace and Unicode digits, single-character insertions/deletions), valid CSS in all "
                "spellings, and typed sequences of length 0-6 over ints, floats incl. nan/inf, numeric and arbitrary "
                "strings, None, bools, nested containers; as text colour and as background; distinct = distinct values; "
                "non-trivial = the value is not accepted as a colour")
    vals = []
    for _ in range(n):
        k = run.rng.random()
        vals.append(gc.near_miss(run.rng) if k < 0.45 else gc.typed_seq(run.rng) if k < 0.85 else gc.valid_css(run.rng)[0])
    vals = [v for v in vals if valenc.encodable(v)]
    bgs = [run.rng.choice(["#fff", (10, 20, 30), "white"]) if run.rng.random() < 0.8 else run.rng.choice(vals) for _ in vals]
    model = run_lines([valenc.pair_line(v, b, False) for v, b in zip(vals, bgs)], chunks=8)
    for v, b, m in zip(vals, bgs, model):
        line, viol = probe(Color, ColorPair, make_readable_bulk, v, b)
        key = gc.canon(v)
        run.count(key, not (line or "").startswith("valid"))
        kind = "str" if isinstance(v, str) else "seq%d" % len(v)
        run.hit("input.%s.%s" % (kind, "valid" if (line or "").startswith("valid") else "invalid" if line else "raised"))
        for what, got in viol:
            run.violation("invalid colour input: " + what, {"value": repr(v), "background": repr(b)}, got=got)
        if line is not None and line != m:
            run.diverge("Color/ColorPair states==Cm.ColorPair.new", {"value": repr(v), "background": repr(b)}, line, m)
        elif line is None and "raised" not in m:
            run.diverge("Color/ColorPair states==Cm.ColorPair.new", {"value": repr(v), "background": repr(b)}, "raised", m)
    # ---- numbers beyond what the model's value encoding carries (ints past 64 bits, up to and past the range of a double):
    # "any list or tuple of numbers" includes them; the property is evaluated on the implementation alone
    huge = [2 ** 63, -2 ** 63 - 1, 10 ** 30, -10 ** 30, 2 ** 1023, 2 ** 1024, -2 ** 1024, 10 ** 400, -10 ** 400]
    small = [0, 1, 255, 128, 0.5, 0.0, 1.0, 0.25, 200.0, "50%", "0.5", "12", None, True]
    for i in range(400 if q else 8000):
        n = run.rng.choice([1, 2, 3, 3, 3, 4, 4, 4, 5])
        items = [run.rng.choice(small) for _ in range(n)]
        items[i % n] = run.rng.choice(huge)
        if run.rng.random() < 0.3:
            items[run.rng.randrange(n)] = run.rng.choice(huge)
        v = tuple(items) if i % 2 else items
        b = run.rng.choice(["#fff", (10, 20, 30), "white", v])
        line, viol = probe(Color, ColorPair, make_readable_bulk, v, b)
        run.count(("huge",) + gc.canon(v), not (line or "").startswith("valid"))
        run.hit("input.huge_int.seq%d.%s" % (n, "valid" if (line or "").startswith("valid") else "invalid" if line else "raised"))
        for what, got in viol:
            run.violation("invalid colour input: " + what, {"value": repr(v), "background": repr(b)}, got=got)
    run.sample({"value": repr(vals[0]), "background": repr(bgs[0]), "model": model[0]})
    run.sample({"value": repr((0.5, 0.5, 0.5, None)), "impl": probe(Color, ColorPair, make_readable_bulk, (0.5, 0.5, 0.5, None), "#fff")[0]})
    run.assumptions = ["CPython's float(str) raises nothing but ValueError on a str (modelled grammar, compared on every generated token)",
                       "error messages are compared for non-emptiness only"]


def replay(run, path):
    d = json.load(open(path))
    v = d.get("first")
    print(json.dumps(v or d.get("no_longer_checks"), default=repr)[:1500])
    if not v:
        return 1
    repo_import()
    from cm_colors import Color, ColorPair, make_readable_bulk
    val = eval(v["case"]["value"], {"nan": float("nan"), "inf": float("inf")})
    bg = eval(v["case"]["background"], {"nan": float("nan"), "inf": float("inf")})
    line, viol = probe(Color, ColorPair, make_readable_bulk, val, bg)
    print("now:", line, viol)
    return 1 if viol else 0
