"""C08 — CLI: what cm-colors reports is what it wrote, and every rule is accounted for."""
import json

import cli_common
import cli_oracle
import cli_workers
import gen_css
from common import proof_status, repo_import
from proto import run_lines


def m_k1(v, f):
    """a custom property rewritten on behalf of one rule while other rules depend on it"""
    d = v.get("details") or {}
    if d.get("run_reproduced_by_model") is False:
        return False        # the tool did something here that the model of the unchanged tool does not do: not the known finding
    return bool(d.get("shared_adjusted_properties")) or (d.get("custom_property") and d.get("rules_using_that_property", 0) > 1)


def m_k2(v, f):
    """the file was skipped because a declaration-level parse error cannot be re-serialised"""
    d = v.get("details") or {}
    if d.get("run_reproduced_by_model") is False:
        return False
    return bool(d.get("file_skipped_unserialisable")) or bool(d.get("unserialisable"))


MATCHERS = {"custom_property_adjusted_for_several_rules": m_k1, "adjusted_rule_with_unserialisable_parse_error": m_k2}

DIRECTED = [
    ":root { color: #999 }\n",
    ".c { color: var(--missing, #888) }\n",
    ".m { COLOR: #777 }\n",
    ":root{--t:#777} .a{color:var(--t);background-color:#fff} .b{color:var(--t);background-color:#eee}\n",
    ".ok { color: #777 } .x { *color: #777; color: #777 } .after { color: #888 }\n",
    "html { --a: #777; color: var(--a) } @media print { .p { color: #777; background-color: #fff } @supports (x:y) { .q { color: #aaa } } }\n",
    ".h { color: hsl(0, 0%, 50%); background-color: white }\n",
    ".i { color: #777 !important; color: #888 }\n",
    ":root { --Muted: #cccccc; --muted: #333333; --Accent: #777777; --accent: #111111 }\n.note { color: var(--Muted) }\n.link { color: var(--Accent); background-color: #fff }\n",
    "@supports (display: grid) { @media (min-width: 1px) { .hint { color: #777777; background-color: #ffffff } } }\n",
    ":root { --ink: #333333; --muted: #595959 }\n@media (min-width: 600px) { :root { --muted: #999999 } }\n.card { color: var(--ink); background-color: #fff }\n.hint { color: var(--muted); background-color: #fff }\n",
    ".banner { color: #000; background-color: #fff; color: #999 }\n.note { color: #999; background-color: #fff; color: #111 }\n",
]


def regen_clisrc():
    from translate import clisrc, cliresolve, climain, clirules
    clirules.generate()         # CmGen/CliRules.lean: process_nodes_recursive — rule selection, classification, write-back, recursion (CmProps/C08rules.lean)
    cliresolve.generate()       # CmGen/CliResolve.lean: resolve_variable, its call sites and the pre-pass of main (CmProps/C08resolve.lean)
    climain.generate()          # CmGen/CliMain.lean: the per-file loop of main (uses CliResolve's pre-pass image; CmProps/C18main.lean)
    from translate import defaults
    defaults.generate()         # CmGen/Defaults.lean: the click options of main and their defaults (CmProps/C08defaults.lean)
    clisrc.generate()           # CmGen/CliSrc.lean: path handling, target ratio, dispatch literals of cli/main.py as they read now (CmProps/C08src.lean)


def check(run):
    run.proof = proof_status("C08", regenerate=regen_clisrc)
    from translate import clisrc as _cs
    run.extra["source_translation"] = _cs.summary()
    from translate import cliresolve as _cr
    run.extra["source_translation_resolve"] = _cr.summary()
    from translate import clirules as _cru
    run.extra["source_translation_rules"] = _cru.summary()
    q = run.quick()
    repo_import()
    from cm_colors import ColorPair
    from cm_colors.core.color_parser import parse_color_to_rgb
    api = {"ColorPair": ColorPair, "parse": parse_color_to_rgb}
    n = 150 if q else 4000
    run.rule = ("stylesheets from a grammar (rules with/without background-color, literal colours in every spelling, custom "
                "properties in :root/html — chained, with/without fallback, shared, redefined, cyclic —, !important, repeated "
                "declarations, upper-case property names, @media/@supports nested to depth 3, unrelated at-rules, comments, "
                "strings with braces/semicolons) x --mode x --premium x --default-bg, plus fixed directed stylesheets; "
                "distinct = distinct (stylesheet, settings); non-trivial = at least one rule has a text colour")
    jobs, metas = [], []
    for i in range(n + len(DIRECTED)):
        css = DIRECTED[i - n] if i >= n else gen_css.stylesheet(run.rng)
        dbg = "white" if i >= n else run.rng.choice(gen_css.DEFAULT_BGS)
        mode = 1 if i >= n else run.rng.choice([0, 1, 2])
        prem = False if i >= n else run.rng.random() < 0.3
        args = ["--mode", str(mode)] + (["--premium"] if prem else []) + (["--default-bg", dbg] if dbg != "white" or run.rng.random() < 0.5 else [])
        jobs.append(({"s.css": css.encode()}, "s.css", args))
        metas.append((css, dbg, mode, prem))
    from opt_common import pool
    import multiprocessing as mp
    with mp.get_context("fork").Pool(16) as p:
        impls = p.map(cli_workers.run_cli, jobs, chunksize=2)
    outs = run_lines([cli_common.model_line([m[0]], m[1], m[2], m[3])[0] for m in metas], chunks=16)
    for (css, dbg, mode, prem), o, im in zip(metas, outs, impls):
        case = {"stylesheet": css, "default_bg": dbg, "mode": mode, "premium": prem}
        run.count(json.dumps(case), "color" in css.lower())
        if im["exception"]:
            run.violation("the cm-colors command raised", case, details={"exception": im["exception"]}); continue
        so = cli_workers.parse_stdout(im["stdout"])
        run.hit("runs.with_adjusted" if so["tuned"] else "runs.none_adjusted")
        run.hit("cat.accessible", so["accessible"]); run.hit("cat.adjusted", so["tuned"]); run.hit("cat.attention", so["failed"])
        if "var(" in css:
            run.hit("feature.var")
        if "@media" in css.lower() or "@supports" in css:
            run.hit("feature.nested")
        # model correspondence (first: whether the model - the unchanged tool's behaviour, K1 and K2 included - reproduces
        # this run decides below whether a violation can be one of the known findings)
        reproduced = False
        try:
            model = cli_common.parse_model(o)
            d = cli_common.compare_run(model, im, ["s.css"])
            reproduced = not d
            if d:
                run.diverge("cm-colors==Cm.Cli.processFile", case, d[:3], "see model")
        except Exception as e:  # noqa
            run.diverge("cm-colors==Cm.Cli.processFile", case, "ran", "model failed: %r %s" % (e, o[:100]))
        # property, judged on the observable output only
        for what, det in cli_oracle.evaluate(css, (im["after"].get("s_cm.css") or (None, None))[1], im, dbg, mode, prem, api):
            det = dict(det or {})
            det["run_reproduced_by_model"] = reproduced
            run.violation(what, case, details=det)
    run.sample({"stylesheet": metas[0][0], "settings": metas[0][1:], "stdout": impls[0]["stdout"][:300]})
    run.assumptions = ["tinycss2's tokeniser/parser/serialiser is a parameter of the model (the harness hands the model the tree tinycss2 produces)",
                       "the property is judged on observable output only: stdout counters and list, report cards, the written file, the public API"]


def replay(run, path):
    d = json.load(open(path))
    v = d.get("first")
    print(json.dumps(v or d.get("no_longer_checks"), default=repr)[:2500])
    if not v:
        return 1
    c = v["case"]
    repo_import()
    from cm_colors import ColorPair
    from cm_colors.core.color_parser import parse_color_to_rgb
    args = ["--mode", str(c["mode"])] + (["--premium"] if c["premium"] else []) + ["--default-bg", c["default_bg"]]
    im = cli_workers.run_cli(({"s.css": c["stylesheet"].encode()}, "s.css", args))
    vs = cli_oracle.evaluate(c["stylesheet"], (im["after"].get("s_cm.css") or (None, None))[1], im, c["default_bg"], c["mode"], c["premium"],
                             {"ColorPair": ColorPair, "parse": parse_color_to_rgb})
    print("stdout:", im["stdout"])
    print("written:", (im["after"].get("s_cm.css") or (None, b"<none>"))[1].decode())
    for x in vs:
        print("REPRODUCED:", x)
    return 1 if vs else 0
