"""C13 — translucent text is judged as it will be seen over its own background."""
import json
from fractions import Fraction

import valenc
import wcag_ref
from common import proof_status, repo_import
from opt_common import rand_rgb
from proto import run_lines, t3
from spellings import hsl_string

MATCHERS = {}


def regen_leaves():
    """CmGen/Leaves.lean: the numeric functions of the source as they read now (the `source_*` theorems of
    CmProps/C13tie.lean identify them with the model)"""
    from translate import leaves, convstr, api
    leaves.generate()
    api.generate()              # (CmProps/C13cap.lean states the data flow of the compositing context about the image of ColorPair.__init__)
    convstr.generate()          # CmGen/ConvStr.lean: rgba_to_rgb and hsla_to_rgb (string and sequence input) as they read now (CmProps/C13conv.lean)
LABEL = {"AAA": "Very Readable", "AA": "Readable", "FAIL": "Not Readable"}
ALPHAS = ["0", "1", "0.0", "1.0", "0.5", "0.25", "0.75", "0.000001", "0.999999", "0.001", "0.999", "0.1", "0.9", ".5", ".25", ".9", "1.", "0."]


def css_channels(s):
    import tinycss2.color3 as c3
    c = c3.parse_color(s)
    return [Fraction(255 * c.red).limit_denominator(10 ** 12), Fraction(255 * c.green).limit_denominator(10 ** 12),
            Fraction(255 * c.blue).limit_denominator(10 ** 12)]


def check(run):
    run.proof = proof_status("C13", regenerate=regen_leaves)
    from translate import convstr as _cv
    run.extra["source_translation_converters"] = _cv.summary()
    from translate import leaves as _leaves
    run.extra["source_translation"] = _leaves.summary()
    q = run.quick()
    repo_import()
    from cm_colors import ColorPair
    n = 5000 if q else 150000
    run.rule = ("(foreground, alpha, opaque background) triples in rgba() strings (integer and percentage channels), hsla() "
                "strings and RGBA tuples; alpha in {0, 1, values next to 0 and 1, random 1-6 decimals}; backgrounds in "
                "several spellings incl. translucent ones; distinct = distinct (text, background) values; non-trivial = "
                "0 < alpha < 1")
    cases = []
    for i in range(n):
        f, b = rand_rgb(run.rng), rand_rgb(run.rng)
        if i % 12 == 0:
            # channels that are all 0 or 1: where "is this normalised?" heuristics misfire
            f = tuple(run.rng.choice([0, 1, 1, 2, 255]) for _ in range(3))
        a = run.rng.choice(ALPHAS) if run.rng.random() < 0.5 else ("%." + str(run.rng.choice([1, 2, 3, 6])) + "f") % run.rng.random()
        af = Fraction(a)
        k = run.rng.random()
        if k < 0.35:
            text = "rgba(%d, %d, %d, %s)" % (f + (a,)); fg = [Fraction(x) for x in f]; kind = "rgba"
        elif k < 0.45:
            ps = [round(run.rng.uniform(0, 100), run.rng.choice([0, 1, 2])) for _ in range(3)]
            text = "rgba(%s%%, %s%%, %s%%, %s)" % (tuple(ps) + (a,)); fg = [Fraction(str(p)) * 255 / 100 for p in ps]; kind = "rgba_pct"
        elif k < 0.75:
            hs = hsl_string(f)
            if not hs:
                continue
            text = hs.replace("hsl(", "hsla(")[:-1] + ", %s)" % a; fg = css_channels(hs); kind = "hsla"
        else:
            text = (f[0], f[1], f[2], float(a)) if run.rng.random() < 0.7 else [f[0], f[1], f[2], float(a)]
            af = Fraction(float(a)); fg = [Fraction(x) for x in f]; kind = "rgba_tuple"
        bk = run.rng.random()
        bgv = ("#%02x%02x%02x" % b) if bk < 0.35 else b if bk < 0.6 else "rgb(%d, %d, %d)" % b if bk < 0.85 else list(b)
        if bk >= 0.93 and all(int(round((x / 255.0) * 255.0)) == x for x in b) and not all(x in (0, 255) for x in b):
            bgv = tuple(x / 255.0 for x in b)      # a background given as normalised floats
        cases.append((text, bgv, b, fg, af, kind))
    mo = run_lines([valenc.pair_line(c[0], c[1], False) for c in cases], chunks=8)
    for (text, bgv, b, fg, af, kind), m in zip(cases, mo):
        run.count((repr(text), repr(bgv)), 0 < af < 1)
        run.hit("kind." + kind)
        try:
            p = ColorPair(text, bgv)
            ok = p.is_valid
        except Exception as e:  # noqa
            run.violation("ColorPair raised on a translucent colour", {"text": repr(text), "bg": repr(bgv)}, got=repr(e)); continue
        if not ok:
            run.violation("a translucent colour over an opaque background is rejected", {"text": repr(text), "bg": repr(bgv)}, got=p.errors); continue
        t = tuple(p.text.rgb)
        line = "valid %d %d %d | valid %d %d %d | %s | %s" % (t + tuple(p.bg.rgb) + (p.text._format, p.is_readable))
        if line != m:
            run.diverge("ColorPair==Cm.ColorPair.new", {"text": repr(text), "bg": repr(bgv)}, line, m)
        if tuple(p.bg.rgb) != tuple(b):
            run.violation("the background of the pair is not the given opaque colour", {"text": repr(text), "bg": repr(bgv)}, got=p.bg.rgb)
        blend = [af * x + (1 - af) * y for x, y in zip(fg, b)]
        err = max(abs(Fraction(x) - y) for x, y in zip(t, blend))
        if err > Fraction(3, 2):
            over_white = [af * x + (1 - af) * 255 for x in fg]
            run.violation("translucent text is not composited over the pair's own background within 1.5 units",
                          {"text": repr(text), "bg": repr(bgv)}, got=t, exact=[float(x) for x in blend],
                          over_white=[float(x) for x in over_white])
        if af == 1:
            run.hit("alpha.one")
            if any(abs(Fraction(x) - y) > Fraction(1, 2) for x, y in zip(t, fg)):
                run.violation("alpha 1 does not give the colour itself", {"text": repr(text), "bg": repr(bgv)}, got=t)
        if af == 0:
            run.hit("alpha.zero")
            if t != tuple(b):
                run.violation("alpha 0 does not give the background", {"text": repr(text), "bg": repr(bgv)}, got=t)
        # judged = composite
        want = LABEL[wcag_ref.level(t, b, False)]
        if p.is_readable != want:
            run.violation("is_readable does not judge the composite colour", {"text": repr(text), "bg": repr(bgv)}, got=p.is_readable, expected=want)
    # make_readable operates on the composite: same result as for the composite given as an opaque tuple
    sub = [c for c in cases if 0 < c[4] < 1][: (250 if q else 4000)]
    mo = run_lines([valenc.mr_line(c[0], c[1], False, 1, False) for c in sub], chunks=16)
    from opt_common import pool, w_api
    comp = {}
    kept = []
    for c in sub:
        pc = ColorPair(c[0], c[1])
        if not pc.is_valid:
            # (already reported above as a rejected translucent value; nothing to composite)
            run.violation("a translucent colour in one of the listed spellings is rejected", {"text": repr(c[0]), "bg": repr(c[1])}, got=pc.errors)
            continue
        comp[id(c)] = tuple(pc.text.rgb)
        kept.append(c)
    if len(kept) != len(sub):
        keep_ids = {id(c) for c in kept}
        mo = [m for c, m in zip(sub, mo) if id(c) in keep_ids]
        sub = kept
    with pool() as pl:
        r1 = pl.map(w_api, [(c[0], c[1], False, 1, False) for c in sub], chunksize=2)
        r2 = pl.map(w_api, [(comp[id(c)], c[1], False, 1, False) for c in sub], chunksize=2)
    for (text, bgv, b, fg, af, kind), m, a1, a2 in zip(sub, mo, r1, r2):
        run.count(("mr", repr(text), repr(bgv)))
        if "raise" in a1 or "raise" in a2 or "out" not in a1 or "out" not in a2:
            run.violation("make_readable raised or refused a translucent colour", {"text": repr(text), "bg": repr(bgv)}, got=[a1.get("raise"), a2.get("raise")])
            continue
        out, ok = a1["out"], a1["ok"]
        if ok != a2["ok"] or a1.get("rb_own") != a2.get("rb_own"):
            run.violation("make_readable on a translucent colour differs from make_readable on its composite",
                          {"text": repr(text), "bg": repr(bgv)}, got=[out, ok], composite=[a2["out"], a2["ok"]])
        enc = (t3(out) if isinstance(out, (tuple, list)) else "s:" + out.encode().hex() if isinstance(out, str) else "x:" + repr(out)) + (" 1" if ok else " 0")
        if enc != m:
            run.diverge("make_readable==Cm.ColorPair.makeReadable", {"text": repr(text), "bg": repr(bgv)}, enc, m)
    # CSS Color 4 space/slash spellings: not required to be accepted, but if they are, the alpha must be honoured
    for _ in range(200 if q else 4000):
        f, b = rand_rgb(run.rng), rand_rgb(run.rng)
        a = run.rng.choice(["0.3", "0.5", "0.75", "0.1"])
        hs = hsl_string(f)
        forms = ["rgba(%d %d %d / %s)" % (f + (a,)), "rgb(%d %d %d / %s)" % (f + (a,))]
        if hs:
            inner = hs[4:-1].replace(",", "")
            # only the spellings the property names (rgba()/hsla()); `hsl(h s% l% / a)` is CSS Color 4 syntax outside
            # the stated domain (observation: the library accepts it and ignores the alpha)
            forms += ["hsla(%s / %s)" % (inner, a)]
        text = run.rng.choice(forms)
        try:
            p = ColorPair(text, b)
            ok = p.is_valid
        except Exception as e:  # noqa
            run.violation("ColorPair raised on a CSS Color 4 translucent spelling", {"text": repr(text), "bg": repr(b)}, got=repr(e)); continue
        run.count(("css4", text, b), ok)
        run.hit("css4.%s" % ("accepted" if ok else "rejected"))
        if ok:
            af = Fraction(a)
            fg = [Fraction(x) for x in f]
            blend = [af * x + (1 - af) * y for x, y in zip(fg, b)]
            if max(abs(Fraction(x) - y) for x, y in zip(p.text.rgb, blend)) > Fraction(5, 2):
                run.violation("a translucent spelling is accepted but its alpha is not honoured (not composited over the pair's background)",
                              {"text": repr(text), "bg": repr(b)}, got=tuple(p.text.rgb), exact=[float(x) for x in blend])
    # translucent background: composited over white
    for _ in range(300 if q else 5000):
        f = rand_rgb(run.rng); a = run.rng.choice(ALPHAS)
        bgv = "rgba(%d, %d, %d, %s)" % (f + (a,))
        p = ColorPair("#000", bgv)
        run.count(("bg", bgv))
        af = Fraction(a)
        blend = [af * x + (1 - af) * 255 for x in f]
        if not p.is_valid or max(abs(Fraction(x) - y) for x, y in zip(p.bg.rgb, blend)) > Fraction(3, 2):
            run.violation("a translucent background is not composited over white", {"bg": bgv}, got=p.bg.rgb, exact=[float(x) for x in blend])
    run.hit("translucent_background", 300 if q else 5000)
    run.sample({"text": repr(cases[0][0]), "bg": repr(cases[0][1]), "model": mo[0] if mo else None})
    run.assumptions = ["exact blend computed with rational arithmetic from the CSS-defined channel values (tinycss2.color3 for hsl)"]


def replay(run, path):
    d = json.load(open(path))
    v = d.get("first")
    print(json.dumps(v or d.get("no_longer_checks"), default=repr)[:1500])
    if not v:
        return 1
    repo_import()
    from cm_colors import ColorPair
    p = ColorPair(eval(v["case"]["text"]) if "text" in v["case"] else "#000", eval(v["case"]["bg"]))
    print("now: text.rgb", p.text.rgb, "bg.rgb", p.bg.rgb, p.is_readable)
    return 1
