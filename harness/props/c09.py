"""C09 — CLI: input files are never touched and the rest of the stylesheet is preserved."""
import json
import multiprocessing as mp

import cli_common
import cli_workers
import css_ast
import gen_css
from cli_oracle import css_rules, custom_props, has_unserialisable, last_decl
from common import proof_status, repo_import
from proto import run_lines


def m_k2(v, f):
    d = v.get("details") or {}
    return bool(d.get("file_skipped_unserialisable"))


MATCHERS = {"adjusted_rule_with_unserialisable_parse_error": m_k2}


STALE_TAIL = b"\n/* an earlier, longer output */\n" + b".stale-tail-%d { color: #123456; background-color: #fedcba }\n" * 6


def count_comments(text):
    """the non-empty comments anywhere in a stylesheet (top level, preludes, blocks, declaration values),
    in order; the empty comment is what tinycss2's serialiser puts between two tokens that would otherwise
    fuse ('2n' '+1' -> '2n/**/+1'), so it carries nothing and is not counted"""
    import tinycss2

    def walk(tokens):
        n = []
        for t in tokens:
            if t.type == "comment" and t.value != "":
                n.append(t.value)
            for attr in ("content", "prelude", "arguments"):
                sub = getattr(t, attr, None)
                if sub:
                    n += walk(sub)
        return n
    return walk(tinycss2.parse_stylesheet(text, skip_whitespace=False, skip_comments=False))


def regen_clisrc():
    from translate import clisrc, cliresolve, climain, clirules
    clirules.generate()         # CmGen/CliRules.lean: process_nodes_recursive — rule selection, classification, write-back, recursion (CmProps/C08rules.lean)
    cliresolve.generate()       # CmGen/CliResolve.lean: resolve_variable, its call sites and the pre-pass of main (CmProps/C08resolve.lean)
    climain.generate()          # CmGen/CliMain.lean: the per-file loop of main (uses CliResolve's pre-pass image; CmProps/C18main.lean)
    clisrc.generate()           # CmGen/CliSrc.lean: path handling, target ratio, dispatch literals of cli/main.py as they read now (CmProps/C09src.lean)


def check(run):
    run.proof = proof_status("C09", regenerate=regen_clisrc)
    from translate import clisrc as _cs
    run.extra["source_translation"] = _cs.summary()
    q = run.quick()
    repo_import()
    n = 160 if q else 4000
    run.rule = ("stylesheets as for C08 plus carry-through material (@import/@charset/@font-face/@keyframes/@page/@namespace/"
                "@layer/unknown at-rules, strings and url() with braces/semicolons/comment markers, escapes, !important, vendor "
                "hacks, empty rules, non-ASCII) x settings; single-file runs and directory runs (two files in nested folders). "
                "Observed: bytes of every input before/after, directory listing, token-level structure of the output against "
                "the input. distinct = distinct (files, settings); non-trivial = at least one rule was adjusted")
    jobs, metas = [], []
    for i in range(n):
        css = gen_css.carry_stylesheet(run.rng) if run.rng.random() < 0.6 else gen_css.stylesheet(run.rng, extras=True)
        mode = run.rng.choice([0, 1, 2]); prem = run.rng.random() < 0.3
        dbg = run.rng.choice(["white", "#000", "#fff"])
        args = ["--mode", str(mode)] + (["--premium"] if prem else []) + ["--default-bg", dbg]
        if run.rng.random() < 0.3:
            css2 = gen_css.carry_stylesheet(run.rng)
            files = {"site/main.css": css.encode(), "site/sub/deep/other.css": css2.encode(), "site/readme.txt": b"not css", "site/old_cm.css": b".stale { color: #777 }"}
            if run.rng.random() < 0.35:
                # an earlier, longer output is already there (a previous run with other settings, or of a longer stylesheet)
                files["site/main_cm.css"] = css.encode() + STALE_TAIL
            if run.rng.random() < 0.5:
                # stylesheets the tool has to give up on (undecodable bytes), wherever the traversal meets them: before, between
                # and after the valid ones — every valid stylesheet must still get its sibling output
                for bad in ("site/0_bad.css", "site/zz_bad.css", "site/sub/bad.css", "site/sub/deep/zz_bad.css"):
                    files[bad] = b"\xff\xfe .a { color: #777 } \x80"
            jobs.append((files, "site", args)); metas.append((files, "site", dbg, mode, prem))
        else:
            name = run.rng.choice(["a.css", "my.style.css", "sub/x.css", "Ünï.css", "with space.css", "theme_cm.css", "lib.min.css"])
            files = {name: css.encode("utf-8")}
            if run.rng.random() < 0.35:
                files[name[:-4] + "_cm.css"] = css.encode("utf-8") + STALE_TAIL
            jobs.append((files, name, args)); metas.append((files, name, dbg, mode, prem))
    jobs.append(({"k2.css": b".ok { color: #777 } .x { *color: #777; color: #777 } .after { color: #888 }"}, "k2.css", []))
    metas.append((jobs[-1][0], "k2.css", "white", 1, False))
    with mp.get_context("fork").Pool(16) as p:
        impls = p.map(cli_workers.run_cli, jobs, chunksize=2)
    for (files, target, dbg, mode, prem), im in zip(metas, impls):
        case = {"files": {k: v.decode("utf-8", "backslashreplace") for k, v in files.items()}, "target": target, "default_bg": dbg, "mode": mode, "premium": prem}
        so = cli_workers.parse_stdout(im["stdout"])
        run.count(json.dumps(case), so["tuned"] > 0)
        run.hit("invocation.%s" % ("directory" if target == "site" else "file"))
        if im["exception"]:
            run.violation("the cm-colors command raised", case, details={"exception": im["exception"]}); continue
        # directory runs skip *_cm.css; a file given directly is processed whatever its name
        css_inputs = [k for k in files if k.endswith(".css") and not k.endswith("_cm.css")] if target == "site" else [target]
        undecodable = set()
        for k in css_inputs:
            try:
                files[k].decode("utf-8")
            except UnicodeDecodeError:
                undecodable.add(k)
        if undecodable:
            run.hit("invocation.directory_with_undecodable_files")
            for k in sorted(undecodable):
                if k[:-4] + "_cm.css" in im["after"]:
                    run.violation("an output was written for a stylesheet that cannot be decoded", case, details={"file": k})
        allowed = set()
        for k in css_inputs:
            allowed.add(k[:-4] + "_cm.css")
        # (1) inputs untouched (an earlier output that is already there is what the run is expected to replace)
        for k, v in im["before"].items():
            if im["after"].get(k) != v and k not in allowed:
                run.violation("an input file was modified or removed", case, details={"file": k})
        # (2) nothing but <name>_cm.css beside each processed input, and the report in the working directory
        new = [k for k in im["after"] if k not in im["before"]]
        for k in new:
            if k not in allowed:
                run.violation("a file other than <name>_cm.css was created beside the inputs", case, details={"file": k})
        for k in im["work"]:
            if k != "cm_colors_report.html":
                run.violation("a file other than the HTML report was created in the working directory", case, details={"file": k})
        if ("cm_colors_report.html" in im["work"]) != (so["tuned"] > 0):
            run.violation("the HTML report is not written exactly when something was adjusted", case, details={"report": "cm_colors_report.html" in im["work"], "adjusted": so["tuned"]})
        # (3) structure preserved
        cards = im.get("cards") or []
        adjusted = {}
        for c in cards:
            adjusted.setdefault(c.get("file"), set()).add(c.get("selector"))
        for k in css_inputs:
            if k in undecodable:
                continue
            text = files[k].decode("utf-8")
            ast_in = css_ast.ast_of_css(text)
            out = im["after"].get(k[:-4] + "_cm.css")
            skipped = has_unserialisable(ast_in)
            if out is None:
                run.hit("output.none")
                if not ("Error processing" in im["stderr"] and skipped):
                    run.violation("no output file was written for a valid stylesheet", case, details={"file": k, "stderr": im["stderr"][-300:]})
                else:
                    run.violation("no output file was written for a stylesheet containing a vendor hack", case,
                                  details={"file": k, "file_skipped_unserialisable": True})
                continue
            run.hit("output.written")
            try:
                ast_out = css_ast.ast_of_css(out[1].decode("utf-8"))
            except Exception as e:  # noqa
                run.violation("the output is not valid UTF-8 CSS", case, details={"file": k, "error": repr(e)}); continue
            if has_unserialisable(ast_out) and not skipped:
                run.violation("the output contains parse errors the input did not", case, details={"file": k})
            ci, co = count_comments(text), count_comments(out[1].decode("utf-8"))
            if ci != co:
                run.violation("comments were lost or added", case, details={"file": k, "comments_in_input": ci, "comments_in_output": co})
            base = k.rsplit("/", 1)[-1]
            sel_adj = adjusted.get(base, set())
            for (kind, path, sel, det) in cli_common.all_diffs(ast_in, ast_out):
                ok = False
                if kind == "value":
                    lname, name = det[0], det[1]
                    if lname == "color" and sel in sel_adj:
                        ok = True
                    elif name.startswith("--") and sel in (":root", "html") and cards:
                        ok = True
                if not ok:
                    run.violation("the output differs from the input outside the text colours of adjusted rules", case,
                                  details={"file": k, "difference": kind, "selector": sel, "detail": repr(det)[:300]})
    run.sample({"files": list(metas[0][0]), "target": metas[0][1], "stdout": impls[0]["stdout"][:200], "new_files": [k for k in impls[0]["after"] if k not in impls[0]["before"]]})
    run.assumptions = ["tinycss2's serialisation of untouched tokens is faithful (token values are compared, not their spelling)",
                       "the OS honours open(..., 'r'); writes are observed by byte snapshots and directory listings around each run"]


def replay(run, path):
    d = json.load(open(path))
    v = d.get("first")
    print(json.dumps(v or d.get("no_longer_checks"), default=repr)[:2500])
    return 1
