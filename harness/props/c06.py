"""C06 — output keeps the input's format and reads back as exactly the judged colour."""
import json
import re

import fmt_workers as fw
import valenc
from common import proof_status, repo_import
from opt_common import gen_pairs, pool as opool, rand_rgb, w_api
from proto import bitsf, fbits, run_lines
from spellings import OPAQUE_KINDS, OUT_FORMAT, TRANSLUCENT_KINDS, spell

MATCHERS = {}


def regen_leaves():
    """CmGen/Leaves.lean: the numeric functions of the source as they read now (the `source_*` theorems of
    CmProps/C06tie.lean identify them with the model)"""
    from translate import leaves, parsersrc, api, convstr
    leaves.generate()
    from translate import hexsrc
    hexsrc.generate()           # CmGen/HexSrc.lean: the tuple entry of rgb_to_hsl as it reads now (CmProps/C06hsl.lean)
    convstr.generate()          # CmGen/ConvStr.lean: rgb_to_hex, rgbint_to_string (and the hsl/hsla/rgba converters) as they read now (CmProps/C06conv.lean)
    api.generate()              # CmGen/Api.lean: the result part of ColorPair.make_readable as it reads now (CmProps/C06api.lean)
    parsersrc.generate()        # CmGen/ParserSrc.lean: detect_color_format, format_color, the string branch of parse_color_to_rgb (CmProps/C06fmt.lean)


def _t3(v):
    """'t:r,g,b' for a 3-sequence of ints, otherwise an encoding that matches nothing the model prints"""
    try:
        if len(v) == 3 and all(type(x) is int for x in v):
            return "t:%d,%d,%d" % tuple(v)
    except TypeError:
        pass
    return "x:" + repr(v)


def enc_out(out):
    if isinstance(out, (tuple, list)):
        return _t3(out)
    m = fw.HSL_RE.match(out) if isinstance(out, str) else None
    if m and out.startswith("hsl("):
        try:
            return "h:" + ",".join(fbits(float(x)) for x in m.groups())
        except ValueError:
            return "s:" + out.encode().hex()
    return "s:" + out.encode().hex() if isinstance(out, str) else "x:" + repr(out)


def same_out(a, b):
    if a == b:
        return True
    if a.startswith("h:") and b.startswith("h:"):
        x = [bitsf(v) for v in a[2:].split(",")]; y = [bitsf(v) for v in b[2:].split(",")]
        return all(abs(p - q) <= 1e-12 * max(1.0, abs(p)) for p, q in zip(x, y))
    return False


def w_flags(case):
    """make_readable with show / save_report / both, in a private scratch directory with stdout and stderr captured"""
    import os
    import shutil
    import sys
    import tempfile
    from props.c17 import Capture
    text, bg, large, mode, very = case
    d = tempfile.mkdtemp(prefix="cmv_c06_")
    cwd = os.getcwd()
    os.chdir(d)
    res = {}
    try:
        sys.stdout = sys.__stdout__
        from cm_colors import ColorPair
        for name, kw in (("show", dict(show=True)), ("save_report", dict(save_report=True)), ("show+save_report", dict(show=True, save_report=True))):
            with Capture():
                try:
                    got = ColorPair(text, bg, bool(large)).make_readable(mode=mode, very_readable=bool(very), **kw)
                    if not (isinstance(got, tuple) and len(got) == 2):
                        res[name] = ("shape", repr(got)[:80], type(got).__name__)
                    elif got[0] is None:
                        res[name] = ("none", None, None)
                    else:
                        o = got[0]
                        res[name] = ("ok", tuple(o) if isinstance(o, (tuple, list)) else o if isinstance(o, str) else repr(o)[:80], type(o).__name__)
                except Exception as ex:  # noqa
                    res[name] = ("raise", type(ex).__name__ + ": " + str(ex)[:120], None)
    finally:
        os.chdir(cwd)
        shutil.rmtree(d, ignore_errors=True)
        sys.stdout = open(os.devnull, "w")
    return res


def check(run):
    run.proof = proof_status("C06", regenerate=regen_leaves)
    from translate import leaves as _leaves
    run.extra["source_translation"] = _leaves.summary()
    from translate import parsersrc as _psrc
    run.extra["source_translation_parser"] = _psrc.summary()
    q = run.quick()
    repo_import()
    run.rule = ("round trip: %s x formats {hex, rgb(), hsl(), tuple}, each output checked for shape, re-read by the "
                "library's parser and by tinycss2.color3, and compared with the model's formatter/reader; format mapping: "
                "pairs x every input spelling x modes x settings through make_readable (outcomes unchanged/fixed/failed). "
                "distinct = distinct (colour, format) resp. (pair, spelling, settings); all non-trivial"
                % ("120k random colours + every colour of a 9^3 lattice incl. channels 0 and 255 + all greys" if q else "all 16,777,216 colours (exhaustive)"))
    with fw.pool() as p:
        if q:
            edge = [0, 1, 2, 51, 127, 128, 204, 254, 255]
            cols = [rand_rgb(run.rng) for _ in range(120000)] + [(r, g, b) for r in edge for g in edge for b in edge] + [(v, v, v) for v in range(256)]
            cols = list(dict.fromkeys(cols))
            slabs = [("list", cols[i:i + 4000]) for i in range(0, len(cols), 4000)]
            nd = len(cols) * 4
        else:
            slabs = [("r", r) for r in range(256)]
            nd = (1 << 24) * 4
            run.exhaustive = True
        stats = p.map(fw.w_fmt, slabs)
    n = sum(s["n"] for s in stats)
    run.evaluations += n
    run.distinct_bulk += nd
    nviol = sum(s["nviol"] for s in stats); nbad = sum(s["nbad"] for s in stats)
    run.extra["roundtrip"] = {"colour_format_cases": n, "property_failures": nviol, "model_divergences": nbad}
    shown = 0
    byfmt = {}
    for s in stats:
        for (c, f, what) in s["viol"]:
            byfmt.setdefault((f, what.split(" %r" if False else " '")[0][:60]), []).append((c, what))
    for s in stats:
        for (c, f, what) in s["viol"]:
            if shown < 40:
                run.violation("format_color output (%s) is not read back as exactly the colour" % f, {"colour": list(c), "format": f}, got=what)
                shown += 1
    if nviol > shown:
        run.notes.append("%d round-trip failures in total (first %d reported)" % (nviol, shown))
    run.extra["roundtrip_failures_total"] = nviol
    for s in stats:
        for (c, f, i, m) in s["bad"][:3]:
            run.diverge("format_color+parse_color_to_rgb==Cm.Parse.formatColor+parseColor", {"colour": list(c), "format": f}, i, m)
    # ---- format mapping through make_readable
    napi = 900 if q else 20000
    pairs, _ = gen_pairs(run.rng, napi)
    cases, kinds = [], []
    for (t, b) in pairs:
        tk = run.rng.choice(OPAQUE_KINDS + TRANSLUCENT_KINDS)
        ts, tk = spell(run.rng, t, tk)
        bs, _ = spell(run.rng, b, run.rng.choice(OPAQUE_KINDS))
        cases.append((ts, bs, run.rng.randrange(2), run.rng.choice([0, 1, 2]), run.rng.randrange(2)))
        kinds.append(tk)
    with opool() as p:
        res = p.map(w_api, cases, chunksize=4)
    mo = run_lines([valenc.mr_line(*c) for c in cases], chunks=16)
    for c, k, r, m in zip(cases, kinds, res, mo):
        run.count(("mr", json.dumps(c, default=list)))
        if "raise" in r:
            run.violation("make_readable raised on a parseable pair", list(c), got=r["raise"]); continue
        if "invalid" in r:
            if m != "none":
                run.diverge("make_readable==Cm.ColorPair.makeReadable", list(c), "invalid", m)
            continue
        out, ok = r["out"], r["ok"]
        outcome = "unchanged" if r.get("rb_own") == r["t"] and ok else "fixed" if ok else "failed"
        run.hit("mapping.%s.%s" % (k, outcome))
        want = OUT_FORMAT[k]
        f = {"hex": "hex", "rgb": "rgb", "hsl": "hsl", "tuple": "rgb_tuple"}[want]
        if not fw.shape_ok(f, out) or r.get("out_type") != ("tuple" if f == "rgb_tuple" else "str"):
            run.violation("make_readable did not return the documented counterpart of the input's format",
                          list(c), input_kind=k, expected_format=want, returned=out, returned_type=r.get("out_type"), outcome=outcome)
        impl_line = enc_out(out) + (" 1" if ok else " 0")
        ms = m.rsplit(" ", 1)
        if not (len(ms) == 2 and same_out(enc_out(out), ms[0]) and ms[1] == ("1" if ok else "0")):
            run.diverge("make_readable==Cm.ColorPair.makeReadable", list(c), impl_line, m)
    # ---- the same mapping when the documented preview / report switches are on (the returned value is still make_readable's)
    nfl = 90 if q else 1500
    fl_cases = [(c, k) for c, k in zip(cases, kinds) if OUT_FORMAT[k] != "hex"][:nfl] + [(c, k) for c, k in zip(cases, kinds) if OUT_FORMAT[k] == "hex"][:nfl // 6]
    with opool() as p:
        fres = p.map(w_flags, [c for c, _ in fl_cases], chunksize=2)
    for (c, k), fr in zip(fl_cases, fres):
        want = OUT_FORMAT[k]
        f = {"hex": "hex", "rgb": "rgb", "hsl": "hsl", "tuple": "rgb_tuple"}[want]
        for name, got in fr.items():
            run.count(("mr_flags", name, json.dumps(c, default=list)))
            if got[0] == "raise":
                continue        # whether the preview may raise is C17's subject
            if got[0] == "none":
                continue        # invalid pair
            run.hit("mapping_flags.%s.%s" % (k, name))
            out, typ = got[1], got[2]
            if not fw.shape_ok(f, out) or typ != ("tuple" if f == "rgb_tuple" else "str"):
                run.violation("make_readable did not return the documented counterpart of the input's format (with %s)" % name,
                              list(c), input_kind=k, expected_format=want, returned=out, returned_type=typ)
    run.sample({"format_color": [[0, 0, 51], "hsl"], "make_readable": list(cases[0]), "result": [res[0].get("out"), res[0].get("ok")], "model": mo[0]})
    run.assumptions = ["CSS-conformant reader: tinycss2.color3 (channel = nearest 8-bit value)",
                       "repr(float) and float(str) are exact inverses on doubles (the decimal text of the three HSL numbers is not modelled)",
                       "double rounding inside rgb_to_hsl/hsl_to_rgb: the hsl() clause is decided by this sweep (exhaustive in the thorough tier), the exact-arithmetic round trip by theorem"]


def replay(run, path):
    d = json.load(open(path))
    v = d.get("first")
    print(json.dumps(v or d.get("no_longer_checks"), default=repr)[:1500])
    if not v or "colour" not in (v.get("case") or {}):
        return 1
    repo_import()
    from cm_colors.core import color_parser as cp
    c, f = tuple(v["case"]["colour"]), v["case"]["format"]
    out = cp.format_color(c, f)
    try:
        own = cp.parse_color_to_rgb(out)
    except Exception as e:  # noqa
        own = repr(e)
    from opt_common import css_read
    print("now: format_color ->", out, "| own reader ->", own, "| CSS reader ->", css_read(out) if isinstance(out, str) else out)
    return 0 if own == c else 1
