"""C01 — make_readable's success flag is exactly the WCAG verdict on the returned colour."""
import json

import wcag_ref
from common import proof_status
from opt_common import gen_caf_cases, gen_pairs, correspond_caf, pool, thresholds, w_api, w_caf
from spellings import OPAQUE_KINDS, TRANSLUCENT_KINDS, spell

MATCHERS = {}


def regen_leaves():
    """CmGen/Leaves.lean: the numeric functions and constants of the source as they read now (the `source_*`
    theorems of CmProps/C01tie.lean identify them with the model)"""
    from translate import leaves, optimiser, api
    leaves.generate()
    optimiser.generate()
    api.generate()              # CmGen/Api.lean: make_readable as it reads now (CmProps/C01cap.lean states the property about that image)
_CERT = {}
RAT = {3.0: (3, 1), 4.5: (9, 2), 7.0: (7, 1)}


def certify(queries):
    """verdicts `ratio(a, b) >= thr` by the proved reference Cm.certVerdict (certVerdict_sound); an
    undecided enclosure (never observed) falls back to the 60-digit decimal evaluation"""
    from proto import run_lines
    qs = [q for q in set(queries) if q not in _CERT]
    if not qs:
        return
    out = run_lines(["cert %d %d %d %d %d %d %d %d" % (tuple(a) + tuple(b) + RAT[thr]) for a, b, thr in qs], chunks=8)
    for q, o in zip(qs, out):
        _CERT[q] = (o == "true") if o in ("true", "false") else wcag_ref.meets(q[0], q[1], q[2])


def meets(a, b, thr):
    key = (tuple(a), tuple(b), thr)
    if key not in _CERT:
        certify([key])
    v = _CERT[key]
    assert v == wcag_ref.meets(a, b, thr), "certified verdict and decimal reference disagree on %r" % (key,)
    return v


def eval_skeleton(run, case, res):
    """property predicate on check_and_fix_contrast's own result"""
    t, b, large, mode, very = case
    if res[0] == "raise":
        run.violation("check_and_fix_contrast raised on a valid pair", list(case), got=res[1])
        return
    rgb, ok = res
    mn, _ = thresholds(large, very)
    want = meets(rgb, b, mn)
    tag = "mode%d.%s" % (mode if mode in (0, 2) else 1, "ok" if ok else "fail")
    run.hit(tag)
    run.hit("table.%s%s" % ("large" if large else "normal", ".very" if very else ""))
    if tuple(rgb) == tuple(t):
        run.hit("returned.unchanged")
    if bool(ok) != want:
        run.violation("success flag differs from the WCAG verdict on the returned colour (check_and_fix_contrast)",
                      list(case), returned=list(rgb), flag=ok, verdict=want, ratio=str(wcag_ref.ratio(rgb, b))[:12], minimum=mn)


def eval_api(run, r):
    case = r["case"]
    text_sp, bg_sp, large, mode, very = case
    if "raise" in r:
        run.violation("make_readable raised on a parseable pair", case, got=r["raise"])
        return
    if "invalid" in r:
        run.hit("api.invalid_spelling")
        return
    out, ok = r["out"], r["ok"]
    mn, _ = thresholds(large, very)
    if isinstance(out, tuple):
        rb = out
        run.hit("readback.tuple")
        if not (len(out) == 3 and all(type(x) is int and 0 <= x <= 255 for x in out)):
            run.violation("the returned tuple is not a colour (three ints in 0..255)", case, returned=repr(out))
            return
    else:
        rb = r.get("rb_css")
        run.hit("readback.css")
        if rb is None:
            run.violation("returned colour is not readable by a CSS consumer", case, returned=out)
            return
    want = meets(rb, r["b"], mn)
    run.hit("api.%s" % ("ok" if ok else "fail"))
    if bool(ok) != want:
        run.violation("success flag differs from the WCAG verdict on the returned colour as a CSS consumer reads it (make_readable)",
                      case, returned=out, readback=list(rb), bg=list(r["b"]), flag=ok, verdict=want,
                      ratio=str(wcag_ref.ratio(rb, r["b"]))[:12], minimum=mn)


def check(run):
    run.proof = proof_status("C01", regenerate=regen_leaves)
    from translate import leaves as _leaves
    run.extra["source_translation"] = _leaves.summary()
    from translate import optimiser as _opt
    run.extra["source_translation_optimiser"] = _opt.summary()
    q = run.quick()
    n_caf = 500 if q else 12000
    n_api = 700 if q else 20000
    run.rule = ("pairs: uniform / grey x grey / named x named / bisected to within one blend step of 0.72x..1.03x each "
                "threshold / text≈bg; x mode x large x very_readable; API cases additionally x input spelling of text and "
                "background. distinct = distinct (pair, settings, spellings); non-trivial = the pair does not already "
                "meet the minimum (the optimiser actually runs)")
    with pool() as p:
        cases, kinds = gen_caf_cases(run.rng, n_caf)
        impl = correspond_caf(run, cases, p)
        certify([(tuple(res[0]), tuple(c[1]), thresholds(c[2], c[4])[0]) for c, res in zip(cases, impl) if res[0] != "raise"])
        for c, k, res in zip(cases, kinds, impl):
            eval_skeleton(run, c, res)
            nontrivial = res[0] != "raise" and not (tuple(res[0]) == tuple(c[0]) and res[1])
            run.count(("caf",) + tuple(map(tuple, c[:2])) + tuple(c[2:]), nontrivial)
            run.hit("gen." + k)
        run.sample({"check_and_fix_contrast": list(cases[0]), "impl": list(impl[0])})
        # API level, all spellings
        pairs, kinds = gen_pairs(run.rng, n_api)
        api_cases = []
        for (t, b) in pairs:
            tk = run.rng.choice(OPAQUE_KINDS + TRANSLUCENT_KINDS)
            bk = run.rng.choice(OPAQUE_KINDS)
            ts, tk = spell(run.rng, t, tk)
            bs, bk = spell(run.rng, b, bk)
            run.hit("spelling." + tk)
            api_cases.append((ts, bs, run.rng.randrange(2), run.rng.choice([0, 1, 1, 2]), run.rng.randrange(2)))
        res = p.map(w_api, api_cases, chunksize=4)
        def _rgb3(v):
            return isinstance(v, tuple) and len(v) == 3 and all(type(x) is int and 0 <= x <= 255 for x in v)
        certify([(tuple(r["out"]) if isinstance(r["out"], tuple) else tuple(r["rb_css"]), tuple(r["b"]), thresholds(r["case"][2], r["case"][4])[0])
                 for r in res if "out" in r and (_rgb3(r["out"]) if isinstance(r["out"], tuple) else bool(r.get("rb_css")))])
        for r in res:
            eval_api(run, r)
            nontrivial = "out" in r and not (r.get("ok") and r.get("rb_own") == r.get("t"))
            run.count(("api", json.dumps(r["case"], default=list)), nontrivial)
        run.sample({"make_readable": api_cases[0], "result": {k: v for k, v in res[0].items() if k != "case"}})
    run.extra["correspondence"] = {"check_and_fix_contrast==Cm.checkAndFixF": n_caf}
    run.extra["certified_verdicts"] = len(_CERT)
    run.assumptions = ["reference verdict: Cm.certVerdict (proved sound over the reals: certVerdict_sound), cross-checked on every case against a 60-digit decimal evaluation of the WCAG 2 formula (harness/wcag_ref.py)",
                       "CSS read-back of returned strings by tinycss2.color3 (independent CSS Color 3 reader)"]


def replay(run, path):
    from opt_common import _init_worker
    d = json.load(open(path))
    v = d.get("first")
    if not v:
        print("nothing to replay:", d.get("no_longer_checks"))
        return 1
    _init_worker()
    case = v["case"]
    if isinstance(case[0], (list, tuple)) and len(case[0]) == 3 and all(isinstance(x, int) for x in case[0]) and "readback" not in v:
        res = w_caf((tuple(case[0]), tuple(case[1])) + tuple(case[2:]))
        eval_skeleton(run, (tuple(case[0]), tuple(case[1])) + tuple(case[2:]), res)
    else:
        c = tuple(tuple(x) if isinstance(x, list) and i < 2 and d.get("tuple_inputs") else x for i, x in enumerate(case))
        eval_api(run, w_api(c))
    import sys
    sys.stdout = sys.__stdout__
    for x in run.violations:
        print("REPRODUCED:", json.dumps(x, default=repr))
    return 1 if run.violations else 0
