"""C01 — make_readable's success flag is exactly the WCAG verdict on the returned colour."""
import json

import wcag_ref
from common import proof_status
from opt_common import gen_caf_cases, gen_pairs, correspond_caf, pool, thresholds, w_api, w_caf
from spellings import OPAQUE_KINDS, TRANSLUCENT_KINDS, spell

MATCHERS = {}


def eval_skeleton(run, case, res):
    """property predicate on check_and_fix_contrast's own result"""
    t, b, large, mode, very = case
    if res[0] == "raise":
        run.violation("check_and_fix_contrast raised on a valid pair", list(case), got=res[1])
        return
    rgb, ok = res
    mn, _ = thresholds(large, very)
    want = wcag_ref.meets(rgb, b, mn)
    tag = "mode%d.%s" % (mode if mode in (0, 2) else 1, "ok" if ok else "fail")
    run.hit(tag)
    run.hit("table.%s%s" % ("large" if large else "normal", ".very" if very else ""))
    if tuple(rgb) == tuple(t):
        run.hit("returned.unchanged")
    if bool(ok) != want:
        run.violation("success flag differs from the WCAG verdict on the returned colour (check_and_fix_contrast)",
                      list(case), returned=list(rgb), flag=ok, verdict=want, ratio=str(wcag_ref.ratio(rgb, b))[:12], minimum=mn)


def eval_api(run, r):
    case = r["case"]
    text_sp, bg_sp, large, mode, very = case
    if "raise" in r:
        run.violation("make_readable raised on a parseable pair", case, got=r["raise"])
        return
    if "invalid" in r:
        run.hit("api.invalid_spelling")
        return
    out, ok = r["out"], r["ok"]
    mn, _ = thresholds(large, very)
    if isinstance(out, tuple):
        rb = out
        run.hit("readback.tuple")
    else:
        rb = r.get("rb_css")
        run.hit("readback.css")
        if rb is None:
            run.violation("returned colour is not readable by a CSS consumer", case, returned=out)
            return
    want = wcag_ref.meets(rb, r["b"], mn)
    run.hit("api.%s" % ("ok" if ok else "fail"))
    if bool(ok) != want:
        run.violation("success flag differs from the WCAG verdict on the returned colour as a CSS consumer reads it (make_readable)",
                      case, returned=out, readback=list(rb), bg=list(r["b"]), flag=ok, verdict=want,
                      ratio=str(wcag_ref.ratio(rb, r["b"]))[:12], minimum=mn)


def check(run):
    run.proof = proof_status("C01")
    q = run.quick()
    n_caf = 500 if q else 12000
    n_api = 700 if q else 20000
    run.rule = ("pairs: uniform / grey x grey / named x named / bisected to within one blend step of 0.72x..1.03x each "
                "threshold / text≈bg; x mode x large x very_readable; API cases additionally x input spelling of text and "
                "background. distinct = distinct (pair, settings, spellings); non-trivial = the pair does not already "
                "meet the minimum (the optimiser actually runs)")
    with pool() as p:
        cases, kinds = gen_caf_cases(run.rng, n_caf)
        impl = correspond_caf(run, cases, p)
        for c, k, res in zip(cases, kinds, impl):
            eval_skeleton(run, c, res)
            nontrivial = res[0] != "raise" and not (tuple(res[0]) == tuple(c[0]) and res[1])
            run.count(("caf",) + tuple(map(tuple, c[:2])) + tuple(c[2:]), nontrivial)
            run.hit("gen." + k)
        run.sample({"check_and_fix_contrast": list(cases[0]), "impl": list(impl[0])})
        # API level, all spellings
        pairs, kinds = gen_pairs(run.rng, n_api)
        api_cases = []
        for (t, b) in pairs:
            tk = run.rng.choice(OPAQUE_KINDS + TRANSLUCENT_KINDS)
            bk = run.rng.choice(OPAQUE_KINDS)
            ts, tk = spell(run.rng, t, tk)
            bs, bk = spell(run.rng, b, bk)
            run.hit("spelling." + tk)
            api_cases.append((ts, bs, run.rng.randrange(2), run.rng.choice([0, 1, 1, 2]), run.rng.randrange(2)))
        res = p.map(w_api, api_cases, chunksize=4)
        for r in res:
            eval_api(run, r)
            nontrivial = "out" in r and not (r.get("ok") and r.get("rb_own") == r.get("t"))
            run.count(("api", json.dumps(r["case"], default=list)), nontrivial)
        run.sample({"make_readable": api_cases[0], "result": {k: v for k, v in res[0].items() if k != "case"}})
    run.extra["correspondence"] = {"check_and_fix_contrast==Cm.checkAndFixF": n_caf}
    run.assumptions = ["reference verdict: 60-digit decimal evaluation of the WCAG 2 formula (harness/wcag_ref.py)",
                       "CSS read-back of returned strings by tinycss2.color3 (independent CSS Color 3 reader)"]


def replay(run, path):
    from opt_common import _init_worker
    d = json.load(open(path))
    v = d.get("first")
    if not v:
        print("nothing to replay:", d.get("no_longer_checks"))
        return 1
    _init_worker()
    case = v["case"]
    if isinstance(case[0], (list, tuple)) and len(case[0]) == 3 and all(isinstance(x, int) for x in case[0]) and "readback" not in v:
        res = w_caf((tuple(case[0]), tuple(case[1])) + tuple(case[2:]))
        eval_skeleton(run, (tuple(case[0]), tuple(case[1])) + tuple(case[2:]), res)
    else:
        c = tuple(tuple(x) if isinstance(x, list) and i < 2 and d.get("tuple_inputs") else x for i, x in enumerate(case))
        eval_api(run, w_api(c))
    import sys
    sys.stdout = sys.__stdout__
    for x in run.violations:
        print("REPRODUCED:", json.dumps(x, default=repr))
    return 1 if run.violations else 0
