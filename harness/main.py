#!/venv/bin/python
"""./check <ID> [--tier quick|thorough] [--replay file]"""
import argparse
import importlib
import os
import sys
import traceback

sys.path.insert(0, os.path.dirname(os.path.abspath(__file__)))
import common  # noqa


def main():
    ap = argparse.ArgumentParser()
    ap.add_argument("pid")
    ap.add_argument("--tier", default=os.environ.get("VERIF_TIER", "quick"), choices=["quick", "thorough"])
    ap.add_argument("--replay")
    a = ap.parse_args()
    seed = int(os.environ.get("VERIF_SEED", "0") or 0)
    pid = a.pid.upper()
    os.environ["VERIF_TIER"] = a.tier
    try:
        mod = importlib.import_module("props." + pid.lower())
    except ModuleNotFoundError:
        print("no check for", pid)
        return 2
    run = common.Run(pid, a.tier, seed)
    try:
        if a.replay:
            return mod.replay(run, a.replay)
        mod.check(run)
        return common.finish(run, getattr(mod, "MATCHERS", {}))
    except common.InfraError as e:
        print("INFRASTRUCTURE ERROR:", e)
        return 2
    except Exception as exc:  # a bug in the harness is not a verdict ...
        traceback.print_exc()
        # ... unless it is the implementation's behaviour that the harness could not digest: if the same check runs through on
        # the committed state of the repository (HEAD, in a scratch worktree), the exception is caused by the working-tree
        # change, and a correspondence that cannot even be evaluated no longer checks.
        if not a.replay and os.environ.get("VERIF_NO_FALLBACK") != "1" and pristine_passes(pid, a.tier):
            os.makedirs(common.REPLAYS, exist_ok=True)
            rp = os.path.join(common.REPLAYS, "%s_%d.json" % (pid, seed))
            import json
            with open(rp, "w") as f:
                json.dump({"property": pid, "seed": seed, "tier": a.tier,
                           "no_longer_checks": ["the harness could not evaluate the implementation's behaviour (it can on the committed HEAD): "
                                                + "".join(traceback.format_exception_only(type(exc), exc)).strip()[:400]],
                           "traceback": traceback.format_exc()[-2000:]}, f, indent=1)
            try:
                if run.proof is None:
                    run.proof = common.proof_status(pid)
                run.rule = run.rule or "the run stopped before the cases were evaluated"
                common.write_evidence(run, 1, ["the harness could not evaluate the implementation's behaviour"])
            except Exception:  # noqa
                pass
            print("VIOLATION property=%s replay=%s no-failing-input-found" % (pid, rp))
            return 1
        print("INFRASTRUCTURE ERROR: harness exception")
        return 2


def pristine_passes(pid, tier):
    """does this check run through (exit 0) against the committed HEAD of the repository?"""
    import shutil
    import subprocess
    import tempfile
    repo = common.REPO
    d = tempfile.mkdtemp(prefix="cmv_pristine_")
    wt = os.path.join(d, "repo")
    try:
        if subprocess.run(["git", "-C", repo, "worktree", "add", "--detach", "-q", wt, "HEAD"], stdout=subprocess.DEVNULL, stderr=subprocess.DEVNULL).returncode != 0:
            return False
        env = dict(os.environ, CM_REPO=wt, VERIF_NO_FALLBACK="1")
        r = subprocess.run([sys.executable, os.path.abspath(__file__), pid, "--tier", tier], env=env, stdout=subprocess.DEVNULL, stderr=subprocess.DEVNULL, timeout=7200)
        return r.returncode == 0
    except Exception:  # noqa
        return False
    finally:
        subprocess.run(["git", "-C", repo, "worktree", "remove", "--force", wt], stdout=subprocess.DEVNULL, stderr=subprocess.DEVNULL)
        shutil.rmtree(d, ignore_errors=True)


if __name__ == "__main__":
    sys.exit(main())
