#!/venv/bin/python
"""./check <ID> [--tier quick|thorough] [--replay file]"""
import argparse
import importlib
import os
import sys
import traceback

sys.path.insert(0, os.path.dirname(os.path.abspath(__file__)))
import common  # noqa


def main():
    ap = argparse.ArgumentParser()
    ap.add_argument("pid")
    ap.add_argument("--tier", default=os.environ.get("VERIF_TIER", "quick"), choices=["quick", "thorough"])
    ap.add_argument("--replay")
    a = ap.parse_args()
    seed = int(os.environ.get("VERIF_SEED", "0") or 0)
    pid = a.pid.upper()
    os.environ["VERIF_TIER"] = a.tier
    try:
        mod = importlib.import_module("props." + pid.lower())
    except ModuleNotFoundError:
        print("no check for", pid)
        return 2
    run = common.Run(pid, a.tier, seed)
    try:
        if a.replay:
            return mod.replay(run, a.replay)
        mod.check(run)
        return common.finish(run, getattr(mod, "MATCHERS", {}))
    except common.InfraError as e:
        print("INFRASTRUCTURE ERROR:", e)
        return 2
    except Exception:  # a bug in the harness is not a verdict
        traceback.print_exc()
        print("INFRASTRUCTURE ERROR: harness exception")
        return 2


if __name__ == "__main__":
    sys.exit(main())
