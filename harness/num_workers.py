"""Implementation-side workers for the numeric leaves (C05, C10, C11): each worker evaluates the
implementation on a slab of inputs, pipes the same inputs to the model driver and compares locally,
so that exhaustive 2^24 sweeps parallelise end to end."""
import math
import os
import sys

from common import repo_import
from proto import bitsf, fbits, run_lines

_m = {}
TOL = 1e-12


def _init():
    sys.stdout = open(os.devnull, "w")
    repo_import()
    from cm_colors.core import contrast, conversions, color_metrics
    _m.update(ct=contrast, cv=conversions, cm=color_metrics)


def close(a, b, tol=TOL):
    if a == b:
        return True
    if a != a or b != b or math.isinf(a) or math.isinf(b):
        return False
    return abs(a - b) <= tol * max(1.0, abs(a), abs(b))


def colours_of_slab(slab):
    """slab = ('r', r) all colours with that red value; ('list', [...]) explicit"""
    if slab[0] == "r":
        r = slab[1]
        return [(r, g, b) for g in range(256) for b in range(256)]
    return [tuple(c) for c in slab[1]]


def _cmp_floats(impl_vals, model_line, n):
    """returns (bit_identical, within_tol, bad) for one case"""
    ms = model_line.split()
    if len(ms) < n:
        return (False, False, True)
    bit = all(fbits(v) == m for v, m in zip(impl_vals, ms))
    if bit:
        return (True, True, False)
    ok = all(close(float(v), bitsf(m)) for v, m in zip(impl_vals, ms))
    return (False, ok, not ok)


def w_lum(slab):
    cols = colours_of_slab(slab)
    f = _m["ct"].calculate_relative_luminance
    out = run_lines(["lum %d %d %d" % c for c in cols], chunks=1)
    st = {"n": len(cols), "bit": 0, "tol": 0, "bad": []}
    for c, o in zip(cols, out):
        try:
            v = f(c)
        except Exception as e:  # noqa
            st["bad"].append((c, "raise " + type(e).__name__, o)); continue
        b, t, bad = _cmp_floats([v], o, 1)
        st["bit"] += b; st["tol"] += (t and not b)
        if bad or not (0.0 <= v <= 1.0):
            st["bad"].append((c, v, bitsf(o.split()[0])))
    st["bad"] = st["bad"][:5] + [len(st["bad"])]
    return st


def w_oklch(slab):
    """forward conversion, ranges, round trip, safe variant"""
    cols = colours_of_slab(slab)
    cv = _m["cv"]
    out = run_lines(["okrt %d %d %d" % c for c in cols], chunks=1)
    st = {"n": len(cols), "bit": 0, "tol": 0, "bad": [], "viol": [], "maxH": 0.0}
    for c, o in zip(cols, out):
        try:
            L, C, H = cv.rgb_to_oklch(c)
            back = tuple(cv.oklch_to_rgb((L, C, H)))
            safe = cv.rgb_to_oklch_safe(c)
        except Exception as e:  # noqa
            st["viol"].append(("raise", c, type(e).__name__)); continue
        ms = o.split()
        bit = fbits(L) == ms[0] and fbits(C) == ms[1] and fbits(H) == ms[2]
        if bit:
            st["bit"] += 1
        else:
            mL, mC, mH = bitsf(ms[0]), bitsf(ms[1]), bitsf(ms[2])
            # hue compared through (C cos H, C sin H) so that it is well conditioned
            ok = close(L, mL) and close(C, mC) and close(C * math.cos(math.radians(H)), mC * math.cos(math.radians(mH)), 1e-11) \
                and close(C * math.sin(math.radians(H)), mC * math.sin(math.radians(mH)), 1e-11)
            if ok:
                st["tol"] += 1
            else:
                st["bad"].append((c, (L, C, H), (mL, mC, mH)))
        if "%d %d %d" % back != " ".join(ms[3:6]):
            st["bad"].append((c, "roundtrip impl %s model %s" % (back, ms[3:6])))
        if not (0.0 <= L <= 1.0 and C >= 0.0 and 0.0 <= H < 360.0):
            st["viol"].append(("range", c, (L, C, H)))
        if back != tuple(c):
            st["viol"].append(("roundtrip", c, back))
        if tuple(safe) != (L, C, H):
            st["viol"].append(("safe!=plain", c, safe))
        st["maxH"] = max(st["maxH"], H)
    st["bad"] = st["bad"][:5] + [len(st["bad"])]
    st["viol"] = st["viol"][:5] + [len(st["viol"])]
    return st


def w_lab(slab):
    cols = colours_of_slab(slab)
    cv = _m["cv"]
    out = run_lines(["lab %d %d %d" % c for c in cols], chunks=1)
    outx = run_lines(["xyz %d %d %d" % c for c in cols], chunks=1)
    st = {"n": len(cols), "bit": 0, "tol": 0, "bad": [], "viol": []}
    for c, o, ox in zip(cols, out, outx):
        try:
            xyz = cv.rgb_to_xyz(c)
            lab = cv.rgb_to_lab(c)
            lab2 = cv.xyz_to_lab(xyz)
        except Exception as e:  # noqa
            st["viol"].append(("raise", c, type(e).__name__)); continue
        b1, t1, bad1 = _cmp_floats(lab, o, 3)
        b2, t2, bad2 = _cmp_floats(xyz, ox, 3)
        st["bit"] += (b1 and b2); st["tol"] += ((t1 and t2) and not (b1 and b2))
        if bad1 or bad2:
            st["bad"].append((c, lab, o))
        if tuple(lab) != tuple(lab2):
            st["viol"].append(("rgb_to_lab != xyz_to_lab(rgb_to_xyz)", c, lab, lab2))
        if not (0.0 <= lab[0] <= 100.0) or any(v != v or math.isinf(v) for v in lab):
            st["viol"].append(("range", c, lab))
    st["bad"] = st["bad"][:5] + [len(st["bad"])]
    st["viol"] = st["viol"][:5] + [len(st["viol"])]
    return st


def w_ratio(pairs):
    f = _m["ct"].calculate_contrast_ratio
    out = run_lines(["ratio %d %d %d %d %d %d" % (tuple(a) + tuple(b)) for a, b in pairs], chunks=1)
    st = {"n": len(pairs), "bit": 0, "tol": 0, "bad": [], "viol": [], "vals": []}
    for (a, b), o in zip(pairs, out):
        try:
            v = f(tuple(a), tuple(b)); w = f(tuple(b), tuple(a))
        except Exception as e:  # noqa
            st["viol"].append(("raise", a, b, type(e).__name__)); continue
        bt, t, bad = _cmp_floats([v], o, 1)
        st["bit"] += bt; st["tol"] += (t and not bt)
        if bad:
            st["bad"].append((a, b, v, bitsf(o)))
        if v != w:
            st["viol"].append(("asymmetric", a, b, v, w))
        if not (1.0 <= v <= 21.0):
            st["viol"].append(("range", a, b, v))
        if tuple(a) == tuple(b) and v != 1.0:
            st["viol"].append(("self!=1", a, b, v))
        st["vals"].append(v)
    st["bad"] = st["bad"][:5] + [len(st["bad"])]
    st["viol"] = st["viol"][:5] + [len(st["viol"])]
    return st


def w_de(pairs):
    f = _m["cm"].calculate_delta_e_2000
    out = run_lines(["de %d %d %d %d %d %d" % (tuple(a) + tuple(b)) for a, b in pairs], chunks=1)
    st = {"n": len(pairs), "bit": 0, "tol": 0, "bad": [], "viol": [], "vals": []}
    for (a, b), o in zip(pairs, out):
        try:
            v = f(tuple(a), tuple(b)); w = f(tuple(b), tuple(a))
        except Exception as e:  # noqa
            st["viol"].append(("raise", a, b, type(e).__name__)); st["vals"].append(None); continue
        bt, t, bad = _cmp_floats([v], o, 1)
        st["bit"] += bt; st["tol"] += (t and not bt)
        if bad:
            st["bad"].append((a, b, v, bitsf(o)))
        if v != w:
            st["viol"].append(("asymmetric", a, b, v, w))
        if not (v >= 0.0) or math.isinf(v):
            st["viol"].append(("negative or non-finite", a, b, v))
        if (tuple(a) == tuple(b)) != (v == 0.0):
            st["viol"].append(("zero iff identical fails", a, b, v))
        st["vals"].append(v)
    st["bad"] = st["bad"][:5] + [len(st["bad"])]
    st["viol"] = st["viol"][:5] + [len(st["viol"])]
    return st


def pool(n=None):
    import multiprocessing as mp
    return mp.get_context("fork").Pool(n or min(16, os.cpu_count() or 4), initializer=_init)


def merge(run, name, stats, distinct=None):
    tot = {"n": 0, "bit": 0, "tol": 0, "bad": 0, "viol": 0}
    bads, viols = [], []
    for st in stats:
        tot["n"] += st["n"]; tot["bit"] += st["bit"]; tot["tol"] += st["tol"]
        tot["bad"] += st["bad"][-1]; bads += st["bad"][:-1]
        if "viol" in st:
            tot["viol"] += st["viol"][-1]; viols += st["viol"][:-1]
    run.extra.setdefault("leaf_correspondence", {})[name] = {
        "cases": tot["n"], "bit_identical": tot["bit"], "within_1e-12": tot["tol"], "diverging": tot["bad"]}
    run.evaluations += tot["n"]
    run.distinct_bulk += tot["n"] if distinct is None else distinct
    return tot, bads, viols
