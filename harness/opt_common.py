"""Generators, implementation-side workers and the model correspondence for the optimiser
family of properties (C01, C02, C03, C04, C16)."""
import math
import multiprocessing as mp
import os
import sys

from common import REPO_SRC, repo_import
from proto import fbits, run_lines

NAMED_SAMPLE = None


def thresholds(large, very):
    """(minimum, target) as the property states them"""
    if very:
        return (4.5, 4.5) if large else (7.0, 7.0)
    return (3.0, 4.5) if large else (4.5, 7.0)


# ------------------------------------------------------------------ worker side

_impl = {}


def _init_worker():
    sys.stdout = open(os.devnull, "w")  # the library must stay silent; anything it prints is ignored here
    repo_import()
    from cm_colors.core import optimisation, contrast, color_metrics, conversions, color_parser, colors
    _impl.update(opt=optimisation, ct=contrast, cm=color_metrics, cv=conversions, cp=color_parser, colors=colors)


def pool(n=None):
    ctx = mp.get_context("fork")
    return ctx.Pool(n or min(16, os.cpu_count() or 4), initializer=_init_worker)


def _norm_rgb(x):
    if isinstance(x, str):
        return tuple(_impl["cp"].parse_color_to_rgb(x))
    return tuple(int(v) for v in x)


def _with_history(case):
    """every third case (chosen by a checksum of the case, so reproducibly) is evaluated after an earlier call for the same pair
    with other settings — the properties quantify over every call, whatever came before it (a result kept from an earlier call
    under a key that forgets one of the settings shows up here, in the check of the property it breaks)"""
    import zlib
    return zlib.crc32(repr(case).encode()) % 3 == 0


def w_caf(case):
    t, b, large, mode, very = case
    if _with_history(case):
        try:
            _impl["opt"].check_and_fix_contrast(tuple(t), tuple(b), bool(large), (mode + 1) % 3, not bool(very))
            _impl["opt"].check_and_fix_contrast(tuple(t), tuple(b), not bool(large), mode, bool(very))
            _impl["opt"].check_and_fix_contrast(tuple(t), tuple(b), bool(large), (mode + 2) % 3, bool(very))   # same settings, other modes
            _impl["opt"].check_and_fix_contrast(tuple(t), tuple(b), bool(large), (mode + 1) % 3, bool(very))
        except Exception:  # noqa
            pass
    try:
        r, ok = _impl["opt"].check_and_fix_contrast(tuple(t), tuple(b), bool(large), mode, bool(very))
        return (_norm_rgb(r), bool(ok))
    except Exception as e:  # noqa
        return ("raise", type(e).__name__ + ": " + str(e)[:200])


def css_read(s):
    """independent CSS Color 3 reader (tinycss2.color3): string -> rgb tuple or None"""
    import tinycss2.color3 as c3
    if not isinstance(s, str):
        return None
    try:
        c = c3.parse_color(s)
    except Exception:
        return None
    if c is None or c == "currentColor" or c.alpha != 1:
        return None
    # CSS: channel = round-half-up of 255*x is not mandated; nearest 8-bit is what the property says
    return tuple(int(math.floor(255 * v + 0.5)) for v in (c.red, c.green, c.blue))


def css_read_over(s, bg):
    """what a CSS consumer displays for the colour string `s` on the opaque background `bg`: the colour itself when opaque,
    its exact composite (rounded half-even per channel) when translucent; None when it is not a CSS Color 3 value"""
    import tinycss2.color3 as c3
    from fractions import Fraction
    if not isinstance(s, str):
        return None
    try:
        c = c3.parse_color(s)
    except Exception:
        return None
    if c is None or c == "currentColor":
        return None
    if c.alpha == 1:
        return tuple(int(math.floor(255 * v + 0.5)) for v in (c.red, c.green, c.blue))
    a = Fraction(repr(float(c.alpha)))
    out = []
    for v, k in zip((c.red, c.green, c.blue), bg):
        x = Fraction(repr(float(v))) * 255 * a + Fraction(k) * (1 - a)
        n = x.numerator // x.denominator
        f = x - n
        out.append(n + 1 if f > Fraction(1, 2) or (f == Fraction(1, 2) and n % 2 == 1) else n)
    return tuple(out)


def w_api(case):
    """ColorPair(text, bg, large).make_readable(mode, very) plus read-back of the result"""
    text_sp, bg_sp, large, mode, very = case
    colors = _impl["colors"]
    out = {"case": case}
    try:
        if _with_history(case):
            # earlier calls on *other* objects for the same values: the text value on its own (no background), its informal string
            # spelling when it is a tuple / list, the same pair at the other text size and in another mode
            out["history"] = True
            try:
                if isinstance(text_sp, (tuple, list)):
                    colors.ColorPair(str(text_sp), bg_sp, bool(large)).make_readable(mode=mode, very_readable=bool(very))
                colors.Color(text_sp)
                colors.ColorPair(text_sp, bg_sp, not bool(large)).make_readable(mode=mode, very_readable=bool(very))
                colors.ColorPair(text_sp, bg_sp, bool(large)).make_readable(mode=(mode + 1) % 3, very_readable=bool(very))
            except Exception:  # noqa
                pass
        pair = colors.ColorPair(text_sp, bg_sp, bool(large))
        if not pair.is_valid:
            out["invalid"] = pair.errors
            return out
        out["t"] = tuple(pair.text.rgb)
        out["b"] = tuple(pair.bg.rgb)
        if _with_history(case):
            # … and on the same pair object, asked first with the other settings
            try:
                pair.make_readable(mode=(mode + 1) % 3, very_readable=not bool(very))
                pair.make_readable(mode=mode, very_readable=not bool(very))
                pair.make_readable(mode=(mode + 2) % 3, very_readable=bool(very))
            except Exception:  # noqa
                pass
        res, ok = pair.make_readable(mode=mode, very_readable=bool(very))
        out["out"] = res if not isinstance(res, (tuple, list)) else tuple(res)
        out["out_type"] = type(res).__name__
        out["ok"] = ok
        try:
            out["rb_own"] = tuple(_impl["cp"].parse_color_to_rgb(res))
        except Exception as e:  # noqa
            out["rb_own_err"] = type(e).__name__ + ": " + str(e)[:120]
        if isinstance(res, str):
            out["rb_css"] = css_read(res)
            if out["rb_css"] is None:
                # a translucent answer is judged as it is displayed: over the pair's own background
                shown = css_read_over(res, tuple(pair.bg.rgb))
                if shown is not None:
                    out["rb_css"] = shown
                    out["rb_translucent"] = True
        out["after"] = (tuple(pair.text.rgb), tuple(pair.bg.rgb), pair.large)
    except Exception as e:  # noqa
        out["raise"] = type(e).__name__ + ": " + str(e)[:200]
    return out


def w_ratio(pair):
    return _impl["ct"].calculate_contrast_ratio(tuple(pair[0]), tuple(pair[1]))


def w_de(pair):
    return _impl["cm"].calculate_delta_e_2000(tuple(pair[0]), tuple(pair[1]))


# ------------------------------------------------------------------ generators (parent side)

def _named():
    global NAMED_SAMPLE
    if NAMED_SAMPLE is None:
        repo_import()
        from cm_colors.core.named_colors import CSS_NAMED_COLORS
        from cm_colors.core.conversions import hex_to_rgb
        NAMED_SAMPLE = sorted((k, tuple(hex_to_rgb(v))) for k, v in CSS_NAMED_COLORS.items())
    return NAMED_SAMPLE


def rand_rgb(rng):
    return (rng.randrange(256), rng.randrange(256), rng.randrange(256))


def _scale(c, f, towards):
    return tuple(max(0, min(255, int(round(x + (towards - x) * f)))) for x in c)


def near_threshold_pair(rng, ratio_fn):
    """a pair whose contrast lies between 0.72x and 1.03x one of the thresholds, by bisection of a
    blend of the text towards the background (or away from it)"""
    thr = rng.choice([3.0, 4.5, 7.0])
    for _ in range(20):
        b = rand_rgb(rng) if rng.random() < 0.7 else rng.choice([(255, 255, 255), (0, 0, 0), (18, 18, 18), (250, 250, 250)])
        t0 = rand_rgb(rng)
        r0 = ratio_fn(t0, b)
        want = thr * rng.uniform(0.72, 1.03)
        if r0 < want:
            # push away from bg: towards black or white, whichever gives more contrast
            far = (0, 0, 0) if ratio_fn((0, 0, 0), b) > ratio_fn((255, 255, 255), b) else (255, 255, 255)
            if ratio_fn(far, b) < want:
                continue
            lo, hi = 0.0, 1.0   # fraction towards far
            for _ in range(12):
                mid = (lo + hi) / 2
                if ratio_fn(_scale(t0, mid, 0 if far == (0, 0, 0) else 255), b) < want:
                    lo = mid
                else:
                    hi = mid
            return _scale(t0, rng.choice([lo, hi]), 0 if far == (0, 0, 0) else 255), b
        else:
            # pull towards bg
            lo, hi = 0.0, 1.0
            for _ in range(12):
                mid = (lo + hi) / 2
                tt = tuple(int(round(x + (y - x) * mid)) for x, y in zip(t0, b))
                if ratio_fn(tt, b) > want:
                    lo = mid
                else:
                    hi = mid
            f = rng.choice([lo, hi])
            return tuple(int(round(x + (y - x) * f)) for x, y in zip(t0, b)), b
    return rand_rgb(rng), rand_rgb(rng)


_KNIFE = {}


def knife_edge_pairs(rng, n):
    """pairs whose contrast ratio is within 0.004 of a threshold (3.0, 4.5, 7.0), on both sides: where
    rounding the ratio, an exclusive comparison or a neighbouring colour changes the verdict"""
    repo_import()
    from cm_colors.core.contrast import calculate_contrast_ratio as ratio_fn
    out = []
    tries = 0
    while len(out) < n and tries < n * 400:
        tries += 1
        thr = rng.choice([3.0, 4.5, 7.0])
        b = rand_rgb(rng) if rng.random() < 0.6 else rng.choice([(255, 255, 255), (0, 0, 0), (250, 250, 250), (20, 20, 20)])
        base = rand_rgb(rng)
        # walk the text along the line towards black/white to get close, then fine-tune single channels
        far = (0, 0, 0) if ratio_fn((0, 0, 0), b) > ratio_fn((255, 255, 255), b) else (255, 255, 255)
        if ratio_fn(far, b) < thr or ratio_fn(base, b) > thr:
            continue
        lo, hi = 0.0, 1.0
        for _ in range(16):
            mid = (lo + hi) / 2
            t = tuple(int(round(x + (y - x) * mid)) for x, y in zip(base, far))
            if ratio_fn(t, b) < thr:
                lo = mid
            else:
                hi = mid
        t = tuple(int(round(x + (y - x) * hi)) for x, y in zip(base, far))
        best, bd = None, 1.0
        for dr in (-2, -1, 0, 1, 2):
            for dg in (-1, 0, 1):
                for db in (-3, -2, -1, 0, 1, 2, 3):
                    c = (t[0] + dr, t[1] + dg, t[2] + db)
                    if min(c) < 0 or max(c) > 255:
                        continue
                    d = abs(ratio_fn(c, b) - thr)
                    if d < bd:
                        best, bd = c, d
        if best is not None and bd < 0.004:
            out.append((best, b))
    return out


def isoluminant_pair(rng):
    """two saturated colours of similar luminance and different hue: contrast near 1, and OKLCH
    lightness order may disagree with WCAG luminance order"""
    import colorsys
    repo_import()
    from cm_colors.core.contrast import calculate_relative_luminance as lum
    h1, h2 = rng.random(), rng.random()
    # half of the texts sit on the surface of the sRGB gamut (a channel at 0): the descent phase cannot rescue a bad first candidate there
    t = tuple(int(round(255 * x)) for x in colorsys.hsv_to_rgb(h1, rng.choice([1.0, rng.uniform(0.94, 1.0), rng.uniform(0.7, 1.0)]), rng.uniform(0.5, 1.0)))
    target = lum(t) * rng.uniform(0.85, 1.15)
    lo, hi = 0.0, 1.0
    s = rng.uniform(0.7, 1.0)
    for _ in range(14):
        mid = (lo + hi) / 2
        b = tuple(int(round(255 * x)) for x in colorsys.hsv_to_rgb(h2, s, mid))
        if lum(b) < target:
            lo = mid
        else:
            hi = mid
    return t, tuple(int(round(255 * x)) for x in colorsys.hsv_to_rgb(h2, s, hi))


def order_disagree_pair(rng):
    """saturated colours whose OKLCH-lightness order disagrees with their WCAG-luminance order, with
    a luminance gap that a small move cannot cross: the lightness search starts by *lowering* contrast"""
    import colorsys
    repo_import()
    from cm_colors.core.conversions import rgb_to_oklch
    from cm_colors.core.contrast import calculate_relative_luminance as lum, calculate_contrast_ratio as ratio
    for _ in range(3000):
        t = tuple(int(round(255 * x)) for x in colorsys.hsv_to_rgb(rng.random(), rng.choice([1.0, rng.uniform(0.94, 1.0), rng.uniform(0.6, 1)]), rng.uniform(0.4, 1)))
        b = tuple(int(round(255 * x)) for x in colorsys.hsv_to_rgb(rng.random(), rng.uniform(0.6, 1), rng.uniform(0.4, 1)))
        if (rgb_to_oklch(t)[0] > rgb_to_oklch(b)[0]) != (lum(t) > lum(b)) and ratio(t, b) >= rng.choice([1.03, 1.08]):
            return t, b
    return isoluminant_pair(rng)


def multi_step_pair(rng):
    """a saturated pair 25-65 % below the AA minimum: default mode needs several steps to fix it"""
    import colorsys
    repo_import()
    from cm_colors.core.contrast import calculate_contrast_ratio as ratio_fn
    for _ in range(200):
        b = tuple(int(round(255 * x)) for x in colorsys.hsv_to_rgb(rng.random(), rng.uniform(0.3, 1), rng.choice([rng.uniform(0.1, 0.35), rng.uniform(0.8, 1.0)])))
        t = tuple(int(round(255 * x)) for x in colorsys.hsv_to_rgb(rng.random(), rng.uniform(0.4, 1), rng.uniform(0.3, 1.0)))
        r = ratio_fn(t, b)
        if 1.6 <= r <= 3.4:
            return t, b
    return rand_rgb(rng), rand_rgb(rng)


def just_clearable_pair(rng):
    """text next to white (or black) on a background that pure white (black) only just clears for one of the minima
    3 / 4.5 / 7: the last step of a fix crosses the line with a tiny gain, pinned against the gamut edge"""
    import colorsys
    repo_import()
    from cm_colors.core.contrast import calculate_contrast_ratio as ratio
    for _ in range(60):
        mn = rng.choice([3.0, 4.5, 4.5, 7.0])
        far = rng.choice([(255, 255, 255), (0, 0, 0)])
        want = mn * (1 + 10 ** rng.uniform(-3.3, -1.3))       # white/black clears the minimum by 0.05 % ... 5 %
        h, sat = rng.random(), rng.uniform(0.3, 1.0)
        lo, hi = 0.0, 1.0
        for _i in range(16):                      # ratio(far, b) is monotone in the value of b
            mid = (lo + hi) / 2
            b = tuple(int(round(255 * x)) for x in colorsys.hsv_to_rgb(h, sat, mid))
            r = ratio(far, b)
            if (r > want) == (far == (255, 255, 255)):
                lo = mid
            else:
                hi = mid
        b = tuple(int(round(255 * x)) for x in colorsys.hsv_to_rgb(h, sat, (lo + hi) / 2))
        if not (mn <= ratio(far, b) <= mn * 1.08):
            continue
        d = rng.choice([3, 6, 10, 16])
        t = tuple(max(0, min(255, x + (rng.randint(-d, 0) if far[0] else rng.randint(0, d)))) for x in far)
        if ratio(t, b) < mn:
            return t, b
    return isoluminant_pair(rng)


def gen_pairs(rng, n):
    """structured pair mix: uniform, grey x grey, named x named, near-threshold, text≈bg"""
    repo_import()
    from cm_colors.core.contrast import calculate_contrast_ratio as ratio_fn
    named = _named()
    pairs = []
    kinds = []
    for i in range(n):
        u = rng.random()
        if u < 0.07:
            pairs.append(just_clearable_pair(rng)); kinds.append("just_clearable")
        elif u < 0.10:
            pairs.append((rand_rgb(rng), rand_rgb(rng))); kinds.append("uniform")
        elif u < 0.17:
            pairs.append(isoluminant_pair(rng)); kinds.append("isolum")
        elif u < 0.25:
            pairs.append(order_disagree_pair(rng)); kinds.append("order_disagree")
        elif u < 0.34:
            a, b = rng.randrange(256), rng.randrange(256)
            pairs.append(((a, a, a), (b, b, b))); kinds.append("grey")
        elif u < 0.42:
            pairs.append((rng.choice(named)[1], rng.choice(named)[1])); kinds.append("named")
        elif u < 0.82:
            pairs.append(near_threshold_pair(rng, ratio_fn)); kinds.append("near")
        elif u < 0.92:
            k = knife_edge_pairs(rng, 1)
            pairs.append(k[0] if k else near_threshold_pair(rng, ratio_fn)); kinds.append("knife")
        else:
            b = rand_rgb(rng)
            d = rng.choice([0, 0, 1, 2, 5])
            t = tuple(max(0, min(255, x + rng.randint(-d, d))) for x in b)
            pairs.append((t, b)); kinds.append("same")
    return pairs, kinds


def gen_caf_cases(rng, n):
    pairs, kinds = gen_pairs(rng, n)
    cases = []
    for (t, b), k in zip(pairs, kinds):
        # pairs whose lightness order and luminance order disagree matter most in the stepping modes
        mode = rng.choice([1, 1, 1, 2, 0]) if k in ("order_disagree", "isolum", "just_clearable") else rng.choice([0, 1, 1, 2])
        cases.append((t, b, rng.randrange(2), mode, rng.randrange(2)))
    return cases, kinds


# ------------------------------------------------------------------ correspondence: whole pipeline

def caf_line(case):
    t, b, large, mode, very = case
    return "caf %d %d %d %d %d %d %d %d %d" % (tuple(t) + tuple(b) + (int(large), int(mode), int(very)))


def correspond_caf(run, cases, p, tag="caf"):
    """implementation vs model on check_and_fix_contrast; returns impl results"""
    impl = p.map(w_caf, cases, chunksize=4)
    model = run_lines([caf_line(c) for c in cases], chunks=16)
    for c, i, m in zip(cases, impl, model):
        if i[0] == "raise":
            im = "raise " + i[1]
        else:
            im = "%d %d %d %d" % (tuple(i[0]) + (int(i[1]),))
        if im != m:
            run.diverge("check_and_fix_contrast==Cm.checkAndFixF", list(c), im, m)
        run.hit(tag + ".compared")
    return impl


# ------------------------------------------------------------------ routine-level workers (C04)

def w_routine(case):
    """direct call of one of the three documented search routines"""
    kind = case[0]
    opt = _impl["opt"]
    try:
        if kind == "bs":
            _, t, b, thr, target = case
            r = opt.binary_search_lightness(tuple(t), tuple(b), thr, target)
        elif kind == "gd":
            _, t, b, thr, target = case
            r = opt.gradient_descent_oklch(tuple(t), tuple(b), thr, target)
        else:
            _, t, b, target, minc, sched = case
            r = opt.generate_accessible_color(tuple(t), tuple(b), False, target, minc, list(sched))
        return None if r is None else tuple(int(x) for x in r)
    except Exception as e:  # noqa
        return ("raise", type(e).__name__ + ": " + str(e)[:200])


def w_steps(case):
    """check_and_fix_contrast with the multi-phase search wrapped: records every (input, schedule,
    output) step taken inside the run"""
    t, b, large, mode, very = case
    opt = _impl["opt"]
    orig = getattr(opt, "generate_accessible_color", None)
    steps = []
    if orig is None:
        return ("nowrap", None, None)

    def wrapped(text_rgb, bg_rgb, large=False, target_contrast=None, min_contrast=None, delta_e_sequence=None):
        out = orig(text_rgb, bg_rgb, large, target_contrast, min_contrast, delta_e_sequence)
        steps.append((tuple(text_rgb), None if delta_e_sequence is None else list(delta_e_sequence), tuple(out)))
        return out

    opt.generate_accessible_color = wrapped
    try:
        r, ok = opt.check_and_fix_contrast(tuple(t), tuple(b), bool(large), mode, bool(very))
        return (_norm_rgb(r), bool(ok), steps)
    except Exception as e:  # noqa
        return ("raise", type(e).__name__ + ": " + str(e)[:200], steps)
    finally:
        opt.generate_accessible_color = orig
