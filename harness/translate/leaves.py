"""Translator: the straight-line numeric functions of cm_colors.core (contrast.py, conversions.py,
color_metrics.py) and the constants of optimisation.py  ->  lean/CmGen/Leaves.lean

Regenerated from /repo's working tree on every run. Each generated definition is a mechanical image of
the Python function's syntax tree over the model's abstract carrier (`Cm.NumT α`); the theorems of
`CmProps/C05tie.lean`, `C10tie.lean`, `C11tie.lean`, `C04tie.lean`, `C01tie.lean` state that it equals the
hand-written model definition the property theorems are about, so a change to one of these functions
(a coefficient, a threshold, an operator, the order of two operations, a schedule entry) breaks a named
proof obligation even when no sampled input happens to notice.

Translation rules (the trusted part of this tie; everything else is checked by Lean):
  float literal           -> the same decimal text, `(0.04045 : α)`
  int literal, float ctx  -> `(k.0 : α)`;   int (op) int is folded, except `/` (true division)
  + - * / unary -         -> the carrier's operations, same association as Python's grammar
  x ** y, pow(x, y)       -> `NumT.rpow x y`        (CPython float pow = C pow)
  math.sqrt/exp/sin/cos/atan2/pi -> `NumT.*`;   math.radians(x) -> `x * (NumT.pi / (180.0 : α))`
  abs / max / min / round -> `Num.abs` / `Num.pmax` / `Num.pmin` (Python's argument order) / `Num.roundHE`
  <= < >= > == on floats  -> `Num.le/lt/ge/gt/eq`;  chains `a <= b <= c` -> conjunction; and/or/not -> && || !
  tuple == tuple (ints)   -> decidable equality
  `v = e`                 -> `let v := e`;   `a, b, c = t` -> `let (a, b, c) := t`
  `r, g, b = [f(x) for x in rgb]` -> one `let` per component
  if/elif/else assigning  -> `let v := if … then … else …` (a branch that does not assign keeps the old value)
  if … : return           -> `if … then … else <rest>`
  nested def (no capture) -> a separate generated definition `<outer>__<inner>`
  an int-typed name in float arithmetic -> `Num.ofInt v`
  docstrings, `pass`, and print / logging / warnings calls whose value is discarded -> nothing (they cannot change what is returned)
  all(c(v) for v in rgb)  -> the conjunction over the three components;  int comparisons -> `decide (a ≤ b)`
  try: BODY except Exception: HANDLER -> BODY, each explicit `raise` in it continuing with HANDLER (exceptions raised
                             inside callees are not modelled: the `_safe` wrappers' images hold for inputs on which the
                             plain conversion does not raise)
"""
import ast
import os

from common import LEAN, REPO

CORE = os.path.join("src", "cm_colors", "core")
FUNCS = [
    ("conversions.py", "srgb_to_linear"), ("conversions.py", "linear_to_srgb"),
    ("contrast.py", "calculate_relative_luminance"), ("contrast.py", "calculate_contrast_ratio"),
    ("contrast.py", "get_contrast_level"), ("contrast.py", "get_wcag_level"),
    ("conversions.py", "calculate_hue_angle"), ("conversions.py", "rgb_to_oklch"), ("conversions.py", "oklch_to_rgb"),
    ("conversions.py", "is_valid_oklch"), ("conversions.py", "is_valid_rgb"),
    ("conversions.py", "rgb_to_oklch_safe"), ("conversions.py", "oklch_to_rgb_safe"),
    ("conversions.py", "rgb_to_xyz"), ("conversions.py", "xyz_to_lab"), ("conversions.py", "rgb_to_lab"),
    ("color_metrics.py", "calculate_delta_e_2000"),
]
MATH1 = {"sqrt": "NumT.sqrt", "exp": "NumT.exp", "sin": "NumT.sin", "cos": "NumT.cos"}


class Unsupported(Exception):
    pass


def norm_ann(text):
    """annotation text in one spelling: no blanks, `tuple`/`list` for `Tuple`/`List`, `X|None` for `Optional[X]`"""
    import re
    t = text.replace(" ", "").replace("typing.", "").replace("Tuple[", "tuple[").replace("List[", "list[")
    m = re.fullmatch(r"Optional\[(.*)\]", t)
    if m:
        t = m.group(1) + "|None"
    if t.startswith("None|"):
        t = t[5:] + "|None"
    return t


def is_noise(stmt):
    """statements that cannot influence what a function returns: `pass`, logging / print / warnings calls whose value is discarded"""
    if isinstance(stmt, ast.Pass):
        return True
    if isinstance(stmt, ast.Expr) and isinstance(stmt.value, ast.Call):
        f = stmt.value.func
        root = f
        while isinstance(root, (ast.Attribute, ast.Call)):
            root = root.value if isinstance(root, ast.Attribute) else root.func
        if isinstance(root, ast.Name) and root.id in ("print", "logging", "logger", "log", "warnings", "_log", "_logger", "LOGGER"):
            return True
    return False


def lname(n):
    return n if n not in ("fun", "let", "then", "else", "if", "at", "from", "to", "end", "open", "in", "do", "by", "have", "show", "λ") else n + "_"


class Fn:
    def __init__(self, src, node, known, prefix=""):
        self.src, self.node, self.known = src, node, known
        self.name = prefix + node.name
        self.aux = []           # generated nested definitions
        self.env = {}           # python name -> type
        self.local_fns = {}
        self.local_fns_alpha = set()
        self.known_alpha = known.get("__alpha__", {}) if isinstance(known, dict) else {}

    # ---- types: 'F' carrier, 'I' Int, 'B' Bool, 'P' Prop (decidable), 'S' String, 'RGB', 'T3', ('ilit', k)
    def ann_type(self, a):
        if a is None:
            return "F"
        t = norm_ann(ast.get_source_segment(self.src, a))
        if t in ("float", "float|int", "int|float"):
            return "F"
        if t == "bool":
            return "B"
        if t == "tuple[int,int,int]":
            return "RGB"
        if t == "tuple[float,float,float]":
            return "T3"
        raise Unsupported("annotation " + t)

    def lean_type(self, t):
        return {"F": "α", "B": "Bool", "RGB": "Int × Int × Int", "T3": "α × α × α", "I": "Int", "S": "String"}[t]

    def flit(self, text):
        return "(%s : α)" % text

    def toF(self, e):
        s, t = e
        if t == "F":
            return s
        if isinstance(t, tuple) and t[0] == "ilit":
            k = t[1]
            return self.flit("%d.0" % k) if k >= 0 else "-" + self.flit("%d.0" % -k)
        if t == "I":
            return "Num.ofInt %s" % s
        raise Unsupported("cannot use %s (%s) as a float" % (s, t))

    def toI(self, e):
        s, t = e
        if t == "I":
            return s
        if isinstance(t, tuple) and t[0] == "ilit":
            return str(t[1]) if t[1] >= 0 else "(%d)" % t[1]
        raise Unsupported("cannot use %s (%s) as an int" % (s, t))

    def is_int(self, t):
        return t == "I" or (isinstance(t, tuple) and t[0] == "ilit")

    def is_ilit(self, t):
        return isinstance(t, tuple) and t[0] == "ilit"

    def expr(self, n):
        if isinstance(n, ast.Constant):
            if isinstance(n.value, bool):
                return ("true" if n.value else "false", "B")
            if isinstance(n.value, int):
                return (str(n.value), ("ilit", n.value))
            if isinstance(n.value, float):
                return (self.flit(ast.get_source_segment(self.src, n)), "F")
            if isinstance(n.value, str):
                return ('"%s"' % n.value, "S")
            raise Unsupported("constant %r" % (n.value,))
        if isinstance(n, ast.Name):
            if n.id not in self.env:
                raise Unsupported("free name " + n.id)
            return (lname(n.id), self.env[n.id])
        if isinstance(n, ast.Attribute) and isinstance(n.value, ast.Name) and n.value.id == "math" and n.attr == "pi":
            return ("NumT.pi", "F")
        if isinstance(n, ast.UnaryOp):
            a = self.expr(n.operand)
            if isinstance(n.op, ast.UAdd):
                return a
            if isinstance(n.op, ast.USub):
                if self.is_ilit(a[1]):
                    return (str(-a[1][1]), ("ilit", -a[1][1]))
                if a[1] == "I":
                    return ("(-%s)" % a[0], "I")
                return ("-%s" % self.atom(self.toF(a)), "F")
            if isinstance(n.op, ast.Not):
                return ("!%s" % self.atom(self.toB(a)), "B")
            raise Unsupported("unary op")
        if isinstance(n, ast.BinOp):
            a, b = self.expr(n.left), self.expr(n.right)
            if isinstance(n.op, ast.Pow):
                return self.power(a, b)
            if isinstance(n.op, ast.Mod):
                return ("Num.pmod %s %s" % (self.atom(self.toF(a)), self.atom(self.toF(b))), "F")
            op = {ast.Add: "+", ast.Sub: "-", ast.Mult: "*", ast.Div: "/"}.get(type(n.op))
            if op is None:
                raise Unsupported("operator")
            if self.is_ilit(a[1]) and self.is_ilit(b[1]) and op != "/":
                k = {"+": a[1][1] + b[1][1], "-": a[1][1] - b[1][1], "*": a[1][1] * b[1][1]}[op]
                return (str(k), ("ilit", k))
            if self.is_int(a[1]) and self.is_int(b[1]) and op != "/":
                return ("(%s %s %s)" % (self.toI(a), op, self.toI(b)), "I")
            return ("(%s %s %s)" % (self.toF(a), op, self.toF(b)), "F")
        if isinstance(n, ast.Compare):
            parts = []
            left = self.expr(n.left)
            for op, rn in zip(n.ops, n.comparators):
                right = self.expr(rn)
                parts.append(self.compare(left, op, right))
                left = right
            if len(parts) == 1:
                return parts[0]
            if any(t != "B" for _, t in parts):
                raise Unsupported("chained comparison of non-floats")
            return ("(" + " && ".join(s for s, _ in parts) + ")", "B")
        if isinstance(n, ast.BoolOp):
            op = " && " if isinstance(n.op, ast.And) else " || "
            return ("(" + op.join(self.toB(self.expr(v)) for v in n.values) + ")", "B")
        if isinstance(n, ast.IfExp):
            c = self.cond(n.test)
            a, b = self.expr(n.body), self.expr(n.orelse)
            if self.is_int(a[1]) and self.is_int(b[1]):
                return ("(if %s then %s else %s)" % (c, self.toI(a), self.toI(b)), "I")
            if a[1] == b[1] and a[1] in ("B", "S", "T3", "RGB"):
                return ("(if %s then %s else %s)" % (c, a[0], b[0]), a[1])
            return ("(if %s then %s else %s)" % (c, self.toF(a), self.toF(b)), "F")
        if isinstance(n, ast.Tuple):
            es = [self.expr(e) for e in n.elts]
            if len(es) == 3 and all(self.is_int(t) for _, t in es):
                return ("(%s, %s, %s)" % tuple(self.toI(e) for e in es), "RGB")
            if len(es) == 3:
                return ("(%s, %s, %s)" % tuple(self.toF(e) for e in es), "T3")
            raise Unsupported("tuple of %d" % len(es))
        if isinstance(n, ast.Call):
            return self.call(n)
        raise Unsupported(type(n).__name__)

    def atom(self, s):
        return s if s.startswith("(") and s.endswith(")") and self.balanced(s) else "(%s)" % s

    @staticmethod
    def balanced(s):
        d = 0
        for i, ch in enumerate(s):
            d += ch == "("
            d -= ch == ")"
            if d == 0 and i < len(s) - 1:
                return False
        return True

    def toB(self, e):
        if e[1] == "B":
            return e[0]
        if e[1] == "P":
            return "decide %s" % self.atom(e[0])
        raise Unsupported("not a condition: %s" % (e,))

    def cond(self, n):
        e = self.expr(n)
        if e[1] in ("B", "P"):
            return e[0]
        raise Unsupported("not a condition: %s" % (e,))

    def power(self, a, b):
        if self.is_ilit(a[1]) and self.is_ilit(b[1]) and b[1][1] >= 0:
            k = a[1][1] ** b[1][1]
            return (str(k), ("ilit", k))
        return ("NumT.rpow %s %s" % (self.atom(self.toF(a)), self.atom(self.toF(b))), "F")

    def compare(self, a, op, b):
        if a[1] == "RGB" and b[1] == "RGB" and isinstance(op, ast.Eq):
            return ("%s = %s" % (a[0], b[0]), "P")
        f = {ast.LtE: "Num.le", ast.Lt: "Num.lt", ast.GtE: "Num.ge", ast.Gt: "Num.gt", ast.Eq: "Num.eq"}.get(type(op))
        if f is None:
            raise Unsupported("comparison operator")
        if self.is_int(a[1]) and self.is_int(b[1]):
            rel = {ast.LtE: "≤", ast.Lt: "<", ast.GtE: "≥", ast.Gt: ">"}.get(type(op))
            if rel is None:
                raise Unsupported("integer comparison operator")
            return ("decide (%s %s %s)" % (self.toI(a), rel, self.toI(b)), "B")
        return ("%s %s %s" % (f, self.atom(self.toF(a)), self.atom(self.toF(b))), "B")

    def call(self, n):
        f = n.func
        if isinstance(f, ast.Name) and f.id == "all" and len(n.args) == 1 and isinstance(n.args[0], ast.GeneratorExp):
            g = n.args[0]
            if len(g.generators) == 1 and isinstance(g.generators[0].iter, ast.Name) and self.env.get(g.generators[0].iter.id) == "RGB" \
                    and isinstance(g.generators[0].target, ast.Name) and not g.generators[0].ifs:
                var, src = g.generators[0].target.id, lname(g.generators[0].iter.id)
                parts = []
                for proj in (".1", ".2.1", ".2.2"):
                    e = self.expr_subst(g.elt, var, "%s%s" % (src, proj))
                    parts.append(self.toB(e))
                return ("(" + " && ".join(parts) + ")", "B")
            raise Unsupported("all(...) over something else than an RGB tuple")
        args = [self.expr(a) for a in n.args]
        if n.keywords:
            raise Unsupported("keyword arguments")
        if isinstance(f, ast.Attribute) and isinstance(f.value, ast.Name) and f.value.id == "math":
            if f.attr in MATH1 and len(args) == 1:
                return ("%s %s" % (MATH1[f.attr], self.atom(self.toF(args[0]))), "F")
            if f.attr == "atan2" and len(args) == 2:
                return ("NumT.atan2 %s %s" % (self.atom(self.toF(args[0])), self.atom(self.toF(args[1]))), "F")
            if f.attr == "radians" and len(args) == 1:
                return ("(%s * (NumT.pi / (180.0 : α)))" % self.atom(self.toF(args[0])), "F")
            raise Unsupported("math." + f.attr)
        if not isinstance(f, ast.Name):
            raise Unsupported("call")
        if f.id == "pow" and len(args) == 2:
            return self.power(args[0], args[1])
        if f.id == "abs" and len(args) == 1:
            return ("Num.abs %s" % self.atom(self.toF(args[0])), "F")
        if f.id == "round" and len(args) == 1:
            return ("Num.roundHE %s" % self.atom(self.toF(args[0])), "I")
        if f.id == "int" and len(args) == 1 and args[0][1] == "I":
            return args[0]
        if f.id in ("max", "min") and len(args) == 3 and not all(self.is_int(t) for _, t in args):
            inner = "Num.p%s %s %s" % (f.id, self.atom(self.toF(args[0])), self.atom(self.toF(args[1])))
            return ("Num.p%s (%s) %s" % (f.id, inner, self.atom(self.toF(args[2]))), "F")
        if f.id in ("max", "min") and len(args) == 2:
            if all(self.is_int(t) for _, t in args):
                return ("(%s %s %s)" % (f.id, self.atom(self.toI(args[0])), self.atom(self.toI(args[1]))), "I")
            return ("Num.p%s %s %s" % (f.id, self.atom(self.toF(args[0])), self.atom(self.toF(args[1]))), "F")
        if f.id in self.local_fns:
            name, ptypes, rtype = self.local_fns[f.id]
        elif f.id in self.known:
            name, ptypes, rtype = self.known[f.id]
        else:
            raise Unsupported("call of " + f.id)
        if len(ptypes) != len(args):
            raise Unsupported("arity of " + f.id)
        out = []
        for a, pt in zip(args, ptypes):
            if pt == "F":
                out.append(self.atom(self.toF(a)))
            elif a[1] == pt:
                out.append(self.atom(a[0]))
            else:
                raise Unsupported("argument type %s for %s" % (a[1], pt))
        uses_alpha = name in self.local_fns_alpha or self.known_alpha.get(f.id, True)
        return ("%s%s %s" % (name, " (α := α)" if uses_alpha else "", " ".join(out)), rtype)

    # ---- statements
    def assigned(self, stmts):
        out = []
        for s in stmts:
            if isinstance(s, ast.AugAssign) and isinstance(s.target, ast.Name):
                if s.target.id not in out:
                    out.append(s.target.id)
            elif isinstance(s, ast.Assign):
                for t in s.targets:
                    for nm in ([t] if isinstance(t, ast.Name) else t.elts):
                        if nm.id not in out:
                            out.append(nm.id)
            elif isinstance(s, ast.If):
                for v in self.assigned(s.body) + self.assigned(s.orelse):
                    if v not in out:
                        out.append(v)
        return out

    def returns(self, stmts):
        """True when every path through stmts ends in a return (or a raise)"""
        for s in stmts:
            if isinstance(s, (ast.Return, ast.Raise)):
                return True
            if isinstance(s, ast.If) and s.orelse and self.returns(s.body) and self.returns(s.orelse):
                return True
        return False

    def block(self, stmts, tail, ind):
        """Lean term for stmts; `tail` = None (must return) or a tuple of variable names to yield"""
        pad = "  " * ind
        if not stmts:
            if tail is None:
                raise Unsupported("a path without return")
            vals = [self.expr(ast.Name(id=v)) for v in tail]
            self.tail_types = [t for _, t in vals]
            if len(vals) == 1:
                return pad + (self.toF(vals[0]) if vals[0][1] not in ("B", "S", "RGB", "T3", "I") else vals[0][0]), vals[0][1]
            return pad + "(" + ", ".join(self.toF(v) if v[1] not in ("B", "S", "RGB", "T3", "I") else v[0] for v in vals) + ")", "tuple"
        s, rest = stmts[0], stmts[1:]
        if is_noise(s):
            return self.block(rest, tail, ind)
        if isinstance(s, ast.Expr) and isinstance(s.value, ast.Constant) and isinstance(s.value.value, str):
            return self.block(rest, tail, ind)         # docstring
        if isinstance(s, ast.Try):
            # try: BODY except Exception: HANDLER  ->  BODY, every explicit `raise` in it continuing with HANDLER
            if len(s.handlers) != 1 or s.orelse or s.finalbody or rest or tail is not None:
                raise Unsupported("shape of try statement")
            h = s.handlers[0]
            if not (h.type is None or (isinstance(h.type, ast.Name) and h.type.id == "Exception")):
                raise Unsupported("exception filter")
            saved, self.handler = getattr(self, "handler", None), (list(h.body), dict(self.env))
            r = self.block(list(s.body), None, ind)
            self.handler = saved
            return r
        if isinstance(s, ast.Raise):
            if getattr(self, "handler", None) is None or tail is not None:
                raise Unsupported("raise outside try")
            hbody, henv = self.handler
            saved_env, saved_h = self.env, self.handler
            self.env, self.handler = dict(henv), None
            r = self.block(hbody, None, ind)
            self.env, self.handler = saved_env, saved_h
            return r
        if isinstance(s, ast.Return):
            if tail is not None:
                raise Unsupported("return inside an assigning branch")
            e = self.expr(s.value)
            if self.is_ilit(e[1]):
                e = (self.toF(e), "F")
            self.ret_type = e[1]
            return pad + e[0], e[1]
        if isinstance(s, ast.FunctionDef):
            sub = Fn(self.src, s, self.known, prefix=self.name + "__")
            free = {x.id for x in ast.walk(s) if isinstance(x, ast.Name)} - {a.arg for a in s.args.args} - set(self.known) - {"pow", "abs", "max", "min", "round", "math"}
            if free:
                raise Unsupported("nested function captures " + ",".join(sorted(free)))
            text = sub.translate()
            self.aux += sub.aux + [text]
            self.local_fns[s.name] = (sub.name, sub.ptypes, sub.ret_type)
            if "α" in text:
                self.local_fns_alpha.add(sub.name)
            return self.block(rest, tail, ind)
        if isinstance(s, ast.AugAssign) and isinstance(s.target, ast.Name):
            load = ast.copy_location(ast.Name(id=s.target.id, ctx=ast.Load()), s.target)
            s = ast.copy_location(ast.Assign(targets=[ast.Name(id=s.target.id, ctx=ast.Store())],
                                             value=ast.copy_location(ast.BinOp(left=load, op=s.op, right=s.value), s)), s)
        if isinstance(s, ast.Assign):
            if len(s.targets) > 1:
                # a = b = c = e
                e = self.expr(s.value)
                lines = []
                for t in s.targets:
                    self.env[t.id] = "F" if self.is_ilit(e[1]) else e[1]
                    lines.append(pad + "let %s := %s" % (lname(t.id), self.toF(e) if e[1] == "F" or self.is_ilit(e[1]) else e[0]))
                r, rt = self.block(rest, tail, ind)
                return "\n".join(lines) + "\n" + r, rt
            t = s.targets[0]
            if isinstance(t, ast.Name):
                e = self.expr(s.value)
                if self.is_ilit(e[1]):
                    e = (self.toF(e), "F")       # a name bound to an int literal is used as a float below
                self.env[t.id] = e[1]
                r, rt = self.block(rest, tail, ind)
                return pad + "let %s := %s\n" % (lname(t.id), e[0]) + r, rt
            if isinstance(t, ast.Tuple):
                names = [x.id for x in t.elts]
                v = s.value
                if isinstance(v, ast.ListComp) and len(v.generators) == 1 and isinstance(v.generators[0].iter, ast.Name) \
                        and self.env.get(v.generators[0].iter.id) == "RGB" and len(names) == 3 and not v.generators[0].ifs:
                    var = v.generators[0].target.id
                    src = lname(v.generators[0].iter.id)
                    lines = []
                    for nm, proj in zip(names, (".1", ".2.1", ".2.2")):
                        saved = dict(self.env)
                        self.env[var] = "I"
                        # the comprehension variable stands for one component
                        e = self.expr_subst(v.elt, var, "%s%s" % (src, proj))
                        self.env = saved
                        lines.append((nm, e))
                    out = ""
                    for nm, e in lines:
                        self.env[nm] = e[1]
                        out += pad + "let %s := %s\n" % (lname(nm), e[0])
                    r, rt = self.block(rest, tail, ind)
                    return out + r, rt
                if isinstance(v, ast.Tuple) and len(v.elts) == len(names):
                    out = ""
                    es = [self.expr(x) for x in v.elts]
                    for nm, e in zip(names, es):
                        if self.is_ilit(e[1]):
                            e = (self.toF(e), "F")
                        self.env[nm] = e[1]
                        out += pad + "let %s := %s\n" % (lname(nm), e[0])
                    r, rt = self.block(rest, tail, ind)
                    return out + r, rt
                e = self.expr(v)
                if e[1] == "T3" and len(names) == 3:
                    for nm in names:
                        self.env[nm] = "F"
                elif e[1] == "RGB" and len(names) == 3:
                    for nm in names:
                        self.env[nm] = "I"
                else:
                    raise Unsupported("unpacking of " + str(e[1]))
                r, rt = self.block(rest, tail, ind)
                return pad + "let (%s) := %s\n" % (", ".join(lname(x) for x in names), e[0]) + r, rt
            raise Unsupported("assignment target")
        if isinstance(s, ast.If):
            c = self.cond(s.test)
            if self.returns(s.body):
                # if c: ...return   [else: ...]  rest
                saved = dict(self.env)
                a, at = self.block(s.body, None, ind + 1)
                self.env = dict(saved)
                b, bt = self.block(list(s.orelse) + rest, tail, ind + 1)
                return "%sif %s then\n%s\n%selse\n%s" % (pad, c, a, pad, b), bt
            vs = [v for v in self.assigned(s.body) + self.assigned(s.orelse)]
            vs = [v for i, v in enumerate(vs) if v not in vs[:i]]
            # only what is read afterwards (or yielded by the enclosing branch) leaves the statement
            live = {x.id for st in rest for x in ast.walk(st) if isinstance(x, ast.Name)} | set(tail or ())
            vs = [v for v in vs if v in live]
            if not vs:
                raise Unsupported("if without effect")
            # a name first bound inside the statement must be bound by every branch (else `block` fails on the free name)
            saved = dict(self.env)
            a, _ = self.block(s.body, tuple(vs), ind + 2)
            ta = self.tail_types
            self.env = dict(saved)
            b, _ = self.block(s.orelse, tuple(vs), ind + 2)
            self.env = dict(saved)
            for v, t in zip(vs, ta):
                self.env[v] = "F" if self.is_ilit(t) else t
            pat = lname(vs[0]) if len(vs) == 1 else "(" + ", ".join(lname(v) for v in vs) + ")"
            r, rt = self.block(rest, tail, ind)
            return "%slet %s :=\n%s  if %s then\n%s\n%s  else\n%s\n" % (pad, pat, pad, c, a, pad, b) + r, rt
        raise Unsupported("statement " + type(s).__name__)

    def expr_subst(self, node, var, repl):
        saved = self.env.get(var)
        self.env[var] = "I"
        old = lname
        e = self.expr(node)
        # the comprehension variable is rendered by its replacement
        import re
        s = re.sub(r"\b%s\b" % re.escape(lname(var)), repl, e[0])
        if saved is None:
            self.env.pop(var, None)
        else:
            self.env[var] = saved
        return (s, e[1])

    def translate(self):
        n = self.node
        self.ptypes = []
        params = []
        for a in n.args.args:
            t = self.ann_type(a.annotation)
            self.env[a.arg] = t
            self.ptypes.append(t)
            params.append("(%s : %s)" % (lname(a.arg), self.lean_type(t)))
        self.ret_type = None
        body, rt = self.block(n.body, None, 1)
        if rt == "I" or self.is_ilit(rt):
            raise Unsupported("int-valued function")
        self.ret_type = rt
        return ("/-- `%s` (line %d) -/\ndef %s %s : %s :=\n%s\n" % (n.name, n.lineno, self.name, " ".join(params), self.lean_type(rt), body))


def fragment(src, fn, name, doc, inputs, start, outputs_of):
    """part of a function body as a definition: the statements from the first one satisfying `start` up to the final
    `return`, whose value `outputs_of` turns into the expressions to yield; `inputs` are the names (with types) bound
    by the part that is skipped (parsing and validation of string / tuple input: the parser model's subject)"""
    body = list(fn.body)
    idx = [i for i, x in enumerate(body) if start(x)]
    if len(idx) != 1 or not isinstance(body[-1], ast.Return):
        raise Unsupported("%s: cannot locate the numeric part" % fn.name)
    outs = outputs_of(body[-1].value)
    stmts = body[idx[0]:-1] + [ast.Return(value=ast.Tuple(elts=outs, ctx=ast.Load()))]
    f = Fn(src, fn, {})
    f.name = name
    f.env = dict(inputs)
    text, rt = f.block(stmts, None, 1)
    params = " ".join("(%s : %s)" % (lname(k), f.lean_type(v)) for k, v in inputs.items())
    return "".join(f.aux) + "/-- %s (from line %d of `%s`) -/\ndef %s %s : %s :=\n%s\n" % (doc, body[idx[0]].lineno, fn.name, name, params, f.lean_type(rt), text)


def fstring_values(parts):
    def go(v):
        if not isinstance(v, ast.JoinedStr):
            raise Unsupported("the return value is not an f-string")
        consts = [x.value for x in v.values if isinstance(x, ast.Constant)]
        vals = [x.value for x in v.values if isinstance(x, ast.FormattedValue)]
        if consts != parts or any(x.format_spec or x.conversion != -1 for x in v.values if isinstance(x, ast.FormattedValue)):
            raise Unsupported("shape of the f-string: %r" % consts)
        return vals
    return go


def int_round_triple(v):
    if not (isinstance(v, ast.Tuple) and len(v.elts) == 3):
        raise Unsupported("the return value is not a triple")
    return list(v.elts)


def fragments(src):
    tree = ast.parse(src)
    fns = {n.name: n for n in tree.body if isinstance(n, ast.FunctionDef)}
    out = []
    specs = [
        ("rgb_to_hsl", "rgb_to_hsl_core", "the arithmetic of `rgb_to_hsl`: validated channels on the 0-255 scale to the three numbers it prints",
         {"r": "F", "g": "F", "b": "F"},
         lambda x: isinstance(x, ast.AugAssign) and isinstance(x.target, ast.Name) and x.target.id == "r",
         fstring_values(["hsl(", ", ", "%, ", "%)"])),
        ("hsl_to_rgb", "hsl_to_rgb_core", "the arithmetic of `hsl_to_rgb`: parsed and range-checked `(h, s, l)` to the 8-bit colour",
         {"h": "F", "s": "F", "l": "F"},
         lambda x: isinstance(x, ast.If) and isinstance(x.test, ast.Compare) and isinstance(x.test.left, ast.Name) and x.test.left.id == "s"
         and isinstance(x.test.ops[0], ast.Eq), int_round_triple),
        ("rgba_to_rgb", "rgba_to_rgb_core", "the blend of `rgba_to_rgb` after its validation",
         {"r": "I", "g": "I", "b": "I", "a": "F", "background": "RGB"},
         lambda x: isinstance(x, ast.Assign) and isinstance(x.targets[0], ast.Tuple) and isinstance(x.value, ast.Name) and x.value.id == "background",
         int_round_triple),
    ]
    for fname, gname, doc, inputs, start, outs in specs:
        try:
            if fname not in fns:
                raise Unsupported("not found")
            out.append(fragment(src, fns[fname], gname, doc, inputs, start, outs))
        except Exception as e:  # noqa: anything the subset does not cover, including surprises in the translator itself
            e = str(e).replace("\n", " ")[:300]
            out.append("-- %s: outside the translated subset (%s)\n" % (gname, e))
    return out


def find_assign(fn, name):
    for x in ast.walk(fn):
        if isinstance(x, ast.Assign) and len(x.targets) == 1 and isinstance(x.targets[0], ast.Name) and x.targets[0].id == name:
            yield x


def lit_list(src, node):
    if not isinstance(node, ast.List):
        raise Unsupported("not a list literal")
    out = []
    for e in node.elts:
        if not (isinstance(e, ast.Constant) and isinstance(e.value, float)):
            raise Unsupported("schedule entry is not a float literal")
        out.append("(%s : α)" % ast.get_source_segment(src, e))
    return "[" + ", ".join(out) + "]"


def params_of_optimisation(src):
    """schedules, iteration counts and the threshold table of optimisation.py"""
    tree = ast.parse(src)
    fns = {n.name: n for n in tree.body if isinstance(n, ast.FunctionDef)}
    out = []

    def int_const(fn, name):
        xs = [x for x in find_assign(fns[fn], name)]
        if len(xs) != 1 or not (isinstance(xs[0].value, ast.Constant) and type(xs[0].value.value) is int):
            raise Unsupported("%s.%s is not a single int constant" % (fn, name))
        return xs[0].value.value

    def one_list(fn, name):
        xs = [x for x in find_assign(fns[fn], name) if isinstance(x.value, ast.List)]
        if len(xs) != 1:
            raise Unsupported("%s.%s: expected one list literal, found %d" % (fn, name, len(xs)))
        return lit_list(src, xs[0].value)

    out.append("/-- the default `delta_e_sequence` of `generate_accessible_color` -/\ndef default_sequence : List α :=\n  %s\n" % one_list("generate_accessible_color", "delta_e_sequence"))
    out.append("/-- `strict_sequence` of `_strategy_recursive` -/\ndef recursive_sequence : List α :=\n  %s\n" % one_list("_strategy_recursive", "strict_sequence"))
    out.append("/-- `strict_sequence` of `_strategy_relaxed` -/\ndef relaxed_step_sequence : List α :=\n  %s\n" % one_list("_strategy_relaxed", "strict_sequence"))
    out.append("/-- `relaxed_sequence` of `_strategy_relaxed` -/\ndef relaxed_sequence : List α :=\n  %s\n" % one_list("_strategy_relaxed", "relaxed_sequence"))
    out.append("/-- `max_iterations` of `_strategy_recursive` -/\ndef recursive_iterations : Nat := %d\n" % int_const("_strategy_recursive", "max_iterations"))
    out.append("/-- `max_iterations_extended` of `_strategy_relaxed` -/\ndef relaxed_iterations : Nat := %d\n" % int_const("_strategy_relaxed", "max_iterations_extended"))
    # range(N) of the lightness search; default max_iter of the descent
    rng = [x for x in ast.walk(fns["binary_search_lightness"]) if isinstance(x, ast.For) and isinstance(x.iter, ast.Call)
           and getattr(x.iter.func, "id", "") == "range" and len(x.iter.args) == 1 and isinstance(x.iter.args[0], ast.Constant)]
    if len(rng) != 1:
        raise Unsupported("binary_search_lightness: expected one `for _ in range(<int>)`")
    out.append("/-- iterations of `binary_search_lightness` -/\ndef binary_search_iterations : Nat := %d\n" % rng[0].iter.args[0].value)
    gd = fns["gradient_descent_oklch"]
    names = [a.arg for a in gd.args.args]
    defaults = dict(zip(names[len(names) - len(gd.args.defaults):], gd.args.defaults))
    if "max_iter" not in defaults or not isinstance(defaults["max_iter"], ast.Constant):
        raise Unsupported("gradient_descent_oklch: max_iter default")
    out.append("/-- default `max_iter` of `gradient_descent_oklch` -/\ndef descent_iterations : Nat := %d\n" % defaults["max_iter"].value)
    # threshold table: the `if premium:` statement of check_and_fix_contrast
    caf = fns["check_and_fix_contrast"]
    ifs = [x for x in caf.body if isinstance(x, ast.If) and isinstance(x.test, ast.Name) and x.test.id == "premium"]
    if len(ifs) != 1:
        raise Unsupported("check_and_fix_contrast: expected one top-level `if premium:`")
    f = Fn(src, caf, {})
    f.env = {"premium": "B", "large": "B"}
    body, _ = f.block([ifs[0]], ("min_contrast", "target_contrast"), 1)
    out.append("/-- the `(min_contrast, target_contrast)` table of `check_and_fix_contrast` (the `if premium:` statement, line %d) -/\n"
               "def thresholds (large premium : Bool) : α × α :=\n%s\n" % (ifs[0].lineno, body))
    # defaults of generate_accessible_color(large only): target/min when None
    return out


def generate():
    known = {}
    texts = []
    srcs = {}
    for fname, fn in FUNCS:
        if fname not in srcs:
            srcs[fname] = open(os.path.join(REPO, CORE, fname), encoding="utf-8").read()
        src = srcs[fname]
        tree = ast.parse(src)
        nodes = [n for n in tree.body if isinstance(n, ast.FunctionDef) and n.name == fn]
        if len(nodes) != 1:
            texts.append("-- %s: not found (or defined twice) in %s\n" % (fn, fname))
            continue
        f = Fn(src, nodes[0], known)
        try:
            t = f.translate()
        except Exception as e:  # noqa: anything the subset does not cover, including surprises in the translator itself
            e = str(e).replace("\n", " ")[:300]
            texts.append("-- %s: outside the translated subset (%s)\n" % (fn, e))
            continue
        texts += f.aux + [t]
        known[fn] = (f.name, f.ptypes, f.ret_type)
        known.setdefault("__alpha__", {})[fn] = "α" in t
    try:
        params = params_of_optimisation(open(os.path.join(REPO, CORE, "optimisation.py"), encoding="utf-8").read())
    except Exception as e:  # noqa: anything the subset does not cover, including surprises in the translator itself
        e = str(e).replace("\n", " ")[:300]
        params = ["-- optimisation.py parameters: outside the translated subset (%s)\n" % e]
    try:
        frags = fragments(srcs.get("conversions.py") or open(os.path.join(REPO, CORE, "conversions.py"), encoding="utf-8").read())
    except Exception as e:  # noqa: anything the subset does not cover, including surprises in the translator itself
        e = str(e).replace("\n", " ")[:300]
        frags = ["-- conversions.py fragments: outside the translated subset (%s)\n" % e]
    out = ("import CmModel.Num\n/-! GENERATED by harness/translate/leaves.py from src/cm_colors/core/{contrast,conversions,color_metrics,optimisation}.py — do not edit. -/\n"
           "set_option linter.unusedVariables false\n"
           "namespace CmGen.Leaves\nopen Cm\nvariable {α : Type} [NumT α]\n\n" + "\n".join(texts) +
           "\n/-! ## conversions.py: the arithmetic inside the string/tuple-polymorphic helpers -/\n\n" + "\n".join(frags) +
           "\n/-! ## optimisation.py: schedules, iteration counts, thresholds -/\n\n" + "\n".join(params) + "\nend CmGen.Leaves\n")
    path = os.path.join(LEAN, "CmGen", "Leaves.lean")
    old = open(path).read() if os.path.exists(path) else None
    if old != out:
        with open(path, "w") as f:
            f.write(out)
    return len([k for k in known if not k.startswith("__")])


def summary():
    """what the generated file contains (for the evidence files)"""
    import re
    path = os.path.join(LEAN, "CmGen", "Leaves.lean")
    text = open(path, encoding="utf-8").read() if os.path.exists(path) else ""
    return {"generated_definitions": re.findall(r"^def (\S+)", text, re.M),
            "not_translated": re.findall(r"^-- (.*)$", text, re.M),
            "file": "lean/CmGen/Leaves.lean", "translator": "harness/translate/leaves.py"}


if __name__ == "__main__":
    print(generate())
