"""Translator: where the library can produce output or touch the file system  ->  lean/CmGen/EffectSig.lean

Regenerated from /repo's working tree on every run of C17. For every module of `cm_colors.core` the syntax tree is scanned
for calls that write to stdout/stderr or create, change or remove a file; the generated table lists them as
(module, enclosing function, call). `CmProps/C17sig.lean` proves the table equal to the expected one: the three `print`
calls and the two visualiser calls of `make_readable` / `make_readable_bulk` (whose order and guards are the subject of
`C17api.lean`), `to_console`'s two `console.print` calls and the single `open(output_path, "w")` of the report writer. A new
`print`, `logging.warning`, `warnings.warn`, progress bar, temp file or rename anywhere in the core modules changes the
table and breaks the theorem, even where the statement-level translators treat logging calls as noise (they cannot change
what a function *returns*; they can change what it *prints*, which is C17's subject).

Rules (the trusted part): a call counts as output if its callee is `print`, `pprint`, `<x>.print` / `<x>.log` / `<x>.rule` on
a name bound to a `rich` Console, `sys.stdout.write` / `sys.stderr.write`, `logging.<level>` / `<logger>.<level>` for level in
{debug, info, warning, warn, error, critical, exception, log}, `warnings.warn`, `click.echo` / `click.secho`, or anything
from `rich.progress` / `tqdm`; as a file-system mutation by the rules of translate/clisrc.py (`open` with a mode other than
"r", os / shutil / tempfile calls, Path write methods). `to_console(...)` and `to_html_bulk(...)` are listed where they are
*called* (they are the two visualisers). Aliased imports are followed one level (`from x import y as z`).
"""
import ast
import os

from common import LEAN, REPO
from translate.clisrc import FS_METHODS, FS_MODULE_CALLS, call_name, slit

CORE = os.path.join("src", "cm_colors", "core")
LEVELS = {"debug", "info", "warning", "warn", "error", "critical", "exception", "log"}
VISUALISERS = {"to_console", "to_html_bulk"}


def scan(path, modname):
    src = open(path, encoding="utf-8").read()
    tree = ast.parse(src)
    rows = []
    imported = {}
    for n in ast.walk(tree):
        if isinstance(n, ast.ImportFrom):
            for a in n.names:
                imported[a.asname or a.name] = ((n.module or "") + "." + a.name)
        elif isinstance(n, ast.Import):
            for a in n.names:
                imported[a.asname or a.name.split(".")[0]] = a.name

    def visit(node, fn):
        for ch in ast.iter_child_nodes(node):
            name = fn
            if isinstance(ch, (ast.FunctionDef, ast.AsyncFunctionDef)):
                name = (fn + "." if fn else "") + ch.name
            elif isinstance(ch, ast.ClassDef):
                name = (fn + "." if fn else "") + ch.name
            if isinstance(ch, ast.Call):
                k = classify(ch)
                if k:
                    rows.append((ch.lineno, ch.col_offset, modname, fn or "<module>", k))
            visit(ch, name)

    def classify(c):
        nm = call_name(c.func)
        last = c.func.attr if isinstance(c.func, ast.Attribute) else (c.func.id if isinstance(c.func, ast.Name) else None)
        if nm in ("print", "pprint", "pprint.pprint"):
            return "print"
        if nm in ("sys.stdout.write", "sys.stderr.write", "sys.stdout.writelines", "sys.stderr.writelines"):
            return nm
        if nm in ("warnings.warn", "warnings.warn_explicit"):
            return nm
        if nm and nm.split(".")[0] in ("logging", "logger", "log", "_log", "_logger", "LOGGER") and last in LEVELS:
            return "logging." + last
        if nm in ("click.echo", "click.secho"):
            return nm
        if isinstance(c.func, ast.Name) and c.func.id in VISUALISERS:
            return "visualiser:" + c.func.id
        if isinstance(c.func, ast.Name) and imported.get(c.func.id, "").split(".")[0] in ("tqdm",) or \
                (isinstance(c.func, ast.Name) and imported.get(c.func.id, "").startswith("rich.progress")) or (nm or "").startswith(("rich.progress", "tqdm")):
            return "progress:" + (nm or "")
        if isinstance(c.func, ast.Attribute) and c.func.attr in ("print", "log", "rule", "print_json", "status") and isinstance(c.func.value, ast.Name) \
                and c.func.value.id.lower() in ("console", "_console", "err_console"):
            return "console." + c.func.attr
        # file system
        if nm == "open":
            mode = c.args[1].value if len(c.args) > 1 and isinstance(c.args[1], ast.Constant) else None
            for kw in c.keywords:
                if kw.arg == "mode" and isinstance(kw.value, ast.Constant):
                    mode = kw.value.value
            if mode is None and len(c.args) <= 1:
                mode = "r"
            if mode not in ("r", "rb", "rt"):
                return "open:%s:%s" % (mode, ast.get_source_segment(src, c.args[0]) if c.args else "")
            return None
        if nm and "." in nm:
            root, lst = nm.split(".")[0], nm.split(".")[-1]
            if root in FS_MODULE_CALLS and (FS_MODULE_CALLS[root] is None or lst in FS_MODULE_CALLS[root]):
                return "fs:" + nm
        if isinstance(c.func, ast.Attribute) and c.func.attr in FS_METHODS and not (c.func.attr in ("replace", "rename") and len(c.args) != 1):
            return "fs:." + c.func.attr          # (`s.replace(a, b)` with two arguments is the string method)
        return None

    visit(tree, "")
    rows.sort()
    return [(m, f, k) for _, _, m, f, k in rows]


def generate():
    rows = []
    note = []
    d = os.path.join(REPO, CORE)
    try:
        files = sorted(f for f in os.listdir(d) if f.endswith(".py"))
    except OSError as e:
        files = []
        note.append("-- core modules: outside the translated subset (%s)" % str(e)[:120])
    for f in files:
        try:
            rows += scan(os.path.join(d, f), f)
        except Exception as e:  # noqa
            note.append("-- %s: outside the translated subset (%s)" % (f, str(e).replace("\n", " ")[:200]))
    body = ",\n   ".join("(%s, %s, %s)" % (slit(a), slit(b), slit(c)) for a, b, c in rows)
    out = ("/-! GENERATED by harness/translate/effectsig.py from src/cm_colors/core/*.py — do not edit. -/\nnamespace CmGen.EffectSig\n\n"
           "/-- every call in the core modules that prints, logs, warns or touches the file system: (module, function, call) -/\n"
           + ("\n".join(note) + "\n" if note else "")
           + ("def effect_sites : List (String × String × String) :=\n  [%s]\n" % body if not note else "")
           + "\nend CmGen.EffectSig\n")
    p = os.path.join(LEAN, "CmGen", "EffectSig.lean")
    old = open(p).read() if os.path.exists(p) else None
    if old != out:
        with open(p, "w") as fh:
            fh.write(out)
    return len(rows)


def summary():
    import re
    p = os.path.join(LEAN, "CmGen", "EffectSig.lean")
    text = open(p, encoding="utf-8").read() if os.path.exists(p) else ""
    return {"generated_definitions": re.findall(r"^def (\S+)", text, re.M), "not_translated": re.findall(r"^-- (.*)$", text, re.M),
            "effect_sites": len(re.findall(r'^\s+[\[ ]?\("', text, re.M)), "file": "lean/CmGen/EffectSig.lean", "translator": "harness/translate/effectsig.py"}


if __name__ == "__main__":
    print(generate())
