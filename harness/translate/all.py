"""Every source-to-Lean translator, in dependency order (climain uses cliresolve's pre-pass image)."""
import importlib

NAMES = ["named", "templates", "statesig", "leaves", "optimiser", "strhelpers", "parsersrc", "parserseq", "convstr", "hexsrc", "api",
         "cliresolve", "climain", "clirules", "clisrc", "effectsig", "escapesig", "defaults"]


def modules():
    out = []
    for n in NAMES:
        try:
            out.append(importlib.import_module("translate." + n))
        except ModuleNotFoundError:
            pass
    return out


def generate_all():
    res = {}
    for m in modules():
        try:
            res[m.__name__.split(".")[-1]] = m.generate()
        except Exception as e:  # noqa
            res[m.__name__.split(".")[-1]] = "failed: %s: %s" % (type(e).__name__, str(e)[:200])
    return res


if __name__ == "__main__":
    import json
    import os
    import sys
    sys.path.insert(0, os.path.dirname(os.path.dirname(os.path.abspath(__file__))))
    print(json.dumps(generate_all()))
