"""Translator: the public API layer  ->  lean/CmGen/Api.lean

`core/colors.py` (classes `Color`, `ColorPair`) and `core/cm_colors.py` (`make_readable_bulk`), statement by statement, over the
model's own records (`Cm.Color α`, `Cm.ColorPair α`, `OutVal α`, `PyVal α`) and the vocabulary of `lean/CmModel/ApiVocab.lean`.
`CmProps/C14api.lean`, `C05api.lean`, `C06api.lean`, `C17api.lean`, `C17bulk.lean`, `C12api.lean` prove the images equal to `Color.new`,
`ColorPair.new`, `ColorPair.isValid`, `ColorPair.isReadable`, `ColorPair.makeReadable` + `mrEffects` (= `makeReadableFull`),
`Bulk.entry`, `Bulk.run` + `bulkEffects`.

Translation rules (the trusted part of this tie; everything else is checked by Lean).

Objects (the model digests an object into a value; the table is keyed on class and attribute, not on functions):
  class Color      finished object -> `Cm.Color α`;   `x._rgb` -> `x.rgb?`,  `x._format` -> `x.fmt`;  a `@property` -> a generated
                   accessor `Color_<name> x`.  End of `__init__` -> `Api.digest self._format self._rgb` (`_rgb is None` = invalid;
                   the other fields are not observable through the model).  An exception `e` escaping `__init__` ->
                   `Api.raisedWith self._format e` (the model keeps the kind in the colour's state instead of unwinding: a
                   `raised` colour is invalid, its `rgb` is `None`; statements after it are total, so they are harmless).
  class ColorPair  finished object -> `Cm.ColorPair α` with fields `text`, `bg`, `large`; end of `__init__` -> that record.
  inside `__init__` (and a method `self.m()` called as its last statement, which is inlined; a bare `return` there ends the
                   constructor):  `self.x = e` -> `let self_x := e` (later assignments shadow);  `self.x` -> `self_x`.
  a colour argument (un-annotated / `Union[str, tuple, list]` parameter) -> `ColorInput`, *how the parser responds to it*:
                   `detect_color_format(x)` -> `x.detect`;  `parse_color_to_rgb(x, background=b)` -> `x.parse b` (may raise).
                   A `PyVal` passed as a colour argument -> `Api.ofVal E v`, a colour the library produced -> `Api.ofOut E v`.
  `Color(x)`, `Color(x, background_context=c)`, `ColorPair(t, b, l)` -> the generated `Color_new`, `ColorPair_new`; keyword
                   arguments and defaults are resolved against the `__init__` signature read from the source.
  `p.meth(args)` / `p.prop` on a `ColorPair` -> the generated `ColorPair_<name>`, defaults from the signature.
Library calls:
  get_wcag_level(t, b, large)  -> `(wcagLevel t b large).toString`   (its own tie: C05tie `source_get_wcag_level`)
  check_and_fix_contrast(t, b, large, mode, premium) -> `Api.checkAndFixOut O d t b large mode premium` (ApiVocab; C04tie)
  format_color(rgb, fmt)       -> `formatColor rgb fmt`
  an `Optional[RGB]` argument where these need a colour -> `Api.withRgb kind o fun a => …`: `None` raises (`TypeError`;
                   `ValueError` for check_and_fix_contrast, which re-validates).  The theorems show it never happens.
  s.lower() -> `s.toLower`;  len(x) -> `x.length`;  `x is not None` -> `x.isSome`;  `x is None` -> `x.isNone`
  and / or / not -> `&&` / `||` / `!` on truth values; truth value of: a Bool -> itself; an optional object -> `isSome`;
                   a produced colour -> `Api.outTruthy`; a caller's value -> `Api.valTruthy`; a report list -> `0 < n`.
  `if X and REST` / `if X:` with `X` optional -> `match X with | some X => … | none => <else>` (X is narrowed in the branch)
  a string literal stored in `_format` -> the `Fmt` constructor with that `Fmt.toString`.
Statements:
  v = e -> `let v := e`;  `a, b = t` -> `let (a, b) := t`;  `a, b, c = item` on a list -> `match item with | [a, b, c] => … | _ =>
                   ValueError`;  xs.append(e) -> `let xs := xs ++ [e]`;  a `(colour, status)` tuple appended to the returned
                   list -> `Api.BulkOut` (`Sum.inl` the caller's value, `Sum.inr` a produced colour)
  if c: …return/continue  -> `if c then … else <rest>`;   other if/elif/else -> `let (exports) := if c then … else …` where
                   exports = variables assigned in a branch and live afterwards (a branch not assigning keeps the old value)
  liveness: a statement none of whose bindings is read later (by the result or by an effect) and that contains no
                   return/raise/continue/effect is dropped (exceptions raised by such dead computations — the visualiser
                   locals — are not modelled).  This is how the translator *checks* that the report block of
                   `make_readable` does not rebind `result`: if it did, the block would become live and be translated.
  try: BODY except (K1, K2) as e: H  -> the pure prefix of BODY is hoisted; then
                   `match BODY' with | .ok v => … | .error .k1 | .error .k2 => H … | .error e => <propagate e>`; the list of caught
                   kinds is generated from the `except` clause (`Exception` / bare -> every kind); on a caught exception the
                   exported variables keep their values from before BODY' (the translator checks that no call that can raise
                   follows an assignment to an exported variable inside BODY').
  for i, x in enumerate(xs): BODY -> a generated `<f>__loop i x state` in `Except PyErr`, folded by `Api.forEnum`; state = the
                   variables BODY assigns that are live at the loop head or after the loop; `continue` -> the state.
  a list only appended to, truth-tested and handed to `to_html_bulk` (the report rows) -> its length.
  return e -> the value (`.ok` if the function can raise); a function's result type is the join of its returns
                   (`None` joins `T` to `Option T`).
Effects (C17): functions that print or write carry a second result `_fx : List Effect`, appended in program order:
  print(...) / to_console(...) -> `Effect.stdout`;  to_html_bulk(..., output_path=LIT) -> `Effect.write LIT`; calling a function that
                   has effects appends its list.  A test that only chooses between effects and is not built from flags
                   (names, not/and/or, `.is_valid`) is left uninterpreted: `cond k`, a parameter (`cond : Nat → Bool`);
                   the theorems hold for every `cond`.  The arguments of effect calls (what is printed) are not modelled.
  docstrings, comments, `pass`, imports, logging calls -> nothing.
"""
import ast
import copy
import os
import re

from common import LEAN, REPO
from translate.leaves import Unsupported, lname

CORE = os.path.join("src", "cm_colors", "core")
FX = "_fx"
LOGGING = ("logging", "logger", "log", "warnings", "_log", "_logger", "LOGGER")
STDOUT_CALLS = ("print", "to_console")
WRITE_CALLS = ("to_html_bulk",)
FMT = {"hex": ".hex", "rgb": ".rgb", "hsl": ".hsl", "named": ".named", "rgba": ".rgba", "hsla": ".hsla", "rgb_tuple": ".rgbTuple",
       "rgba_tuple": ".rgbaTuple", "unknown": ".unknown"}
KINDS = {"ValueError": "valueError", "TypeError": "typeError", "OverflowError": "overflowError"}
# the digest table: which fields of a finished object the model observes, and their types
FIELDS = {"Color": {"_format": "Fmt", "_rgb": ("Opt", "RGB")}, "ColorPair": {"text": "Color", "bg": "Color", "large": "Bool"}}
ATTRS = {"Color": {"_rgb": ("rgb?", ("Opt", "RGB")), "_format": ("fmt", "Fmt")},
         "ColorPair": {"text": ("text", "Color"), "bg": ("bg", "Color"), "large": ("large", "Bool")}}
PARAM_TYPES = {("make_readable_bulk", "pairs"): ("List", ("List", "Val"))}
RAISING = {"parse_color_to_rgb", "get_wcag_level", "check_and_fix_contrast", "format_color"}


def lean_type(t):
    if isinstance(t, tuple):
        if t[0] == "Opt":
            return "Option (%s)" % lean_type(t[1])
        if t[0] == "List":
            return "List (%s)" % lean_type(t[1])
        if t[0] == "Tup":
            return "(" + " × ".join(lean_type(x) for x in t[1]) + ")"
    return {"Bool": "Bool", "Int": "Int", "Nat": "Nat", "Str": "String", "RGB": "RGB", "Fmt": "Fmt", "Val": "PyVal α", "Out": "OutVal α",
            "Color": "Cm.Color α", "ColorPair": "Cm.ColorPair α", "Input": "ColorInput", "Fx": "List Effect", "Count": "Nat",
            "Res": "Api.BulkOut α", "Unit": "Unit"}[t]


def join(a, b):
    if a == b:
        return a
    if a == "None":
        return b if isinstance(b, tuple) and b[0] == "Opt" else ("Opt", b)
    if b == "None":
        return join(b, a)
    if isinstance(a, tuple) and a[0] == "Opt" and a[1] == b:
        return a
    if isinstance(b, tuple) and b[0] == "Opt" and b[1] == a:
        return b
    if isinstance(a, tuple) and isinstance(b, tuple) and a[0] == b[0] == "Tup" and len(a[1]) == len(b[1]):
        return ("Tup", tuple(join(x, y) for x, y in zip(a[1], b[1])))
    if {a, b} == {"Val", "Bool"}:
        return "Val"
    raise Unsupported("values of two kinds meet: %s / %s" % (a, b))


def lit(s):
    return '"' + s.replace("\\", "\\\\").replace('"', '\\"').replace("\n", "\\n") + '"'


def ind(lines, n=1):
    return ["  " * n + x for x in lines]


def paren(lines, pre="(", post=")"):
    lines = list(lines)
    lines[0] = pre + lines[0]
    lines[-1] = lines[-1] + post
    return lines


def is_doc(s):
    return isinstance(s, ast.Expr) and isinstance(s.value, ast.Constant) and isinstance(s.value.value, str)


def call_root(n):
    while isinstance(n, (ast.Attribute, ast.Call)):
        n = n.value if isinstance(n, ast.Attribute) else n.func
    return n.id if isinstance(n, ast.Name) else None


def is_skip(s):
    if isinstance(s, (ast.Pass, ast.Import, ast.ImportFrom)) or is_doc(s):
        return True
    if isinstance(s, ast.Expr) and isinstance(s.value, ast.Call) and call_root(s.value.func) in LOGGING:
        return True
    return False


def walk_no_defs(node):
    todo = [node]
    while todo:
        n = todo.pop()
        yield n
        for c in ast.iter_child_nodes(n):
            if not isinstance(c, (ast.FunctionDef, ast.Lambda, ast.ClassDef)):
                todo.append(c)


class Registry:
    """what has been generated so far: callable images and their signatures"""

    def __init__(self):
        self.fns = {}       # key -> dict(lean, params [(name, type, default-ast)], ret, raises, fx, needs)
        self.props = {}     # (class, name) -> key
        self.methods = {}   # (class, name) -> key
        self.ctors = {}     # class -> key

    def fx_names(self):
        return {k[1] for k, v in list(self.props.items()) + list(self.methods.items()) if self.fns[v]["fx"]}


class Tr:
    """one function (or constructor) being translated"""

    def __init__(self, reg, src, name, cls=None, ctor=False):
        self.reg, self.src, self.name, self.cls, self.ctor = reg, src, name, cls, ctor
        self.aux = []

    # ------------------------------------------------------------------ syntax helpers
    def ref(self, n):
        """the key of a variable-like reference: a name, or `self.x` inside a constructor"""
        if isinstance(n, ast.Name):
            return n.id
        if self.ctor and isinstance(n, ast.Attribute) and isinstance(n.value, ast.Name) and n.value.id == "self":
            return "self." + n.attr
        return None

    def var(self, key):
        return lname(key.replace("self.", "self_")) if key != FX else FX

    def reads(self, node):
        out = set()
        for n in walk_no_defs(node):
            if isinstance(n, ast.Name):
                out.add(n.id)
            k = self.ref(n)
            if k:
                out.add(k)
        return out

    def effect_of(self, s):
        """an effect statement -> the effects it performs (Lean terms), else None"""
        calls = [n for n in walk_no_defs(s) if isinstance(n, ast.Call)]
        fx = []
        for c in calls:
            f = c.func
            nm = f.id if isinstance(f, ast.Name) else None
            if nm in STDOUT_CALLS:
                if not (isinstance(s, ast.Expr) and s.value is c):
                    raise Unsupported("%s inside an expression" % nm)
                fx.append("Effect.stdout")
            elif nm in WRITE_CALLS:
                top = s.value if isinstance(s, (ast.Expr, ast.Assign)) else None
                if top is not c:
                    raise Unsupported("%s inside an expression" % nm)
                path = [k.value for k in c.keywords if k.arg == "output_path"]
                if len(path) != 1 or not (isinstance(path[0], ast.Constant) and isinstance(path[0].value, str)):
                    raise Unsupported("%s without a literal output_path" % nm)
                fx.append("Effect.write %s" % lit(path[0].value))
        return fx or None

    def calls_fx_fn(self, node):
        names = self.reg.fx_names()
        for n in walk_no_defs(node):
            if isinstance(n, ast.Call) and isinstance(n.func, ast.Attribute) and n.func.attr in names:
                return True
        return False

    def has_effect(self, node):
        for n in walk_no_defs(node):
            if isinstance(n, ast.Call) and isinstance(n.func, ast.Name) and n.func.id in STDOUT_CALLS + WRITE_CALLS:
                return True
        return self.calls_fx_fn(node)

    def has_terminator(self, stmts):
        return any(isinstance(n, (ast.Return, ast.Raise, ast.Continue, ast.Break)) for s in stmts for n in walk_no_defs(s))

    def terminates(self, stmts):
        for s in stmts:
            if isinstance(s, (ast.Return, ast.Raise, ast.Continue)):
                return True
            if isinstance(s, ast.If) and s.orelse and self.terminates(s.body) and self.terminates(s.orelse):
                return True
        return False

    def append_target(self, s):
        if isinstance(s, ast.Expr) and isinstance(s.value, ast.Call) and isinstance(s.value.func, ast.Attribute) \
                and s.value.func.attr == "append" and isinstance(s.value.func.value, ast.Name) and len(s.value.args) == 1:
            return s.value.func.value.id
        return None

    def targets(self, s):
        out = set()
        for t in s.targets:
            for e in (t.elts if isinstance(t, ast.Tuple) else [t]):
                k = self.ref(e)
                if k is None:
                    raise Unsupported("assignment target " + ast.dump(e)[:50])
                out.add(k)
        return out

    def assigned(self, stmts):
        out = set()
        for s in stmts:
            if is_skip(s):
                continue
            if self.has_effect(s):
                out.add(FX)
            if isinstance(s, ast.Assign):
                out |= self.targets(s)
            elif self.append_target(s):
                out.add(self.append_target(s))
            elif isinstance(s, ast.If):
                out |= self.assigned(s.body) | self.assigned(s.orelse)
            elif isinstance(s, ast.Try):
                out |= self.assigned(s.body) | self.assigned([x for h in s.handlers for x in h.body]) | self.assigned(s.orelse + s.finalbody)
            elif isinstance(s, ast.For):
                out |= self.assigned(s.body)
        return out

    @staticmethod
    def is_flag_test(t):
        if isinstance(t, ast.Name):
            return True
        if isinstance(t, ast.UnaryOp) and isinstance(t.op, ast.Not):
            return Tr.is_flag_test(t.operand)
        if isinstance(t, ast.BoolOp):
            return all(Tr.is_flag_test(v) for v in t.values)
        if isinstance(t, ast.Attribute) and t.attr == "is_valid":
            return True
        return False

    # ------------------------------------------------------------------ liveness (backwards; dead statements read nothing)
    def live_in(self, stmts, lo):
        for s in reversed(stmts):
            lo = self.live_stmt(s, lo)
        return lo

    def droppable(self, s, lo):
        if isinstance(s, ast.Assign):
            return not (self.targets(s) & lo) and not self.has_effect(s)
        if isinstance(s, (ast.If, ast.Try, ast.For)):
            return not (self.assigned([s]) & lo) and not self.has_terminator([s])
        if isinstance(s, ast.Expr):
            t = self.append_target(s)
            return (t not in lo) if t else not self.has_effect(s)
        return False

    def live_stmt(self, s, lo):
        if is_skip(s):
            return lo
        if isinstance(s, ast.Return):
            return (self.reads(s.value) if s.value is not None else set()) | set(self.end_live)
        if isinstance(s, ast.Continue):
            return set(self.loop_live)
        if self.droppable(s, lo):
            return lo
        if isinstance(s, (ast.Expr, ast.Assign)) and self.effect_of(s):
            return (lo - (self.targets(s) if isinstance(s, ast.Assign) else set())) | {FX}
        if isinstance(s, ast.Assign):
            return (lo - self.targets(s)) | self.reads(s.value) | ({FX} if self.has_effect(s) else set())
        if isinstance(s, ast.Expr):
            t = self.append_target(s)
            if t:
                return lo | ({t} if t in self.counts else self.reads(s.value))
            return lo | self.reads(s.value) | {FX}
        if isinstance(s, ast.If):
            exports = self.assigned([s]) & lo
            opaque = exports <= {FX} and not self.has_terminator([s]) and not self.is_flag_test(s.test)
            return (set() if opaque else self.reads(s.test)) | self.live_in(s.body, lo) | self.live_in(s.orelse, lo)
        if isinstance(s, ast.Try):
            return lo | self.live_in(s.body, lo) | self.live_in([x for h in s.handlers for x in h.body], lo)
        if isinstance(s, ast.For):
            return self.loop_head(s, lo) | self.reads(s.iter)
        raise Unsupported("statement " + type(s).__name__)

    def loop_head(self, s, lo):
        """what is live at the head of a loop (apart from what the iterable reads)"""
        cur = set(lo)
        while True:
            saved, self.loop_live = getattr(self, "loop_live", set()), cur
            nxt = cur | (self.live_in(s.body, cur) - self.targets(ast.Assign(targets=[s.target], value=None)))
            self.loop_live = saved
            if nxt == cur:
                return cur
            cur = nxt

    # ------------------------------------------------------------------ expressions
    def fresh(self, p="a"):
        self.n += 1
        return "%s%d" % (p, self.n)

    def coerce(self, text, frm, to):
        if frm == to:
            return text
        if frm == "None" and isinstance(to, tuple) and to[0] == "Opt":
            return "none"
        if isinstance(to, tuple) and to[0] == "Opt" and to[1] == frm:
            return "(some %s)" % text
        if frm == "Bool" and to == "Val":
            return "(PyVal.bool %s)" % text
        if frm == "Val" and to == "Bool":
            return "(Api.valTruthy %s)" % text
        if frm == "Val" and to == "Input":
            self.needs.add("E")
            return "(Api.ofVal E %s)" % text
        if frm == "Out" and to == "Input":
            self.needs.add("E")
            return "(Api.ofOut E %s)" % text
        if frm == "Str" and to == "Fmt":
            m = re.fullmatch(r'"([a-z_]+)"', text)
            if m and m.group(1) in FMT:
                return "Fmt" + FMT[m.group(1)]
            raise Unsupported("not the name of a format: " + text)
        if isinstance(frm, tuple) and isinstance(to, tuple) and frm[0] == to[0] == "Tup" and len(frm[1]) == len(to[1]):
            parts = self.parts.get(text)
            if parts is None:
                k = len(frm[1])
                parts = [("%s%s" % (text, ".2" * i + (".1" if i < k - 1 else "")), frm[1][i]) for i in range(k)]
            return "(" + ", ".join(self.coerce(p, f, t) for (p, f), t in zip(parts, to[1])) + ")"
        if frm == ("Tup", ("Val", "Str")) and to == "Res" or frm == ("Tup", ("Out", "Str")) and to == "Res":
            a, b = self.parts[text]
            return "(%s %s, %s)" % ("Sum.inl" if frm[1][0] == "Val" else "Sum.inr", a[0], b[0])
        raise Unsupported("a %s where a %s is needed (%s)" % (frm, to, text[:40]))

    def need_rgb(self, e, kind):
        """an RGB argument; an optional one raises `kind` on None"""
        s, t = e
        if t == "RGB":
            return s
        if t == ("Opt", "RGB"):
            a = self.fresh()
            self.pre.append("Api.withRgb .%s %s fun %s =>" % (kind, s, a))
            self.raised = True
            return a
        raise Unsupported("a %s where a colour triple is needed" % (t,))

    def truth(self, e):
        s, t = e
        if t == "Bool":
            return s
        if t == "Out":
            return "(Api.outTruthy %s)" % s
        if t == "Val":
            return "(Api.valTruthy %s)" % s
        if t == "Count":
            return "(decide (0 < %s))" % s
        if t == ("Opt", "Out"):
            return "((%s).filter Api.outTruthy).isSome" % s
        if isinstance(t, tuple) and t[0] == "Opt" and t[1] in ("Color", "ColorPair"):
            return "(%s).isSome" % s
        raise Unsupported("truth value of a %s" % (t,))

    def bind_args(self, sig, args, keywords, skip_self=True):
        """positional and keyword arguments against a signature read from the source; defaults filled in"""
        params = sig["params"]
        got = {}
        if len(args) > len(params):
            raise Unsupported("too many arguments for " + sig["lean"])
        for (pn, _pt, _d), a in zip(params, args):
            got[pn] = a
        for k in keywords:
            if k.arg is None or k.arg in got or k.arg not in [p[0] for p in params]:
                raise Unsupported("keyword argument %s of %s" % (k.arg, sig["lean"]))
            got[k.arg] = k.value
        out = []
        for pn, pt, d in params:
            node = got.get(pn, d)
            if node is None:
                raise Unsupported("missing argument %s of %s" % (pn, sig["lean"]))
            e = self.expr(node)
            out.append(self.coerce(e[0], e[1], pt))
        return out

    def call_generated(self, key, recv, args, keywords):
        sig = self.reg.fns[key]
        self.needs |= sig["needs"]
        actual = ([recv] if recv is not None else []) + self.bind_args(sig, args, keywords)
        text = "(%s)" % " ".join([sig["lean"] + " (α := α)"] + [x for x in ("E", "O", "d", "cond") if x in sig["needs"]] + actual)
        if sig["raises"] or sig["fx"]:
            r = self.fresh("r")
            if sig["fx"]:
                f = self.fresh("fx")
                if FX not in self.env:
                    raise Unsupported("effects where none are tracked")
                pat = "(%s, %s)" % (r, f)
            else:
                pat = r
            if sig["raises"]:
                self.pre.append("Api.andThen %s fun %s =>" % (text, pat))
                self.raised = True
            else:
                self.pre.append("let %s := %s" % (pat, text))
            if sig["fx"]:
                self.pre.append("let %s := %s ++ %s" % (FX, FX, f))
            text = r
        return (text, sig["ret"])

    def expr(self, n):
        if isinstance(n, ast.Constant):
            v = n.value
            if v is None:
                return ("none", "None")
            if isinstance(v, bool):
                return ("true" if v else "false", "Bool")
            if isinstance(v, int):
                return (str(v) if v >= 0 else "(%d)" % v, "Int")
            if isinstance(v, str):
                return (lit(v), "Str")
            raise Unsupported("constant %r" % (v,))
        k = self.ref(n)
        if k is not None:
            if k not in self.env:
                raise Unsupported("%s is read before it is bound" % k)
            if self.env[k] == "None":
                return ("none", "None")
            return (self.var(k), self.env[k])
        if isinstance(n, ast.Tuple):
            es = [self.expr(x) for x in n.elts]
            text = "(" + ", ".join(e[0] for e in es) + ")"
            self.parts[text] = es
            return (text, ("Tup", tuple(e[1] for e in es)))
        if isinstance(n, ast.List) and not n.elts:
            return ("[]", ("List", None))
        if isinstance(n, ast.Attribute):
            v = self.expr(n.value)
            cls = v[1]
            if cls in ATTRS and n.attr in ATTRS[cls]:
                f, t = ATTRS[cls][n.attr]
                return ("%s.%s" % (v[0], f), t)
            if (cls, n.attr) in self.reg.props:
                return self.call_generated(self.reg.props[(cls, n.attr)], v[0], [], [])
            raise Unsupported("attribute .%s of a %s" % (n.attr, cls))
        if isinstance(n, ast.UnaryOp) and isinstance(n.op, ast.Not):
            return ("!%s" % self.truth(self.expr(n.operand)), "Bool")
        if isinstance(n, ast.BoolOp):
            op = " && " if isinstance(n.op, ast.And) else " || "
            return ("(" + op.join(self.truth(self.expr(v)) for v in n.values) + ")", "Bool")
        if isinstance(n, ast.Compare) and len(n.ops) == 1:
            a, op, b = n.left, n.ops[0], n.comparators[0]
            if isinstance(op, (ast.Is, ast.IsNot)) and isinstance(b, ast.Constant) and b.value is None:
                e = self.expr(a)
                if not (isinstance(e[1], tuple) and e[1][0] == "Opt"):
                    raise Unsupported("`is None` on a %s" % (e[1],))
                return ("(%s).%s" % (e[0], "isSome" if isinstance(op, ast.IsNot) else "isNone"), "Bool")
            if isinstance(op, (ast.Eq, ast.NotEq)):
                x, y = self.expr(a), self.expr(b)
                tx, ty = ("Int" if t == "Nat" else t for t in (x[1], y[1]))
                if tx != ty or tx not in ("Str", "Int", "Bool"):
                    raise Unsupported("comparison of %s with %s" % (x[1], y[1]))
                return ("(%s %s %s)" % (x[0], "==" if isinstance(op, ast.Eq) else "!=", y[0]), "Bool")
            raise Unsupported("comparison " + type(op).__name__)
        if isinstance(n, ast.Call):
            return self.call(n)
        raise Unsupported("expression " + type(n).__name__)

    def call(self, n):
        f = n.func
        if isinstance(f, ast.Name):
            nm = f.id
            if nm in self.reg.ctors:
                return self.call_generated(self.reg.ctors[nm], None, n.args, n.keywords)
            if nm == "detect_color_format" and len(n.args) == 1 and not n.keywords:
                e = self.expr(n.args[0])
                return ("%s.detect" % self.coerce(e[0], e[1], "Input"), "Fmt")
            if nm == "parse_color_to_rgb" and len(n.args) == 1 and [k.arg for k in n.keywords] in ([], ["background"]):
                e = self.expr(n.args[0])
                bg = self.expr(n.keywords[0].value) if n.keywords else ("none", "None")
                a = self.fresh()
                self.pre.append("Api.andThen (%s.parse %s) fun %s =>" % (self.coerce(e[0], e[1], "Input"), self.coerce(bg[0], bg[1], ("Opt", "RGB")), a))
                self.raised = True
                return (a, "RGB")
            if nm == "get_wcag_level" and len(n.args) == 3 and not n.keywords:
                t, b, l = (self.expr(x) for x in n.args)
                t, b = self.need_rgb(t, "typeError"), self.need_rgb(b, "typeError")
                return ("(wcagLevel (α := α) %s %s %s).toString" % (t, b, self.coerce(l[0], l[1], "Bool")), "Str")
            if nm == "check_and_fix_contrast" and len(n.args) == 5 and not n.keywords:
                t, b, l, m, p = (self.expr(x) for x in n.args)
                t, b = self.need_rgb(t, "valueError"), self.need_rgb(b, "valueError")
                self.needs |= {"O", "d"}
                return ("(Api.checkAndFixOut O d %s %s %s %s %s)" % (t, b, self.coerce(l[0], l[1], "Bool"), self.coerce(m[0], m[1], "Int"), self.coerce(p[0], p[1], "Bool")),
                        ("Tup", ("Out", "Bool")))
            if nm == "format_color" and len(n.args) == 2 and not n.keywords:
                c, fm = (self.expr(x) for x in n.args)
                c = self.need_rgb(c, "typeError")
                return ("(formatColor (α := α) %s %s)" % (c, self.coerce(fm[0], fm[1], "Fmt")), "Out")
            if nm == "len" and len(n.args) == 1:
                e = self.expr(n.args[0])
                if isinstance(e[1], tuple) and e[1][0] == "List":
                    return ("%s.length" % e[0], "Nat")
            if nm == "str" and len(n.args) == 1 and isinstance(n.args[0], ast.Name) and self.env.get(n.args[0].id) == "Exc":
                return ("()", "Unit")
            raise Unsupported("call of %s" % nm)
        if isinstance(f, ast.Attribute):
            if f.attr == "lower" and not n.args and not n.keywords:
                e = self.expr(f.value)
                if e[1] == "Str":
                    return ("%s.toLower" % e[0], "Str")
            v = self.expr(f.value)
            if (v[1], f.attr) in self.reg.methods:
                return self.call_generated(self.reg.methods[(v[1], f.attr)], v[0], n.args, n.keywords)
            raise Unsupported("method .%s of a %s" % (f.attr, v[1]))
        raise Unsupported("call " + ast.dump(f)[:40])

    # ------------------------------------------------------------------ statements
    def flush(self):
        out, self.pre = self.pre, []
        return out

    def bind(self, key, text, t):
        """`let key := text`, with the field's declared type if it is an observed field"""
        if self.ctor and key.startswith("self.") and key[5:] in FIELDS[self.cls]:
            want = FIELDS[self.cls][key[5:]]
            text, t = self.coerce(text, t, want), want
        elif key in self.env and self.env[key] != t:
            want = join(self.env[key], t) if self.env[key] != "None" else t
            text, t = self.coerce(text, t, want), want
        if t == "None" and key in self.none_types:
            t = ("Opt", self.none_types[key])
        ann = " : %s" % lean_type(t) if text in ("none", "[]") and t != "None" else ""
        if t == "None" or (isinstance(t, tuple) and t[0] == "List" and t[1] is None):
            raise Unsupported("cannot tell what %s holds" % key)
        self.env[key] = t
        return "let %s%s := %s" % (self.var(key), ann, text)

    def pattern(self, keys):
        vs = [self.var(k) for k in keys]
        return vs[0] if len(vs) == 1 else "(" + ", ".join(vs) + ")"

    def tail_exports(self, keys, exc, types=None, sink=None):
        """the value of a branch: the exported variables (coerced to the joined types on the second pass)"""
        def go():
            for k in keys:
                if k not in self.env:
                    raise Unsupported("%s may be unbound after a branch" % k)
            if sink is not None:
                sink.append([self.env[k] for k in keys])
            vs = [self.coerce(self.var(k), self.env[k], types[i]) if types else ("none" if self.env[k] == "None" else self.var(k)) for i, k in enumerate(keys)]
            v = vs[0] if len(vs) == 1 else "(" + ", ".join(vs) + ")"
            return ["Except.ok %s" % v if exc else v]
        return go

    def merge(self, branches, keys, live_after, setups=None):
        """translate alternative statement lists to terms of one type: the tuple of `keys`; returns (terms, raised)"""
        saved_env, saved_raised, saved_n = dict(self.env), self.raised, self.n
        exc, types = False, None
        for _ in range(4):
            outs, any_raise, seen = [], False, []
            for i, b in enumerate(branches):
                self.env, self.raised = dict(saved_env), False
                pre = setups[i]() if setups and setups[i] else []
                outs.append(pre + self.block(b, self.tail_exports(keys, exc, types, seen), live_after))
                any_raise |= self.raised
            if not seen:
                raise Unsupported("branches without a value")
            want = list(seen[0])
            for s in seen[1:]:
                want = [join(x, y) for x, y in zip(want, s)]
            if (any_raise and not exc) or (want != (types or seen[0]) or any(s != want for s in seen) and types is None):
                exc, types = exc or any_raise, want
                self.n = saved_n
                continue
            break
        else:
            raise Unsupported("branches do not settle on one type")
        self.env = dict(saved_env)
        for k, t in zip(keys, want):
            self.env[k] = t
        self.raised = saved_raised or any_raise
        return outs, exc

    def join_lines(self, term, keys, exc):
        if exc:
            return paren(term, "Api.andThen (", ") fun %s =>" % self.pattern(keys))
        return ["let %s :=" % self.pattern(keys)] + ind(term)

    def narrowing(self, test):
        """`X` / `X and REST` with X optional -> (key, REST or None)"""
        first, restv = (test.values[0], test.values[1:]) if isinstance(test, ast.BoolOp) and isinstance(test.op, ast.And) else (test, [])
        k = self.ref(first)
        if k and k in self.env and isinstance(self.env[k], tuple) and self.env[k][0] == "Opt":
            rest = None if not restv else (restv[0] if len(restv) == 1 else ast.BoolOp(op=ast.And(), values=restv))
            return k, rest
        return None, None

    def stmt_if(self, s, rest, tail, live_out, live_after):
        guard = self.terminates(s.body) and (not s.orelse or self.terminates(s.orelse))
        exports = sorted(self.assigned([s]) & live_after)
        nk, nrest = self.narrowing(s.test)
        if guard:
            if nk:
                raise Unsupported("narrowing test on a branch that returns")
            c = self.truth(self.expr(s.test))
            pre = self.flush()
            saved = dict(self.env)
            a = self.block(s.body, tail, live_out)
            self.env = dict(saved)
            b = self.block(list(s.orelse) if s.orelse else rest, tail, live_out)
            return pre + ["if %s then" % c] + ind(a) + ["else"] + ind(b), True
        if self.has_terminator([s]):
            raise Unsupported("a branch that returns while the other goes on")
        if nk:
            inner_t = self.env[nk][1]
            scrut = self.var(nk)
            if inner_t == "Out":
                scrut = "(%s).filter Api.outTruthy" % scrut
            elif inner_t not in ("Color", "ColorPair"):
                raise Unsupported("truth value of an optional %s" % (inner_t,))

            def narrow():
                self.env[nk] = inner_t
                return []
            if nrest is None:
                outs, exc = self.merge([s.body, s.orelse], exports, live_after, [narrow, None])
                term = ["(match %s with" % scrut, "| some %s =>" % self.var(nk)] + ind(outs[0]) + ["| none =>"] + ind(outs[1]) + [")"]
            else:
                inner = ast.If(test=nrest, body=s.body, orelse=s.orelse)
                outs, exc = self.merge([[inner], s.orelse], exports, live_after, [narrow, None])
                term = ["(match %s with" % scrut, "| some %s =>" % self.var(nk)] + ind(outs[0]) + ["| none =>"] + ind(outs[1]) + [")"]
            return self.join_lines(term, exports, exc), False
        try:
            c = self.truth(self.expr(s.test))
            pre = self.flush()
        except Unsupported:
            if not (set(exports) <= {FX}) or self.is_flag_test(s.test):
                raise
            self.pre = []
            c = "cond %d" % self.nconds
            self.nconds += 1
            self.needs.add("cond")
            pre = []
        outs, exc = self.merge([s.body, s.orelse], exports, live_after)
        term = ["(if %s then" % c] + ind(outs[0]) + ["else"] + ind(outs[1]) + [")"]
        return pre + self.join_lines(term, exports, exc), False

    def can_raise_syntactically(self, node):
        names = {k[1] for k, v in list(self.reg.props.items()) + list(self.reg.methods.items()) if self.reg.fns[v]["raises"]}
        for n in walk_no_defs(node):
            if isinstance(n, ast.Call) and isinstance(n.func, ast.Name) and n.func.id in RAISING:
                return True
            if isinstance(n, ast.Attribute) and n.attr in names:
                return True
            if isinstance(n, ast.Assign) and isinstance(n.targets[0], ast.Tuple) and isinstance(n.value, ast.Name) \
                    and isinstance(self.env.get(n.value.id), tuple) and self.env[n.value.id][0] == "List":
                return True
        return False

    def stmt_try(self, s, rest, tail, live_out, live_after):
        if len(s.handlers) != 1 or s.orelse or s.finalbody:
            raise Unsupported("shape of try statement")
        h = s.handlers[0]
        if h.type is None or (isinstance(h.type, ast.Name) and h.type.id in ("Exception", "BaseException")):
            caught = None
        else:
            names = [x.id if isinstance(x, ast.Name) else None for x in (h.type.elts if isinstance(h.type, ast.Tuple) else [h.type])]
            if any(x not in KINDS for x in names):
                raise Unsupported("except clause " + ast.get_source_segment(self.src, h.type))
            caught = [KINDS[x] for x in names]
        # hoist the pure prefix
        lines, body = [], list(s.body)
        while body:
            first = body[0]
            saved = (dict(self.env), self.raised, self.n, self.nconds)
            self.raised = False
            la = self.live_in(body[1:], live_after | self.live_in(h.body, live_after))
            try:
                got, done = self.stmt(first, body[1:], None, live_after, la)
            except Unsupported:
                got, done = None, True
            if done or self.raised or self.can_raise_syntactically(first):
                self.env, self.raised, self.n, self.nconds = saved[0], saved[1], saved[2], saved[3]
                break
            self.raised = saved[1]
            lines += got
            body = body[1:]
        if not body:
            return lines, False
        if self.has_terminator(body) or self.has_terminator(h.body):
            raise Unsupported("return inside try")
        exports = sorted((self.assigned(body) | self.assigned(h.body)) & live_after)
        # no raising call after an exported binding inside BODY'
        simple = [n for st in body for n in walk_no_defs(st) if isinstance(n, (ast.Assign, ast.Expr))]
        simple.sort(key=lambda n: (n.lineno, n.col_offset))
        last_raise = max([i for i, n in enumerate(simple) if self.can_raise_syntactically(n)], default=-1)
        first_exp = min([i for i, n in enumerate(simple) if self.assigned([n]) & set(exports)], default=len(simple))
        if last_raise > first_exp:
            raise Unsupported("a call that can raise follows a binding the handler can see")
        saved_env, saved_raised = dict(self.env), self.raised
        if caught is None:
            self.raised = False
            btypes = None
            for _ in range(3):
                self.env, bt = dict(saved_env), []
                b = self.block(body, self.tail_exports(exports, True, btypes, bt), live_after)
                self.env = dict(saved_env)
                if h.name:
                    self.env[h.name] = "Exc"
                self.raised_h = self.raised
                self.raised = False
                hh = self.block(list(h.body), self.tail_exports(exports, False, btypes, bt), live_after)
                if self.raised:
                    raise Unsupported("a handler that can raise")
                want = list(bt[0])
                for x in bt[1:]:
                    want = [join(p, q) for p, q in zip(want, x)]
                if all(x == want for x in bt):
                    break
                btypes = want
            self.env = dict(saved_env)
            for k, t in zip(exports, want):
                self.env[k] = t
            self.raised = saved_raised
            if not exports:
                return lines, False
            term = paren(b, "(match (", ") with") + ["| .ok v => v", "| .error _ =>"] + ind(hh) + [")"]
            return lines + self.join_lines(term, exports, False), False
        # a partial catch: tail position only (the continuation is repeated in both arms)
        self.raised = False
        b = self.block(body, self.tail_exports(exports, True), live_after)
        env_ok = dict(self.env)
        k_ok = self.block(rest, tail, live_out)
        self.env = dict(saved_env)
        if h.name:
            self.env[h.name] = "Exc"
        k_h = self.block(list(h.body) + rest, tail, live_out)
        e = self.fresh("e")
        if self.ctor:
            if "self._format" not in self.env:
                raise Unsupported("no format to report")
            prop = "Api.raisedWith %s %s" % (self.var("self._format"), e)
        else:
            prop = "Except.error %s" % e
            self.raised = True
        self.env = env_ok
        self.raised = saved_raised or (not self.ctor)
        pat = self.pattern(exports) if exports else "_"
        term = paren(b, "(match (", ") with") + ["| .ok %s =>" % pat] + ind(k_ok) + \
            ["| " + " | ".join(".error .%s" % k for k in caught) + " =>"] + ind(k_h)
        if set(caught) >= set(KINDS.values()):
            term[-1] += ")"          # every kind the model has is caught: no propagating arm (Lean rejects a redundant alternative)
        else:
            term += ["| .error %s => %s)" % (e, prop)]
        return lines + term, True

    def stmt_for(self, s, rest, tail, live_out, live_after):
        it = s.iter
        if not (isinstance(it, ast.Call) and isinstance(it.func, ast.Name) and it.func.id == "enumerate" and len(it.args) == 1
                and isinstance(s.target, ast.Tuple) and len(s.target.elts) == 2 and all(isinstance(x, ast.Name) for x in s.target.elts)) or s.orelse:
            raise Unsupported("shape of for statement")
        xs = self.expr(it.args[0])
        if not (isinstance(xs[1], tuple) and xs[1][0] == "List"):
            raise Unsupported("loop over a %s" % (xs[1],))
        iname, xname = (x.id for x in s.target.elts)
        head = self.loop_head(s, live_after)
        state = sorted(self.assigned(s.body) & head)
        if any(k not in self.env for k in state):
            raise Unsupported("loop state unbound before the loop")
        for n in walk_no_defs(ast.Module(body=s.body, type_ignores=[])):
            if isinstance(n, (ast.Return, ast.Break)):
                raise Unsupported("return/break inside the loop")
        caps = sorted(k for k in (self.live_in(s.body, set(head)) - set(state) - {iname, xname}) if k in self.env)
        sub = Tr(self.reg, self.src, self.name + "__loop", self.cls)
        sub.env = {k: self.env[k] for k in caps + state}
        sub.env[iname], sub.env[xname] = "Nat", xs[1][1]
        sub.counts, sub.none_types, sub.list_types = self.counts, self.none_types, self.list_types
        sub.n, sub.nconds, sub.needs, sub.pre, sub.parts, sub.raised = 0, self.nconds, set(), [], {}, True
        sub.end_live, sub.loop_live = set(), set(head)
        sub.exc = True
        state_types = [self.env[k] for k in state]
        body = sub.block(list(s.body), sub.tail_exports(state, True, state_types), set(head))
        self.needs |= sub.needs
        self.nconds = sub.nconds
        sub.loop_tail = None
        sig = " ".join("(%s : %s)" % (self.var(k), lean_type(self.env[k])) for k in caps)
        fixed = " ".join("(%s : %s)" % x for x in (("E", "PEnv"), ("O", "Leaf α"), ("d", "Descend α"), ("cond", "Nat → Bool")) if x[0] in sub.needs)
        stype = lean_type(("Tup", tuple(state_types))) if len(state) > 1 else lean_type(state_types[0])
        self.aux.append("/-- body of the loop at line %d of `%s` -/\ndef %s__loop %s %s (%s : Nat) (%s : %s) (s : %s) : Except PyErr %s :=\n%s\n" % (
            s.lineno - self.line0 + 1, self.name, self.lean_name, fixed, sig, lname(iname), lname(xname), lean_type(xs[1][1]), stype, stype,
            "\n".join(ind(["let %s := s" % self.pattern(state)] + body))))
        call = "(Api.forEnum (%s__loop (α := α) %s) 0 %s %s)" % (self.lean_name, " ".join([x for x in ("E", "O", "d", "cond") if x in sub.needs] + [self.var(k) for k in caps]),
                                                        xs[0], self.pattern(state))
        self.raised = True
        return ["Api.andThen %s fun %s =>" % (call, self.pattern(state))], False

    def stmt(self, s, rest, tail, live_out, live_after):
        """-> (lines, consumed_rest)"""
        if is_skip(s):
            return [], False
        if isinstance(s, ast.Return):
            if self.ctor:
                if s.value is not None:
                    raise Unsupported("a constructor returning a value")
                return self.end_tail(), True
            e = self.expr(s.value) if s.value is not None else ("none", "None")
            pre = self.flush()
            self.ret_types.append(e[1])
            v = self.coerce(e[0], e[1], self.ret_type) if self.ret_type else e[0]
            if self.fx:
                v = "(%s, %s)" % (v, FX)
            return pre + ["Except.ok %s" % v if self.exc else v], True
        if isinstance(s, ast.Continue):
            return tail(), True
        if self.droppable(s, live_after):
            return [], False
        if isinstance(s, (ast.Expr, ast.Assign)):
            fx = self.effect_of(s)
            if fx:
                if FX not in self.env:
                    raise Unsupported("effects where none are tracked")
                return ["let %s := %s ++ [%s]" % (FX, FX, ", ".join(fx))], False
        if isinstance(s, ast.Assign):
            if len(s.targets) != 1:
                raise Unsupported("chained assignment")
            t = s.targets[0]
            if isinstance(t, ast.Tuple):
                keys = [self.ref(x) for x in t.elts]
                e = self.expr(s.value)
                pre = self.flush()
                if isinstance(e[1], tuple) and e[1][0] == "Tup" and len(e[1][1]) == len(keys):
                    for k, ty in zip(keys, e[1][1]):
                        self.env[k] = ty
                    return pre + ["let %s := %s" % (self.pattern(keys), e[0])], False
                if isinstance(e[1], tuple) and e[1][0] == "List":
                    for k in keys:
                        self.env[k] = e[1][1]
                    self.raised = True
                    vs = ", ".join(self.var(k) for k in keys)
                    return pre + ["Api.andThen (match %s with | [%s] => Except.ok (%s) | _ => Except.error .valueError) fun (%s) =>" % (e[0], vs, vs, vs)], False
                raise Unsupported("unpacking a %s" % (e[1],))
            k = self.ref(t)
            e = self.expr(s.value)
            pre = self.flush()
            if e[0] == "[]":
                if k in self.counts:
                    e = ("0", "Count")
                elif k in self.list_types:
                    e = ("[]", ("List", self.list_types[k]))
            if e[1] == "None" and not (self.ctor and k.startswith("self.") and k[5:] in FIELDS[self.cls]):
                self.env[k] = "None"        # no binding yet: the literal is used where the variable is read
                return pre, False
            return pre + [self.bind(k, e[0], e[1])], False
        if isinstance(s, ast.Expr):
            t = self.append_target(s)
            if t:
                if t not in self.env:
                    raise Unsupported("append to unbound " + t)
                if self.env[t] == "Count":
                    return ["let %s := %s + 1" % (self.var(t), self.var(t))], False
                e = self.expr(s.value.args[0])
                pre = self.flush()
                return pre + ["let %s := %s ++ [%s]" % (self.var(t), self.var(t), self.coerce(e[0], e[1], self.env[t][1]))], False
            e = self.expr(s.value)      # a call for its effects
            pre = self.flush()
            if not pre:
                raise Unsupported("expression statement " + ast.dump(s.value)[:40])
            return pre, False
        if isinstance(s, ast.If):
            return self.stmt_if(s, rest, tail, live_out, live_after)
        if isinstance(s, ast.Try):
            return self.stmt_try(s, rest, tail, live_out, live_after)
        if isinstance(s, ast.For):
            return self.stmt_for(s, rest, tail, live_out, live_after)
        raise Unsupported("statement " + type(s).__name__)

    def block(self, stmts, tail, live_out):
        lines = []
        stmts = list(stmts)
        for i, s in enumerate(stmts):
            rest = stmts[i + 1:]
            got, done = self.stmt(s, rest, tail, live_out, self.live_in(rest, live_out))
            lines += got
            if done:
                return lines
        return lines + tail()

    # ------------------------------------------------------------------ whole functions
    def prescan(self, stmts):
        """report lists (only appended to / truth-tested / handed to to_html_bulk), element types of result lists, `x = None`"""
        mod = ast.Module(body=list(stmts), type_ignores=[])
        empties = {s.targets[0].id for s in walk_no_defs(mod) if isinstance(s, ast.Assign) and isinstance(s.targets[0], ast.Name)
                   and isinstance(s.value, ast.List) and not s.value.elts}
        handed = {c.args[0].id for c in walk_no_defs(mod) if isinstance(c, ast.Call) and isinstance(c.func, ast.Name) and c.func.id in WRITE_CALLS
                  and c.args and isinstance(c.args[0], ast.Name)}
        returned = {s.value.id for s in walk_no_defs(mod) if isinstance(s, ast.Return) and isinstance(s.value, ast.Name)}
        self.counts = (empties & handed) - returned
        self.list_types = {k: "Res" for k in empties & returned}
        self.none_types = {}

    def params_of(self, node, skip_self):
        args = node.args
        if args.vararg or args.kwarg or args.kwonlyargs or args.posonlyargs:
            raise Unsupported("signature of " + node.name)
        ps = args.args[1:] if skip_self else args.args
        defaults = [None] * (len(ps) - len(args.defaults)) + list(args.defaults)
        out = []
        for a, d in zip(ps, defaults):
            ann = ast.get_source_segment(self.src, a.annotation).replace(" ", "") if a.annotation is not None else None
            if (node.name, a.arg) in PARAM_TYPES:
                t = PARAM_TYPES[(node.name, a.arg)]
            elif ann == "int":
                t = "Int"
            elif ann == "bool":
                t = "Bool"
            elif ann in ('Optional["Color"]', "Optional['Color']", "Optional[Color]", '"Color"|None', "Color|None"):
                t = ("Opt", "Color")
            elif ann is None and isinstance(d, ast.Constant) and isinstance(d.value, bool):
                t = "Bool"
            elif ann is None and isinstance(d, ast.Constant) and isinstance(d.value, int):
                t = "Int"
            elif ann is None or ann.replace("typing.", "") in ("Union[str,tuple,list]", "str|tuple|list", "Union[str,tuple]", "str"):
                t = "Input"
            else:
                raise Unsupported("annotation " + ann)
            out.append((a.arg, t, d))
        return out

    def run(self, node, lean_name, stmts, params, self_type, end_tail=None, end_live=(), doc=""):
        """translate; returns (text, signature)"""
        self.lean_name, self.line0 = lean_name, 1
        self.prescan(stmts)
        self.fx = (not self.ctor) and any(self.has_effect(s) for s in stmts)
        self.exc, self.ret_type = False, None
        self.end_live = set(end_live) | ({FX} if self.fx else set())
        self.end_tail = end_tail
        for _ in range(5):
            self.env = {p[0]: p[1] for p in params}
            if self_type:
                self.env["self"] = self_type
            self.n, self.nconds, self.needs, self.pre, self.parts, self.raised, self.ret_types, self.aux = 0, 0, set(), [], {}, False, [], []
            self.loop_live = set()
            lines = []
            if self.fx:
                self.env[FX] = "Fx"
                lines.append("let %s : List Effect := []" % FX)

            def fall_off():
                if self.ctor:
                    return end_tail()
                raise Unsupported("a path without return")
            lines += self.block(stmts, fall_off, set(self.end_live))
            changed = False
            if self.raised and not self.exc:
                if self.ctor:
                    raise Unsupported("an exception can escape the constructor unrecorded")
                self.exc, changed = True, True
            if not self.ctor:
                want = self.ret_types[0]
                for t in self.ret_types[1:]:
                    want = join(want, t)
                if want != self.ret_type and any(t != want for t in self.ret_types):
                    self.ret_type, changed = want, True
                elif self.ret_type is None:
                    self.ret_type = want
            if not changed:
                break
        else:
            raise Unsupported("the translation does not settle")
        ret = self_type if self.ctor else self.ret_type
        if ret == "None" or (isinstance(ret, tuple) and ret[0] == "Tup" and "None" in ret[1]):
            raise Unsupported("result type")
        rt = lean_type(self.result_type) if self.ctor else lean_type(ret)
        if self.fx:
            rt = "(%s × List Effect)" % rt
        if self.exc:
            rt = "Except PyErr %s" % rt
        fixed = [("(%s : %s)" % x) for x in (("E", "PEnv"), ("O", "Leaf α"), ("d", "Descend α"), ("cond", "Nat → Bool")) if x[0] in self.needs]
        ps = (["(self : %s)" % lean_type(self_type)] if self_type and not self.ctor else []) + ["(%s : %s)" % (lname(p[0]), lean_type(p[1])) for p in params]
        text = "".join(self.aux) + "/-- %s -/\ndef %s %s : %s :=\n%s\n" % (doc, lean_name, " ".join(fixed + ps), rt, "\n".join(ind(lines)))
        sig = {"lean": lean_name, "params": params, "ret": self.result_type if self.ctor else ret, "raises": self.exc, "fx": self.fx, "needs": set(self.needs)}
        return text, sig


def class_members(cls):
    props, methods = {}, {}
    for x in cls.body:
        if isinstance(x, ast.FunctionDef):
            is_prop = any(isinstance(d, ast.Name) and d.id == "property" for d in x.decorator_list)
            if x.name in props or x.name in methods:
                raise Unsupported("%s.%s defined twice" % (cls.name, x.name))
            (props if is_prop else methods)[x.name] = x
    return props, methods


def translate_ctor(reg, src, cls):
    props, methods = class_members(cls)
    init = methods.get("__init__")
    if init is None:
        raise Unsupported("no __init__")
    stmts = [s for s in init.body if not is_skip(s)]
    # a method called as the last statement is inlined
    if stmts and isinstance(stmts[-1], ast.Expr) and isinstance(stmts[-1].value, ast.Call) and isinstance(stmts[-1].value.func, ast.Attribute) \
            and isinstance(stmts[-1].value.func.value, ast.Name) and stmts[-1].value.func.value.id == "self" and not stmts[-1].value.args \
            and not stmts[-1].value.keywords:
        m = methods.get(stmts[-1].value.func.attr)
        if m is None or len(m.args.args) != 1:
            raise Unsupported("call of self.%s()" % stmts[-1].value.func.attr)
        stmts = stmts[:-1] + list(m.body)
    tr = Tr(reg, src, cls.name + ".__init__", cls.name, ctor=True)
    tr.result_type = cls.name
    fields = FIELDS[cls.name]

    def end_tail():
        for f in fields:
            if "self." + f not in tr.env:
                raise Unsupported("self.%s is not set" % f)
            if tr.env["self." + f] != fields[f]:
                raise Unsupported("self.%s holds a %s" % (f, tr.env["self." + f]))
        if cls.name == "Color":
            return ["Api.digest %s %s" % (tr.var("self._format"), tr.var("self._rgb"))]
        return ["{ " + ", ".join("%s := %s" % (f, tr.var("self." + f)) for f in fields) + " }"]
    params = tr.params_of(init, True)
    text, sig = tr.run(init, cls.name + "_new", stmts, params, None, end_tail, ["self." + f for f in fields],
                       "`%s.__init__` (line %d)%s" % (cls.name, init.lineno, "" if len(stmts) == len([s for s in init.body if not is_skip(s)]) else ", with the method it ends by calling"))
    return text, sig


def translate_member(reg, src, cls, node, is_prop):
    tr = Tr(reg, src, "%s.%s" % (cls.name, node.name), cls.name)
    params = [] if is_prop else tr.params_of(node, True)
    if is_prop and len(node.args.args) != 1:
        raise Unsupported("a property with parameters")
    return tr.run(node, "%s_%s" % (cls.name, node.name), list(node.body), params, cls.name, doc="`%s.%s` (line %d)" % (cls.name, node.name, node.lineno))


def translate_function(reg, src, node):
    tr = Tr(reg, src, node.name)
    params = tr.params_of(node, False)
    return tr.run(node, node.name, list(node.body), params, None, doc="`%s` (cm_colors.py line %d)" % (node.name, node.lineno))


HEADER = """import CmModel.ApiVocab
/-! GENERATED by harness/translate/api.py from src/cm_colors/core/{colors,cm_colors}.py — do not edit. -/
set_option linter.unusedVariables false
namespace CmGen.Api
open Cm Cm.Parse
variable {α : Type} [NumT α]

"""

PLAN = [("Color", "prop", "is_valid"), ("Color", "prop", "rgb"), ("Color", "ctor", None), ("ColorPair", "ctor", None),
        ("ColorPair", "prop", "is_valid"), ("ColorPair", "prop", "is_readable"), ("ColorPair", "method", "make_readable")]


def build():
    texts, n = [], 0
    reg = Registry()
    try:
        src = open(os.path.join(REPO, CORE, "colors.py"), encoding="utf-8").read()
        classes = {x.name: x for x in ast.parse(src).body if isinstance(x, ast.ClassDef)}
    except Exception as e:  # noqa
        src, classes = "", {}
        texts.append("-- colors.py: outside the translated subset (%s)\n" % str(e).replace("\n", " ")[:200])
    for cname, kind, name in PLAN:
        label = "%s.%s" % (cname, name or "__init__")
        try:
            cls = classes.get(cname)
            if cls is None:
                raise Unsupported("class %s not found" % cname)
            if kind == "ctor":
                text, sig = translate_ctor(reg, src, cls)
                key = (cname, "__init__")
                reg.fns[key] = sig
                reg.ctors[cname] = key
            else:
                props, methods = class_members(cls)
                node = (props if kind == "prop" else methods).get(name)
                if node is None:
                    raise Unsupported("not found (or no longer a %s)" % ("property" if kind == "prop" else "method"))
                text, sig = translate_member(reg, src, cls, node, kind == "prop")
                key = (cname, name)
                reg.fns[key] = sig
                (reg.props if kind == "prop" else reg.methods)[(cname, name)] = key
            texts.append(text)
            n += text.count("\ndef ") + text.startswith("def ")
        except Exception as e:  # noqa
            texts.append("-- %s: outside the translated subset (%s)\n" % (label, (type(e).__name__ + " " if not isinstance(e, Unsupported) else "") + str(e).replace("\n", " ")[:300]))
    try:
        src2 = open(os.path.join(REPO, CORE, "cm_colors.py"), encoding="utf-8").read()
        nodes = [x for x in ast.parse(src2).body if isinstance(x, ast.FunctionDef) and x.name == "make_readable_bulk"]
        if len(nodes) != 1:
            raise Unsupported("not found (or defined twice)")
        text, sig = translate_function(reg, src2, nodes[0])
        texts.append(text)
        n += text.count("\ndef ") + text.startswith("def ")
    except Exception as e:  # noqa
        texts.append("-- make_readable_bulk: outside the translated subset (%s)\n" % ((type(e).__name__ + " " if not isinstance(e, Unsupported) else "") + str(e).replace("\n", " ")[:300]))
    return HEADER + "\n".join(texts) + "\nend CmGen.Api\n", n


def generate():
    out, n = build()
    path = os.path.join(LEAN, "CmGen", "Api.lean")
    old = open(path, encoding="utf-8").read() if os.path.exists(path) else None
    if old != out:
        with open(path, "w", encoding="utf-8") as fh:
            fh.write(out)
    return n


def summary():
    path = os.path.join(LEAN, "CmGen", "Api.lean")
    text = open(path, encoding="utf-8").read() if os.path.exists(path) else ""
    return {"generated_definitions": re.findall(r"^def (\S+)", text, re.M), "not_translated": re.findall(r"^-- (.*)$", text, re.M),
            "file": "lean/CmGen/Api.lean", "translator": "harness/translate/api.py"}


if __name__ == "__main__":
    print(generate())
