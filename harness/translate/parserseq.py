"""Translator: the tuple/list branch and the top-level dispatch of `parse_color_to_rgb`  ->  lean/CmGen/ParserSeq.lean

Source: `src/cm_colors/core/color_parser.py`, function `parse_color_to_rgb(color, background)`. Three definitions are
generated, each assembled from the syntax tree by the rules below (nothing is keyed on the text of a whole function):

  parse_color_seq E color background        the body of the top-level statement `if isinstance(color, (tuple, list)):`
                                            (located by its test), with `color : List (PyVal α)`
  parse_color_seq__for1 E c                 the body of the first `for` loop of that branch, for one element
  parse_color_to_rgb strBranch E color background
                                            the top-level statements of the function: the two `isinstance` tests and
                                            the final `raise`; the body of `if isinstance(color, str):` is the
                                            *parameter* `strBranch` (translated elsewhere), the body of the sequence
                                            test is `parse_color_seq`

`CmProps/C14seq.lean` proves them equal to the model's `parseColor` / `rgbComponent` for every carrier and environment.

THE RULES (the trusted part of this tie; in addition to the general conventions of translate/leaves.py and
translate/strhelpers.py: messages of exceptions, docstrings, `pass`, logging calls are not modelled)

Values and types
  a parameter / tuple element / loop variable of unknown Python type     `PyVal α`  (CmModel/PyVal.lean)
  `color` inside the sequence branch                                     `List (PyVal α)` (tuple and list alike)
  `background`                                                           `Option RGB` — the BACKGROUND ABSTRACTION:
        `Color._parse` passes `None` or the already parsed 3-tuple of ints of another colour, so the image of the
        parameter is `Option RGB`, and on it
          `background is None` / `is not None`      -> `match background with | none => … | some background_v => …`
          `isinstance(background, (tuple, list))`   -> `true`      (inside the `some` arm)
          `len(background)`                         -> `(3 : Nat)` (inside the `some` arm)
          `tuple(background)`                       -> `background_v`
          `parse_color_to_rgb(background)`          -> `← bgParsed (some background_v)`  (the model's re-validation of a
                                                       triple; C14seq proves `source_background_reparse`: the generated
                                                       sequence branch on three ints IS `bgParsed`)
  `x = None` then `x = <colour>`                    -> `x : Option RGB`, later colour values are stored as `some …`
  `(a, b, c)` of three ints                         -> `((a, b, c) : RGB)`
  int literal `k` next to a float                   -> the decimal literal `(k.0 : α)` (exact for these sizes);
  float literal                                     -> `(lit : α)` exactly as written

isinstance and the views of a dynamically typed value (x a local name of type `PyVal α`)
  class            lone test           view: scrutinee, pattern               the view variable is
  int              `x.isInt`           `x.intValue`,  `some x_i`  / `none`     the `Int` x is (bool: 1/0)   (CmModel/PyValInt.lean)
  float            `x.isFloat`         `x`,           `.float x_f` / `_`       the float x is
  (int, float)     `x.isNumber`        `x.numValue`,  `some x_n`  / `none`     `float(x)`
  str              —                   `x`,           `.str x_s`   / `_`       the `Str` x is
  (tuple, list)    —                   `x`,           `.tuple x_xs | .list x_xs` / `_`   the element list
  * statement `if isinstance(x, T) [and rest…]: A else: B`
        -> `match <scrutinee> with | <pattern> => (if <rest> then A else B) | <other> => B`   (just `A` without rest)
     inside `rest` and `A` the name x is *narrowed*: a direct use of x (comparison, arithmetic, `round`) is the view
     variable for int / float / str; for (int, float) only `float(x)` is allowed (the view variable).
  * inside an `and` chain `isinstance(x, T) and rest…` (Bool valued)
        -> `(match <scrutinee> with | <pattern> => <rest> | <other> => false)` when `rest` uses the view,
           `(x.isT && <rest>)` otherwise;   a lone `isinstance(x, T)` (in `or`, under `not`) -> `x.isT`
  * `float(x)`: narrowed float or (int, float) -> view variable; narrowed int -> `Num.ofInt x_i`;
    not narrowed by an `isinstance` earlier in the same chain / enclosing `if` -> outside the subset.
    LIMIT OF THIS RULE (and of the model's total `PyVal.numValue`): CPython's `float(n)` raises `OverflowError` for an
    int |n| >= 2**1024; the image is total (`Num.ofInt n`, infinite at `Float`). Ints of that size are outside the tie:
    `parse_color_to_rgb((10**400, 0, 0))` raises OverflowError at `1 < float(r_raw)` where image and model say ValueError.
  * `int(e)`: of an int -> itself; of a float -> `Num.trunc e`.  `round(e)`: of a float -> `Num.roundHE e : Int`
    (round-half-even, as Python 3), of an int -> itself.  `max(a, b)` / `min(a, b)` on ints -> `max a b` / `min a b`.

Operators
  float comparisons `<= < >= >` -> `Num.le / lt / ge / gt` (chains `a <= b <= c` -> `(… && …)`);
  int / length comparisons -> `decide (a ≤ b)`, `decide (a = b)`, …;  `* + - /` on floats -> carrier arithmetic;
  `and` / `or` / `not` -> `&&` / `||` / `!` (operands are pure).

Statements (every block is a `do` block of `Except PyErr`; statements after an `if` that does not terminate are
appended to both arms)
  `x = e`                       -> `let x : T := e`  (calls that may raise are bound first: `let t0 ← …`)
  `a, b, c = xs` (xs a list)    -> `match xs with | [a, b, c] => … | _ => Except.error PyErr.valueError` (CPython raises
                                   ValueError on a length mismatch); from here `xs` is known to be `[a, b, c]`
  `return e` / `return f(…)`    -> `pure e` / the call;   `raise ValueError(…)` -> `Except.error PyErr.valueError`
  `acc = []; for c in xs: BODY` with xs known to be `[a, b, c]`, where every path of BODY either raises or ends with one
  `acc.append(e)` and does nothing else
                                -> generated definition `<def>__for<k> E c` = BODY with `acc.append(e)` ↦ `pure e`,
                                   and `let acc_0 ← <def>__for<k> E a; let acc_1 ← … b; let acc_2 ← … c`
                                   (in order: the first raise wins, as in the loop); acc is then `[acc_0, acc_1, acc_2]`
  `tuple(E(x) for x in acc)` with acc of known length 3 -> `((E(acc_0), E(acc_1), E(acc_2)) : RGB)`

Callees (leaf names; their own ties are separate)
  `_parse_number_token(str(x), component=K)`, x a `PyVal` -> `numberTokenOfVal E x K`  (composite rule: `str()` of a
        number followed by `float()` is the identity on doubles — trusted base, DESIGN.md; see `PyVal.strOf`)
  `_parse_number_token(s, component=K)`, s a str          -> `numberToken E s K`   (K's default is read from the `def`)
  `hsl_to_rgb(xs)`, xs known to be `[a, b, c]`            -> `hslSeqToRgb E a b c`
  `hsla_to_rgb(xs, bg)`, xs known to be `[a, b, c, d]`    -> `hslaSeqToRgb E a b c d bg`   (bg : Option RGB)
  `rgba_to_rgb((r, g, b, a), background=bg)`              -> `rgbaToRgb r g b a bg`        (bg : RGB)
  `is_valid_rgb(c)`                                       -> `validRgb c`
Anything else raises `Unsupported`: the definition is replaced by a comment line and the `source_*` theorem fails.
"""
import ast
import os
import re

from common import LEAN, REPO
from translate.leaves import Unsupported, is_noise, lname

SRC = os.path.join("src", "cm_colors", "core", "color_parser.py")
FUNC = "parse_color_to_rgb"
OUT = os.path.join("CmGen", "ParserSeq.lean")

LEAN_T = {"V": "PyVal α", "F": "α", "I": "Int", "N": "Nat", "B": "Bool", "S": "Str", "L": "List (PyVal α)",
          "RGB": "RGB", "ORGB": "Option RGB"}

# isinstance class set -> (lone test, scrutinee suffix, pattern, other pattern, type of the view, suffix of its name)
VIEWS = {
    frozenset(["int"]): ("isInt", ".intValue", "some %s", "none", "I", "_i"),
    frozenset(["float"]): ("isFloat", "", ".float %s", "_", "F", "_f"),
    frozenset(["int", "float"]): ("isNumber", ".numValue", "some %s", "none", "NUM", "_n"),
    frozenset(["str"]): (None, "", ".str %s", "_", "S", "_s"),
    frozenset(["tuple", "list"]): (None, "", ".tuple %s | .list %s", "_", "L", "_xs"),
}
ERRS = {"ValueError": "valueError", "TypeError": "typeError", "OverflowError": "overflowError"}
CMP_F = {ast.LtE: "Num.le", ast.Lt: "Num.lt", ast.GtE: "Num.ge", ast.Gt: "Num.gt"}
CMP_I = {ast.LtE: "≤", ast.Lt: "<", ast.GtE: "≥", ast.Gt: ">", ast.Eq: "=", ast.NotEq: "≠"}
ARITH = {ast.Add: "+", ast.Sub: "-", ast.Mult: "*", ast.Div: "/"}


def atom(t):
    if re.fullmatch(r"[A-Za-z_][\w.']*|\d+", t):
        return t
    if t.startswith("("):       # already one parenthesised group?
        depth = 0
        for i, ch in enumerate(t):
            depth += (ch == "(") - (ch == ")")
            if depth == 0:
                if i == len(t) - 1:
                    return t
                break
    return "(" + t + ")"


def indent(lines, k=1):
    return ["  " * k + l for l in lines]


def is_doc(s):
    return isinstance(s, ast.Expr) and isinstance(s.value, ast.Constant) and isinstance(s.value.value, str)


def terminates(stmts):
    for s in stmts:
        if isinstance(s, (ast.Return, ast.Raise)):
            return True
        if isinstance(s, ast.If) and s.orelse and terminates(s.body) and terminates(s.orelse):
            return True
    return False


def as_isinstance(n):
    """`isinstance(<name>, <class or tuple of classes>)` -> (name, frozenset of class names)"""
    if isinstance(n, ast.Call) and isinstance(n.func, ast.Name) and n.func.id == "isinstance" and len(n.args) == 2 \
            and not n.keywords and isinstance(n.args[0], ast.Name):
        c = n.args[1]
        names = [c] if isinstance(c, ast.Name) else list(c.elts) if isinstance(c, ast.Tuple) else None
        if names and all(isinstance(x, ast.Name) for x in names):
            return n.args[0].id, frozenset(x.id for x in names)
    return None


class Var:
    def __init__(self, typ, lean, shape=None):
        self.typ, self.lean, self.shape = typ, lean, shape


class Tr:
    """one generated definition"""

    def __init__(self, module, defname, aux):
        self.module, self.defname, self.aux = module, defname, aux
        self.env = {}          # python name -> Var
        self.narrow = {}       # python name -> dict(cls, var, vtype, used)
        self.binds = None      # list of `let t ← …` lines while a statement's expressions are translated
        self.ntmp = 0
        self.acc = None        # inside a loop body: the accumulator name; `acc.append(e)` is `pure e`
        self.elem_type = None
        self.loops = 0
        self.override = {}     # id(If statement) -> function(view variable) -> lines replacing its body

    # ---------------------------------------------------------------- expressions
    def fresh(self):
        self.ntmp += 1
        return "t%d" % (self.ntmp - 1)

    def lean_names(self):
        out = set(v.lean for v in self.env.values())
        for v in self.env.values():
            out.update(v.shape or [])
        out.update(r["var"] for r in self.narrow.values())
        return out

    def toF(self, e):
        t, ty = e
        if ty == "F":
            return t
        if ty == "ILIT":
            k = int(t.strip("()"))
            if abs(k) >= 2 ** 53:
                raise Unsupported("int literal too large to be a float exactly")
            return "(%d.0 : α)" % k if k >= 0 else "(-(%d.0 : α))" % -k
        raise Unsupported("a float is needed, got %s" % ty)

    def name(self, n):
        if n.id not in self.env:
            raise Unsupported("name %s" % n.id)
        v = self.env[n.id]
        r = self.narrow.get(n.id)
        if v.typ == "V" and r is not None:
            if r["vtype"] == "NUM":
                raise Unsupported("direct use of %s, only known to be int or float" % n.id)
            r["used"] = True
            return (r["var"], r["vtype"])
        if v.typ == "BG":
            raise Unsupported("direct use of the background")
        if v.typ in ("ACC", "LI"):
            raise Unsupported("direct use of the list %s" % n.id)
        return (v.lean, v.typ)

    def bg_some(self, n):
        """n is the background parameter inside the arm where it is not None -> its view variable"""
        if isinstance(n, ast.Name) and n.id in self.env and self.env[n.id].typ == "BG" and n.id in self.narrow:
            return self.narrow[n.id]["var"]
        return None

    def cond(self, n):
        t, ty = self.expr(n)
        if ty != "B":
            raise Unsupported("a condition of type %s" % ty)
        return t

    def and_chain(self, values):
        v, rest = values[0], values[1:]
        inst = as_isinstance(v)
        if inst and inst[0] in self.env and self.env[inst[0]].typ == "V" and rest:
            x, cls = inst
            if cls not in VIEWS:
                raise Unsupported("isinstance classes %s" % sorted(cls))
            test, scr, pat, other, vtype, suf = VIEWS[cls]
            var = lname(x) + suf
            if var in self.lean_names():
                raise Unsupported("name clash on %s" % var)
            saved = dict(self.narrow)
            self.narrow[x] = rec = {"cls": cls, "var": var, "vtype": vtype, "used": False}
            r = self.and_chain(rest)
            self.narrow = saved
            if rec["used"] or test is None:
                return "(match %s%s with | %s => %s | %s => false)" % (self.env[x].lean, scr, pat.replace("%s", var), r, other)
            return "(%s.%s && %s)" % (self.env[x].lean, test, r)
        a = self.cond(v)
        if rest:
            return "(%s && %s)" % (a, self.and_chain(rest))
        return a

    def expr(self, n):
        if isinstance(n, ast.Constant):
            v = n.value
            if v is None:
                return ("none", "NONE")
            if isinstance(v, bool):
                return ("true" if v else "false", "B")
            if isinstance(v, int):
                return (str(v), "ILIT")
            if isinstance(v, float):
                r = repr(v)
                if not re.fullmatch(r"\d+\.\d+", r):
                    raise Unsupported("float literal %s" % r)
                return ("(%s : α)" % r, "F")
            raise Unsupported("constant %r" % (v,))
        if isinstance(n, ast.UnaryOp) and isinstance(n.op, ast.USub) and isinstance(n.operand, ast.Constant) \
                and type(n.operand.value) is int:
            return ("(-%d)" % n.operand.value, "ILIT")
        if isinstance(n, ast.UnaryOp) and isinstance(n.op, ast.Not):
            return ("!" + atom(self.cond(n.operand)), "B")
        if isinstance(n, ast.Name):
            return self.name(n)
        if isinstance(n, ast.BoolOp):
            if isinstance(n.op, ast.And):
                return (self.and_chain(list(n.values)), "B")
            return ("(" + " || ".join(self.cond(v) for v in n.values) + ")", "B")
        if isinstance(n, ast.Compare):
            ops = [self.expr(x) for x in [n.left] + list(n.comparators)]
            parts = []
            for (a, op, b) in zip(ops, n.ops, ops[1:]):
                tys = {a[1], b[1]}
                if "F" in tys and tys <= {"F", "ILIT"}:
                    if type(op) not in CMP_F:
                        raise Unsupported("float comparison %s" % type(op).__name__)
                    parts.append("%s %s %s" % (CMP_F[type(op)], atom(self.toF(a)), atom(self.toF(b))))
                elif ("I" in tys and tys <= {"I", "ILIT"}) or ("N" in tys and tys <= {"N", "ILIT"}):
                    if type(op) not in CMP_I:
                        raise Unsupported("comparison %s" % type(op).__name__)
                    parts.append("decide (%s %s %s)" % (a[0], CMP_I[type(op)], b[0]))
                else:
                    raise Unsupported("comparison between %s and %s" % (a[1], b[1]))
            return (parts[0] if len(parts) == 1 else "(" + " && ".join(parts) + ")", "B")
        if isinstance(n, ast.BinOp) and type(n.op) in ARITH:
            a, b = self.expr(n.left), self.expr(n.right)
            if "F" in (a[1], b[1]):
                return ("%s %s %s" % (atom(self.toF(a)), ARITH[type(n.op)], atom(self.toF(b))), "F")
            raise Unsupported("arithmetic on %s and %s" % (a[1], b[1]))
        if isinstance(n, ast.Tuple) and len(n.elts) == 3:
            es = [self.expr(x) for x in n.elts]
            if all(e[1] in ("I", "ILIT") for e in es):
                return ("((%s) : RGB)" % ", ".join(e[0] for e in es), "RGB")
            raise Unsupported("a tuple of %s" % [e[1] for e in es])
        if isinstance(n, ast.Call):
            return self.call(n)
        raise Unsupported("expression " + ast.dump(n)[:70])

    def call(self, n):
        inst = as_isinstance(n)
        if inst:
            x, cls = inst
            if x in self.env and self.env[x].typ == "V":
                if cls not in VIEWS or VIEWS[cls][0] is None:
                    raise Unsupported("isinstance(%s, %s) outside an if / and chain" % (x, sorted(cls)))
                return ("%s.%s" % (self.env[x].lean, VIEWS[cls][0]), "B")
            if self.bg_some(n.args[0]) and cls == frozenset(["tuple", "list"]):
                return ("true", "B")
            raise Unsupported("isinstance on %s" % x)
        if not isinstance(n.func, ast.Name):
            raise Unsupported("call " + ast.dump(n.func)[:50])
        f, args, kws = n.func.id, list(n.args), {k.arg: k.value for k in n.keywords}
        if None in kws:
            raise Unsupported("**kwargs")
        if f == "float" and len(args) == 1 and not kws:
            a = args[0]
            if isinstance(a, ast.Name) and a.id in self.env and self.env[a.id].typ == "V":
                r = self.narrow.get(a.id)
                if r is None or r["vtype"] not in ("NUM", "F", "I"):
                    raise Unsupported("float(%s) not guarded by an isinstance number test" % a.id)
                r["used"] = True
                return (r["var"], "F") if r["vtype"] != "I" else ("Num.ofInt %s" % r["var"], "F")
            e = self.expr(a)
            if e[1] == "F":
                return e
            if e[1] == "I":
                return ("Num.ofInt %s" % atom(e[0]), "F")
            raise Unsupported("float() of %s" % e[1])
        if f == "int" and len(args) == 1 and not kws:
            e = self.expr(args[0])
            if e[1] in ("I", "ILIT"):
                return e
            if e[1] == "F":
                return ("Num.trunc %s" % atom(e[0]), "I")
            raise Unsupported("int() of %s" % e[1])
        if f == "round" and len(args) == 1 and not kws:
            e = self.expr(args[0])
            if e[1] in ("I", "ILIT"):
                return e
            if e[1] == "F":
                return ("Num.roundHE %s" % atom(e[0]), "I")
            raise Unsupported("round() of %s" % e[1])
        if f in ("max", "min") and len(args) == 2 and not kws:
            a, b = self.expr(args[0]), self.expr(args[1])
            if {a[1], b[1]} <= {"I", "ILIT"} and "I" in (a[1], b[1]):
                return ("%s %s %s" % (f, atom(a[0]), atom(b[0])), "I")
            raise Unsupported("%s on %s, %s" % (f, a[1], b[1]))
        if f == "len" and len(args) == 1 and not kws:
            if self.bg_some(args[0]):
                return ("(3 : Nat)", "N")
            e = self.expr(args[0])
            if e[1] == "L":
                return ("%s.length" % atom(e[0]), "N")
            raise Unsupported("len() of %s" % e[1])
        if f == "is_valid_rgb" and len(args) == 1 and not kws:
            e = self.expr(args[0])
            if e[1] != "RGB":
                raise Unsupported("is_valid_rgb of %s" % e[1])
            return ("validRgb %s" % atom(e[0]), "B")
        if f == "tuple" and len(args) == 1 and not kws:
            a = args[0]
            if self.bg_some(a):
                return (self.bg_some(a), "RGB")
            if isinstance(a, ast.GeneratorExp) and len(a.generators) == 1 and not a.generators[0].ifs \
                    and not a.generators[0].is_async and isinstance(a.generators[0].target, ast.Name) \
                    and isinstance(a.generators[0].iter, ast.Name):
                g = a.generators[0]
                src = self.env.get(g.iter.id)
                if src is None or src.typ != "LI" or len(src.shape) != 3:
                    raise Unsupported("generator over something that is not a known list of three ints")
                if g.target.id in self.env:
                    raise Unsupported("generator variable shadows %s" % g.target.id)
                out = []
                for el in src.shape:
                    self.env[g.target.id] = Var("I", el)
                    e = self.expr(a.elt)
                    if e[1] not in ("I", "ILIT"):
                        raise Unsupported("generated element of type %s" % e[1])
                    out.append(e[0])
                del self.env[g.target.id]
                return ("((%s) : RGB)" % ", ".join(out), "RGB")
            raise Unsupported("tuple() of this argument")
        m = self.mcall(n)
        if self.binds is None:
            raise Unsupported("a call that may raise inside a condition")
        t = self.fresh()
        self.binds.append("let %s ← %s" % (t, m[0]))
        return (t, m[1])

    def shaped(self, n, k):
        if isinstance(n, ast.Name) and n.id in self.env and self.env[n.id].typ == "L" and self.env[n.id].shape \
                and len(self.env[n.id].shape) == k:
            return " ".join(self.env[n.id].shape)
        raise Unsupported("argument is not a sequence known to have %d elements" % k)

    def mcall(self, n):
        """a call that may raise -> (Lean term of `Except PyErr T`, T)"""
        if not (isinstance(n, ast.Call) and isinstance(n.func, ast.Name)):
            raise Unsupported("call")
        f, args, kws = n.func.id, list(n.args), {k.arg: k.value for k in n.keywords}
        if f == "_parse_number_token":
            if len(args) == 2 and not kws:
                tok, comp = args
            elif len(args) == 1 and set(kws) <= {"component"}:
                tok, comp = args[0], kws.get("component", self.module_default("_parse_number_token", "component"))
            else:
                raise Unsupported("arguments of _parse_number_token")
            if not (isinstance(comp, ast.Constant) and isinstance(comp.value, bool)):
                raise Unsupported("component= is not a literal")
            c = "true" if comp.value else "false"
            if isinstance(tok, ast.Call) and isinstance(tok.func, ast.Name) and tok.func.id == "str" and len(tok.args) == 1 \
                    and not tok.keywords and isinstance(tok.args[0], ast.Name) and tok.args[0].id in self.env \
                    and self.env[tok.args[0].id].typ == "V":
                return ("numberTokenOfVal E %s %s" % (self.env[tok.args[0].id].lean, c), "F")
            e = self.expr(tok)
            if e[1] != "S":
                raise Unsupported("_parse_number_token of %s" % e[1])
            return ("numberToken (α := α) E %s %s" % (atom(e[0]), c), "F")
        if f == "hsl_to_rgb" and len(args) == 1 and not kws:
            return ("hslSeqToRgb E %s" % self.shaped(args[0], 3), "RGB")
        if f == "hsla_to_rgb" and len(args) == 2 and not kws:
            e = self.expr(args[1])
            if e[1] != "ORGB":
                raise Unsupported("background of hsla_to_rgb is %s" % e[1])
            return ("hslaSeqToRgb E %s %s" % (self.shaped(args[0], 4), atom(e[0])), "RGB")
        if f == "rgba_to_rgb":
            if len(args) == 2 and not kws:
                tup, bg = args
            elif len(args) == 1 and set(kws) == {"background"}:
                tup, bg = args[0], kws["background"]
            else:
                raise Unsupported("arguments of rgba_to_rgb")
            if not (isinstance(tup, ast.Tuple) and len(tup.elts) == 4):
                raise Unsupported("rgba_to_rgb of something that is not a 4-tuple")
            es = [self.expr(x) for x in tup.elts]
            if [e[1] for e in es] != ["I", "I", "I", "F"]:
                raise Unsupported("rgba_to_rgb of %s" % [e[1] for e in es])
            b = self.expr(bg)
            if b[1] != "RGB":
                raise Unsupported("background of rgba_to_rgb is %s" % b[1])
            return ("rgbaToRgb %s %s" % (" ".join(atom(e[0]) for e in es), atom(b[0])), "RGB")
        if f == FUNC and len(args) == 1 and not kws and self.bg_some(args[0]):
            return ("bgParsed (some %s)" % self.bg_some(args[0]), "RGB")
        raise Unsupported("call of %s" % f)

    def module_default(self, fn, param):
        for x in self.module.body:
            if isinstance(x, ast.FunctionDef) and x.name == fn:
                names = [a.arg for a in x.args.args]
                defs = x.args.defaults
                if param in names:
                    i = names.index(param) - (len(names) - len(defs))
                    if i >= 0:
                        return defs[i]
        raise Unsupported("default of %s(%s)" % (fn, param))

    # ---------------------------------------------------------------- statements
    def with_binds(self, fn):
        self.binds = []
        try:
            r = fn()
            return list(self.binds), r
        finally:
            self.binds = None

    def check_target(self, t):
        for v in self.env.values():
            if v.shape and (lname(t) in v.shape):
                raise Unsupported("assignment to %s, an element of an unpacked sequence" % t)
        if t in self.env and (self.env[t].shape is not None or self.env[t].typ in ("V", "BG", "L")):
            raise Unsupported("assignment to %s" % t)
        if t in self.narrow:
            raise Unsupported("assignment to the narrowed %s" % t)

    def block(self, stmts):
        """statements -> lines of a `do` block of `Except PyErr _`"""
        stmts = list(stmts)
        while stmts and (is_noise(stmts[0]) or is_doc(stmts[0])):
            stmts.pop(0)
        if not stmts:
            raise Unsupported("a path that neither returns nor raises" if self.acc is None else
                              "a path of the loop body that neither appends nor raises")
        s, rest = stmts[0], stmts[1:]
        if isinstance(s, ast.Raise):
            exc = s.exc.func if isinstance(s.exc, ast.Call) else s.exc
            if not (isinstance(exc, ast.Name) and exc.id in ERRS) or s.cause is not None:
                raise Unsupported("raise of " + (ast.dump(exc)[:40] if exc is not None else "nothing"))
            return ["Except.error PyErr.%s" % ERRS[exc.id]]
        if isinstance(s, ast.Return):
            if self.acc is not None:
                raise Unsupported("return inside the loop")
            if s.value is None:
                raise Unsupported("return without a value")
            if isinstance(s.value, ast.Call) and isinstance(s.value.func, ast.Name) \
                    and s.value.func.id in ("_parse_number_token", "hsl_to_rgb", "hsla_to_rgb", "rgba_to_rgb", FUNC):
                binds, m = self.with_binds(lambda: self.mcall(s.value))
                if m[1] != "RGB":
                    raise Unsupported("returns a %s" % m[1])
                return binds + [m[0]]
            binds, e = self.with_binds(lambda: self.expr(s.value))
            if e[1] != "RGB":
                raise Unsupported("returns a %s" % e[1])
            return binds + ["pure %s" % atom(e[0])]
        if isinstance(s, ast.Expr) and isinstance(s.value, ast.Call) and isinstance(s.value.func, ast.Attribute) \
                and s.value.func.attr == "append" and isinstance(s.value.func.value, ast.Name):
            if self.acc is None or s.value.func.value.id != self.acc or len(s.value.args) != 1 or s.value.keywords:
                raise Unsupported("append outside the translated loop shape")
            if [x for x in rest if not (is_noise(x) or is_doc(x))]:
                raise Unsupported("statements after the append of a loop body")
            binds, e = self.with_binds(lambda: self.expr(s.value.args[0]))
            ty = "I" if e[1] == "ILIT" else e[1]
            if ty != "I" or self.elem_type not in (None, ty):
                raise Unsupported("appended element of type %s" % e[1])
            self.elem_type = ty
            return binds + ["pure %s" % atom(e[0])]
        if isinstance(s, ast.Assign) and len(s.targets) == 1:
            return self.assign(s, rest)
        if isinstance(s, ast.If):
            return self.if_stmt(s, rest)
        if isinstance(s, ast.For):
            return self.for_stmt(s, rest)
        raise Unsupported("statement " + type(s).__name__)

    def assign(self, s, rest):
        if self.acc is not None:
            raise Unsupported("assignment inside the loop body")
        tg, val = s.targets[0], s.value
        if isinstance(tg, ast.Tuple) and all(isinstance(x, ast.Name) for x in tg.elts) and isinstance(val, ast.Name) \
                and val.id in self.env and self.env[val.id].typ == "L" and self.env[val.id].shape is None \
                and val.id not in self.narrow:
            names = [x.id for x in tg.elts]
            if len(set(names)) != len(names) or any(x in self.env for x in names):
                raise Unsupported("unpacking onto existing names")
            src = self.env[val.id]
            for x in names:
                self.env[x] = Var("V", lname(x))
            src.shape = [lname(x) for x in names]
            return ["match %s with" % src.lean, "| [%s] =>" % ", ".join(src.shape)] + indent(self.block(rest)) + \
                   ["| _ => Except.error PyErr.valueError"]
        if not isinstance(tg, ast.Name):
            raise Unsupported("assignment target")
        t = tg.id
        self.check_target(t)
        if isinstance(val, ast.List) and not val.elts:
            self.env[t] = Var("ACC", lname(t), [])
            return self.block(rest)
        binds, e = self.with_binds(lambda: self.expr(val))
        old = self.env.get(t)
        if e[1] == "NONE":
            ty, text = "ORGB", "none"
        elif old is not None and old.typ == "ORGB" and e[1] in ("RGB", "ORGB"):
            ty, text = "ORGB", ("some %s" % atom(e[0]) if e[1] == "RGB" else e[0])
        elif e[1] in LEAN_T and (old is None or old.typ == e[1]):
            ty, text = e[1], e[0]
        elif e[1] == "ILIT" and (old is None or old.typ == "I"):
            ty, text = "I", e[0]
        else:
            raise Unsupported("assignment of a %s to %s" % (e[1], t))
        if lname(t) in self.lean_names() and old is None:
            raise Unsupported("name clash on %s" % t)
        self.env[t] = Var(ty, lname(t))
        return binds + ["let %s : %s := %s" % (lname(t), LEAN_T[ty], text)] + self.block(rest)

    def branch(self, stmts):
        saved = ({k: Var(v.typ, v.lean, None if v.shape is None else list(v.shape)) for k, v in self.env.items()}, dict(self.narrow))
        try:
            return self.block(stmts)
        finally:
            self.env, self.narrow = saved

    def if_stmt(self, s, rest):
        body_k = list(s.body) + ([] if terminates(s.body) else rest)
        else_k = list(s.orelse) + rest
        test = s.test
        # `background is None` / `is not None`
        if isinstance(test, ast.Compare) and len(test.ops) == 1 and isinstance(test.ops[0], (ast.Is, ast.IsNot)) \
                and isinstance(test.comparators[0], ast.Constant) and test.comparators[0].value is None \
                and isinstance(test.left, ast.Name) and test.left.id in self.env and self.env[test.left.id].typ == "BG" \
                and test.left.id not in self.narrow:
            x = test.left.id
            var = lname(x) + "_v"
            if var in self.lean_names():
                raise Unsupported("name clash on %s" % var)
            none_k, some_k = (body_k, else_k) if isinstance(test.ops[0], ast.Is) else (else_k, body_k)
            a = self.branch(none_k)
            saved = dict(self.narrow)
            self.narrow[x] = {"cls": "some", "var": var, "vtype": "RGB", "used": False}
            b = self.branch(some_k)
            self.narrow = saved
            first = [("| none =>", a), ("| some %s =>" % var, b)]
            if isinstance(test.ops[0], ast.IsNot):
                first.reverse()
            return ["match %s with" % self.env[x].lean] + sum(([h] + indent(ls) for h, ls in first), [])
        conj = list(test.values) if isinstance(test, ast.BoolOp) and isinstance(test.op, ast.And) else [test]
        inst = as_isinstance(conj[0])
        if inst and inst[0] in self.env and self.env[inst[0]].typ == "V":
            x, cls = inst
            if cls not in VIEWS:
                raise Unsupported("isinstance classes %s" % sorted(cls))
            _test, scr, pat, other, vtype, suf = VIEWS[cls]
            var = lname(x) + suf
            if var in self.lean_names():
                raise Unsupported("name clash on %s" % var)
            b = self.branch(else_k)
            saved = dict(self.narrow)
            self.narrow[x] = {"cls": cls, "var": var, "vtype": vtype, "used": False}
            c = self.and_chain(conj[1:]) if len(conj) > 1 else None
            if id(s) in self.override:
                if c is not None or s.orelse:
                    raise Unsupported("shape of the dispatching statement")
                a = self.override[id(s)](var)
            else:
                a = self.branch(body_k)
            self.narrow = saved
            head = ["match %s%s with" % (self.env[x].lean, scr), "| %s =>" % pat.replace("%s", var)]
            if c is None:
                return head + indent(a) + ["| %s =>" % other] + indent(b)
            return head + indent(["if %s then" % c] + indent(a) + ["else"] + indent(b)) + ["| %s =>" % other] + indent(b)
        c = self.cond(test)
        a = self.branch(body_k)
        b = self.branch(else_k)
        return ["if %s then" % c] + indent(a) + ["else"] + indent(b)

    def for_stmt(self, s, rest):
        if self.acc is not None:
            raise Unsupported("nested loop")
        if s.orelse or not isinstance(s.target, ast.Name) or not isinstance(s.iter, ast.Name):
            raise Unsupported("shape of the for statement")
        src = self.env.get(s.iter.id)
        if src is None or src.typ != "L" or not src.shape:
            raise Unsupported("loop over something that is not an unpacked sequence")
        for x in ast.walk(s):
            if isinstance(x, (ast.Break, ast.Continue, ast.While, ast.Try, ast.With)) or (isinstance(x, ast.For) and x is not s):
                raise Unsupported("%s inside the loop" % type(x).__name__)
        accs = {x.func.value.id for x in ast.walk(s) if isinstance(x, ast.Call) and isinstance(x.func, ast.Attribute)
                and x.func.attr == "append" and isinstance(x.func.value, ast.Name)}
        if len(accs) != 1:
            raise Unsupported("the loop appends to %d lists" % len(accs))
        acc = accs.pop()
        if acc not in self.env or self.env[acc].typ != "ACC" or self.env[acc].shape != []:
            raise Unsupported("the loop appends to %s, which is not a fresh empty list" % acc)
        if s.target.id in self.env:
            raise Unsupported("loop variable shadows %s" % s.target.id)
        self.loops += 1
        name = "%s__for%d" % (self.defname, self.loops)
        sub = Tr(self.module, name, self.aux)
        sub.acc = acc
        sub.env = {s.target.id: Var("V", lname(s.target.id))}
        lines = sub.block(list(s.body))
        if sub.elem_type != "I":
            raise Unsupported("element type of the accumulated list")
        self.aux.append("/-- one pass of the `for %s in %s:` loop at line %d; `%s.append(e)` is `pure e` -/\n"
                        "def %s (E : PEnv) (%s : PyVal α) : Except PyErr Int :=\n  do\n%s\n"
                        % (s.target.id, s.iter.id, s.lineno, acc, name, lname(s.target.id), "\n".join(indent(lines, 2))))
        out, shape = [], []
        for i, el in enumerate(src.shape):
            v = "%s_%d" % (lname(acc), i)
            if v in self.lean_names():
                raise Unsupported("name clash on %s" % v)
            out.append("let %s ← %s E %s" % (v, name, el))
            shape.append(v)
        self.env[acc] = Var("LI", lname(acc), shape)
        return out + self.block(rest)


def find_dispatch(node, color):
    """the top-level `if isinstance(color, …):` statements by their tests"""
    seq, st = [], []
    for s in node.body:
        if isinstance(s, ast.If):
            inst = as_isinstance(s.test)
            if inst and inst[0] == color:
                if inst[1] == frozenset(["tuple", "list"]):
                    seq.append(s)
                elif inst[1] == frozenset(["str"]):
                    st.append(s)
    return seq, st


def translate(src):
    """-> list of texts (definitions or comment lines), number of definitions"""
    texts, n = [], 0
    module = ast.parse(src)
    nodes = [x for x in module.body if isinstance(x, ast.FunctionDef) and x.name == FUNC]
    names = ["parse_color_seq", FUNC]
    try:
        if len(nodes) != 1:
            raise Unsupported("not found (or defined twice)")
        node = nodes[0]
        a = node.args
        if len(a.args) != 2 or a.vararg or a.kwarg or a.kwonlyargs or a.posonlyargs or len(a.defaults) != 1 \
                or not (isinstance(a.defaults[0], ast.Constant) and a.defaults[0].value is None):
            raise Unsupported("signature")
        color, background = a.args[0].arg, a.args[1].arg
        seq, st = find_dispatch(node, color)
    except Exception as e:  # noqa
        return ["-- %s: outside the translated subset (%s)\n" % (x, str(e).replace("\n", " ")[:300]) for x in names], 0
    seq_ok = False
    try:
        if len(seq) != 1:
            raise Unsupported("%d top-level statements test isinstance(%s, (tuple, list))" % (len(seq), color))
        if seq[0].orelse:
            raise Unsupported("the sequence test has an else branch")
        aux = []
        t = Tr(module, "parse_color_seq", aux)
        t.env = {color: Var("L", lname(color)), background: Var("BG", lname(background))}
        lines = t.block(list(seq[0].body))
        texts.extend(aux)
        n += len(aux)
        texts.append("/-- the body of `if isinstance(%s, (tuple, list)):` (line %d) of `%s`; `%s` is the element list,\n"
                     "    `%s` the already parsed background (`None` or a triple) -/\n"
                     "def parse_color_seq (E : PEnv) (%s : List (PyVal α)) (%s : Option RGB) : Except PyErr RGB :=\n  do\n%s\n"
                     % (color, seq[0].lineno, FUNC, color, background, lname(color), lname(background), "\n".join(indent(lines, 2))))
        n += 1
        seq_ok = True
    except Exception as e:  # noqa
        texts.append("-- parse_color_seq: outside the translated subset (%s)\n" % str(e).replace("\n", " ")[:300])
    try:
        if not seq_ok:
            raise Unsupported("its sequence branch parse_color_seq is")
        if len(st) != 1:
            raise Unsupported("%d top-level statements test isinstance(%s, str)" % (len(st), color))
        if st[0].orelse or not terminates(st[0].body) or not terminates(seq[0].body):
            raise Unsupported("a dispatched branch can fall through")
        t = Tr(module, FUNC, [])
        t.env = {color: Var("V", lname(color)), background: Var("BG", lname(background))}
        t.override[id(seq[0])] = lambda v: ["parse_color_seq E %s %s" % (v, lname(background))]
        t.override[id(st[0])] = lambda v: ["strBranch %s %s" % (v, lname(background))]
        lines = t.block(list(node.body))
        texts.append("/-- the top level of `%s` (line %d): dispatch on the dynamic type of `%s`; `strBranch` stands for the body of\n"
                     "    `if isinstance(%s, str):` (line %d) -/\n"
                     "def %s (strBranch : Str → Option RGB → Except PyErr RGB) (E : PEnv) (%s : PyVal α) (%s : Option RGB) :\n"
                     "    Except PyErr RGB :=\n  do\n%s\n"
                     % (FUNC, node.lineno, color, color, st[0].lineno, FUNC, lname(color), lname(background), "\n".join(indent(lines, 2))))
        n += 1
    except Exception as e:  # noqa
        texts.append("-- %s: outside the translated subset (%s)\n" % (FUNC, str(e).replace("\n", " ")[:300]))
    return texts, n


HEADER = """import CmModel.Parser
import CmModel.PyValInt
/-! GENERATED by harness/translate/parserseq.py from src/cm_colors/core/color_parser.py — do not edit.

The tuple/list branch and the top-level dispatch of `parse_color_to_rgb(color, background)` over the model's
dynamically typed values `PyVal α`. BACKGROUND ABSTRACTION: `background` is `Option RGB` — `None`, or the already
parsed triple of ints `Color._parse` passes; `parse_color_to_rgb(background)` on such a triple is `bgParsed`
(rules: docstring of the translator; `CmProps/C14seq.lean` proves the definitions equal to `Cm.Parse.parseColor`). -/
set_option linter.unusedVariables false
namespace CmGen.ParserSeq
open Cm Cm.Parse
variable {α : Type} [Num α]

"""


def generate():
    try:
        src = open(os.path.join(REPO, SRC), encoding="utf-8").read()
        texts, n = translate(src)
    except Exception as e:  # noqa  (unreadable file, syntax error)
        texts, n = ["-- %s: outside the translated subset (%s)\n" % (x, str(e).replace("\n", " ")[:300])
                    for x in ("parse_color_seq", FUNC)], 0
    out = HEADER + "\n".join(texts) + "\nend CmGen.ParserSeq\n"
    path = os.path.join(LEAN, OUT)
    old = open(path, encoding="utf-8").read() if os.path.exists(path) else None
    if old != out:
        with open(path, "w", encoding="utf-8") as fh:
            fh.write(out)
    return n


def summary():
    path = os.path.join(LEAN, OUT)
    text = open(path, encoding="utf-8").read() if os.path.exists(path) else ""
    return {"generated_definitions": re.findall(r"^def (\S+)", text, re.M), "not_translated": re.findall(r"^-- (.*)$", text, re.M),
            "file": "lean/CmGen/ParserSeq.lean", "translator": "harness/translate/parserseq.py"}


if __name__ == "__main__":
    print(generate())
