"""Translator: the path handling, the target ratio and the constants of cli/main.py  ->  lean/CmGen/CliSrc.lean

Regenerated from /repo's working tree on every run of C08 / C09 / C18. `CmProps/C08src.lean`, `C09src.lean`, `C18src.lean`
prove the generated definitions equal to what the CLI model (`CmModel/Cli.lean`, `CmModel/Fs.lean`) uses: the output name is
`Cm.Fs.outName`, directory discovery is `Cm.Fs.discovered`, the only file-system mutation in the module is `open(output_path,
"w")`, the target ratio is the API's minimum for normal text, and the property names / selectors / at-rule keywords / `var()`
patterns the rewriter dispatches on are the ones the model dispatches on.

Translation rules (the trusted part of this tie; what the generated text *means* is then checked by Lean):
  a `pathlib.Path` variable       -> its final component `name : Str` (the parent directory is carried separately)
  `Path(x)`                       -> `x`
  `p.name` / `p.stem` / `p.suffix`-> `p` / `(stemSuffix p).1` / `(stemSuffix p).2`        (pathlib's rules: `Cm.Fs.stemSuffix`)
  string literal "lit"            -> `"lit".toList`;   `a + b` on strings -> `a ++ b`;   `a == b` -> `decide (a = b)`
  `s.endswith("lit")` / `s.startswith("lit")` -> `endsWith s "lit".toList` / `startsWith s "lit".toList`
  `not e`, `e and f`, `e or f`    -> `!e`, `e && f`, `e || f`
  `p.rglob("*lit")` (lit without `*?[`) -> the entries whose final component ends with `lit` (any other pattern: outside the subset)
  a generator `if x.is_file(): if C: yield x` / `elif x.is_dir(): for p in ITER: if C: yield p`
                                  -> two definitions: `<fn>_file (name) : Bool := C` and `<fn>_dir (names) := ITER.filter C`
  `x.parent / e`                  -> `(parent, e)`
  `A if c else B` on float literals -> `if c then (A : α) else (B : α)`
  every call in the module that can change the file system (open with a mode other than "r"/"rb", os.open/remove/unlink/rename/replace/
  truncate/chmod/makedirs/mkdir/rmdir/symlink/link, shutil.*, tempfile.*, Path.write_text/write_bytes/touch/unlink/rename/replace/mkdir/rmdir/
  open) -> one entry of `fs_mutations`, "<callee>:<mode>:<first argument's source text>"
  the same scan over cli/html_report.py -> `report_fs_mutations`; the literal default of `generate_report`'s `output_path` parameter ->
  `report_default_path`; the argument shape of each `generate_report(…)` call in main.py -> `report_calls`
  every click.echo / click.secho / print / generate_report call after the per-file loop of `main` -> one entry of `report_section`:
  (the `if` tests and loop headers it sits under, joined by `and`, `not (…)` for an else branch; the callee; its first argument's source text);
  calls whose first argument is a plain constant (fixed wording, no data) are not listed
  comparisons `<x>.<attr> == "lit"` / `<x>.<attr> in ("a", "b")` / `<name> in ("a", "b")` / `"lit" in <name>` / `<x>.<attr>.startswith("lit")` inside
  `resolve_variable`, `process_nodes_recursive` and the per-file loop of `main` -> entries of `dispatch_tests`, in source order, as (function, subject, operator, literals)
  `re.search(LIT, …)` / `re.compile(LIT)` -> entries of `regex_literals`, in source order
Anything else in these places is outside the subset: the definition is replaced by a comment and the `source_*` theorem that
mentions it no longer builds.
"""
import ast
import os

from common import LEAN, REPO
from translate.leaves import Unsupported, lname

SRC = os.path.join("src", "cm_colors", "cli", "main.py")
GLOB_META = set("*?[")
FS_MODULE_CALLS = {
    "os": {"open", "remove", "unlink", "rename", "replace", "truncate", "chmod", "makedirs", "mkdir", "rmdir", "symlink", "link", "fdopen", "write"},
    "shutil": None, "tempfile": None,          # None: every function of the module
}
FS_METHODS = {"write_text", "write_bytes", "touch", "unlink", "rename", "replace", "mkdir", "rmdir", "symlink_to", "hardlink_to", "chmod"}


def lit(s):
    return '"%s".toList' % s.replace("\\", "\\\\").replace('"', '\\"')


def slit(s):
    return '"%s"' % s.replace("\\", "\\\\").replace('"', '\\"')


class PathExpr:
    """expressions over path-typed and string-typed names; `paths` maps a python name to the Lean name of its final component"""

    def __init__(self, paths):
        self.paths = dict(paths)

    def s(self, n):
        """string-valued"""
        if isinstance(n, ast.Constant) and isinstance(n.value, str):
            return lit(n.value)
        if isinstance(n, ast.Attribute) and isinstance(n.value, ast.Name) and n.value.id in self.paths:
            p = self.paths[n.value.id]
            if n.attr == "name":
                return p
            if n.attr == "stem":
                return "(stemSuffix %s).1" % p
            if n.attr == "suffix":
                return "(stemSuffix %s).2" % p
            raise Unsupported("path attribute ." + n.attr)
        if isinstance(n, ast.BinOp) and isinstance(n.op, ast.Add):
            return "%s ++ %s" % (self.s(n.left), self.s(n.right))
        if isinstance(n, ast.Name) and n.id in self.paths and self.paths[n.id].startswith("str:"):
            return self.paths[n.id][4:]
        raise Unsupported("string expression " + ast.dump(n)[:80])

    def b(self, n):
        """Bool-valued"""
        if isinstance(n, ast.UnaryOp) and isinstance(n.op, ast.Not):
            return "!(%s)" % self.b(n.operand)
        if isinstance(n, ast.BoolOp):
            op = " && " if isinstance(n.op, ast.And) else " || "
            return "(" + op.join(self.b(v) for v in n.values) + ")"
        if isinstance(n, ast.Compare) and len(n.ops) == 1 and isinstance(n.ops[0], (ast.Eq, ast.NotEq)):
            e = "decide (%s = %s)" % (self.s(n.left), self.s(n.comparators[0]))
            return e if isinstance(n.ops[0], ast.Eq) else "!(%s)" % e
        if isinstance(n, ast.Call) and isinstance(n.func, ast.Attribute) and n.func.attr in ("endswith", "startswith") \
                and len(n.args) == 1 and not n.keywords and isinstance(n.args[0], ast.Constant) and isinstance(n.args[0].value, str):
            f = "endsWith" if n.func.attr == "endswith" else "startsWith"
            return "%s (%s) (%s)" % (f, self.s(n.func.value), lit(n.args[0].value))
        raise Unsupported("condition " + ast.dump(n)[:80])


def strip_doc(body):
    return [s for s in body if not (isinstance(s, ast.Expr) and isinstance(s.value, ast.Constant) and isinstance(s.value.value, str))]


def guarded_yield(stmts, var, px):
    """`if C1: if C2: yield var` (exactly one yield of `var`, nothing else) -> conjunction of the conditions"""
    stmts = strip_doc(stmts)
    if len(stmts) != 1:
        raise Unsupported("more than one statement where a guarded yield is expected")
    s = stmts[0]
    if isinstance(s, ast.Expr) and isinstance(s.value, ast.Yield) and isinstance(s.value.value, ast.Name) and s.value.value.id == var:
        return []
    if isinstance(s, ast.If) and not s.orelse:
        return [px.b(s.test)] + guarded_yield(s.body, var, px)
    raise Unsupported("statement %s where a guarded yield is expected" % type(s).__name__)


def gen_get_css_files(fn):
    args = [a.arg for a in fn.args.args]
    if len(args) != 1:
        raise Unsupported("get_css_files takes one argument")
    pv = args[0]
    body = strip_doc(fn.body)
    # path = Path(path)
    if body and isinstance(body[0], ast.Assign) and isinstance(body[0].value, ast.Call) and getattr(body[0].value.func, "id", "") == "Path" \
            and len(body[0].value.args) == 1 and getattr(body[0].value.args[0], "id", None) == pv and getattr(body[0].targets[0], "id", None) == pv:
        body = body[1:]
    if len(body) != 1 or not isinstance(body[0], ast.If):
        raise Unsupported("body is not a single if/elif on is_file()/is_dir()")
    top = body[0]

    def is_test(t, attr):
        return isinstance(t, ast.Call) and isinstance(t.func, ast.Attribute) and t.func.attr == attr and getattr(t.func.value, "id", None) == pv and not t.args

    if not is_test(top.test, "is_file") or len(top.orelse) != 1 or not isinstance(top.orelse[0], ast.If) or not is_test(top.orelse[0].test, "is_dir") \
            or top.orelse[0].orelse:
        raise Unsupported("expected `if p.is_file(): … elif p.is_dir(): …` without else")
    px = PathExpr({pv: "name"})
    conds = guarded_yield(top.body, pv, px)
    file_def = "def get_css_files_file (name : Str) : Bool :=\n  %s\n" % (" && ".join(conds) if conds else "true")
    dbody = strip_doc(top.orelse[0].body)
    if len(dbody) != 1 or not isinstance(dbody[0], ast.For) or dbody[0].orelse or not isinstance(dbody[0].target, ast.Name):
        raise Unsupported("directory branch is not a single for loop")
    loop = dbody[0]
    it = loop.iter
    if not (isinstance(it, ast.Call) and isinstance(it.func, ast.Attribute) and it.func.attr == "rglob" and getattr(it.func.value, "id", None) == pv
            and len(it.args) == 1 and isinstance(it.args[0], ast.Constant) and isinstance(it.args[0].value, str)):
        raise Unsupported("directory iteration is not p.rglob(<literal>)")
    pat = it.args[0].value
    if not pat.startswith("*") or (set(pat[1:]) & GLOB_META) or "/" in pat:
        raise Unsupported("glob pattern %r is not `*<literal>`" % pat)
    px2 = PathExpr({loop.target.id: "p"})
    conds2 = guarded_yield(loop.body, loop.target.id, px2)
    dir_def = ("def get_css_files_dir (names : List Str) : List Str :=\n  (names.filter fun p => endsWith p (%s)).filter fun p => %s\n"
               % (lit(pat[1:]), " && ".join(conds2) if conds2 else "true"))
    return "/-- `get_css_files`, the `is_file()` branch (line %d): is the path itself yielded? -/\n%s\n/-- `get_css_files`, the `is_dir()` branch: which entries of the tree are yielded -/\n%s" % (fn.lineno, file_def, dir_def)


def find_assign(fn, name):
    hits = [s for s in ast.walk(fn) if isinstance(s, ast.Assign) and len(s.targets) == 1 and getattr(s.targets[0], "id", None) == name]
    if len(hits) != 1:
        raise Unsupported("%s is assigned %d times" % (name, len(hits)))
    return hits[0]


def gen_output_name(main):
    # the loop variable of `for file_path in files:`
    loops = [s for s in ast.walk(main) if isinstance(s, ast.For) and isinstance(s.target, ast.Name) and getattr(s.iter, "id", None) == "files"]
    if len(loops) != 1:
        raise Unsupported("expected one `for … in files` loop in main")
    fv = loops[0].target.id
    a = find_assign(main, "output_filename")
    px = PathExpr({fv: "name"})
    out = "/-- `output_filename` (main.py line %d) -/\ndef output_filename (name : Str) : Str :=\n  %s\n" % (a.lineno, px.s(a.value))
    b = find_assign(main, "output_path")
    v = b.value
    if not (isinstance(v, ast.BinOp) and isinstance(v.op, ast.Div) and isinstance(v.left, ast.Attribute) and v.left.attr == "parent"
            and getattr(v.left.value, "id", None) == fv):
        raise Unsupported("output_path is not `<input>.parent / …`")
    px2 = PathExpr({fv: "name", "output_filename": "str:output_filename name"})
    out += "\n/-- `output_path` (main.py line %d): (directory, final component) -/\ndef output_path (parent name : Str) : Str × Str :=\n  (parent, %s)\n" % (b.lineno, px2.s(v.right))
    return out


def gen_target_ratio(fn):
    a = find_assign(fn, "target_ratio")
    v = a.value
    if not (isinstance(v, ast.IfExp) and isinstance(v.test, ast.Name) and all(isinstance(x, ast.Constant) and isinstance(x.value, float) for x in (v.body, v.orelse))):
        raise Unsupported("target_ratio is not `A if flag else B` on float literals")
    src = lambda c: repr(c.value)
    return ("/-- `target_ratio` (main.py line %d) -/\ndef target_ratio {α : Type} [Num α] (%s : Bool) : α :=\n  if %s then (%s : α) else (%s : α)\n"
            % (a.lineno, lname(v.test.id), lname(v.test.id), src(v.body), src(v.orelse)))


def call_name(f):
    parts = []
    while isinstance(f, ast.Attribute):
        parts.append(f.attr)
        f = f.value
    if isinstance(f, ast.Name):
        parts.append(f.id)
        return ".".join(reversed(parts))
    return None


def gen_fs_mutations(tree, src):
    out = []
    for c in sorted((n for n in ast.walk(tree) if isinstance(n, ast.Call)), key=lambda n: (n.lineno, n.col_offset)):
        nm = call_name(c.func)
        arg0 = ast.get_source_segment(src, c.args[0]) if c.args else ""
        if nm == "open" or (isinstance(c.func, ast.Attribute) and c.func.attr == "open" and nm and not nm.startswith(("os.", "click."))):
            mode = None
            pos = 1 if nm == "open" else 0
            if len(c.args) > pos and isinstance(c.args[pos], ast.Constant):
                mode = c.args[pos].value
            for k in c.keywords:
                if k.arg == "mode" and isinstance(k.value, ast.Constant):
                    mode = k.value.value
            if nm != "open" and mode is None:
                mode = "r"
            if nm == "open" and mode is None:
                mode = "r" if len(c.args) <= 1 and not any(k.arg == "mode" for k in c.keywords) else "?"
            if mode not in ("r", "rb", "rt"):
                out.append("%s:%s:%s" % (nm, mode, arg0 if nm == "open" else ast.get_source_segment(src, c.func.value)))
            continue
        if nm and "." in nm:
            root, last = nm.split(".")[0], nm.split(".")[-1]
            if root in FS_MODULE_CALLS and (FS_MODULE_CALLS[root] is None or last in FS_MODULE_CALLS[root]):
                out.append("%s::%s" % (nm, arg0))
                continue
        if isinstance(c.func, ast.Attribute) and c.func.attr in FS_METHODS and not (c.func.attr in ("replace", "rename") and len(c.args) != 1):
            out.append("%s::%s" % ("<expr>." + c.func.attr if nm is None else nm, arg0))
    return "/-- every call in cli/main.py that can create, change or remove a file -/\ndef fs_mutations : List String :=\n  [%s]\n" % ", ".join(slit(x) for x in out)


def gen_reads(tree, src):
    out = []
    for c in sorted((n for n in ast.walk(tree) if isinstance(n, ast.Call)), key=lambda n: (n.lineno, n.col_offset)):
        if call_name(c.func) == "open":
            mode = c.args[1].value if len(c.args) > 1 and isinstance(c.args[1], ast.Constant) else None
            if mode in ("r", "rb", "rt") or (mode is None and len(c.args) == 1):
                out.append(ast.get_source_segment(src, c.args[0]))
    return "/-- what cli/main.py opens for reading -/\ndef fs_reads : List String :=\n  [%s]\n" % ", ".join(slit(x) for x in out)


def gen_dispatch(fns):
    rows, regs = [], []
    for fn in fns:
        for n in sorted((x for x in ast.walk(fn) if isinstance(x, (ast.Compare, ast.Call))), key=lambda x: (x.lineno, x.col_offset)):
            if isinstance(n, ast.Compare) and len(n.ops) == 1:
                subj = None
                if isinstance(n.left, ast.Attribute):
                    subj = "." + n.left.attr
                elif isinstance(n.left, ast.Name):
                    subj = n.left.id
                c = n.comparators[0]
                if subj and isinstance(n.ops[0], (ast.Eq, ast.NotEq)) and isinstance(c, ast.Constant) and isinstance(c.value, str):
                    rows.append((fn.name, subj, "==" if isinstance(n.ops[0], ast.Eq) else "!=", [c.value]))
                elif subj and isinstance(n.ops[0], (ast.In, ast.NotIn)) and isinstance(c, (ast.Tuple, ast.List, ast.Set)) \
                        and all(isinstance(e, ast.Constant) and isinstance(e.value, str) for e in c.elts):
                    rows.append((fn.name, subj, "in" if isinstance(n.ops[0], ast.In) else "not in", [e.value for e in c.elts]))
                elif isinstance(n.left, ast.Constant) and isinstance(n.left.value, str) and isinstance(n.ops[0], (ast.In, ast.NotIn)) and isinstance(c, ast.Name):
                    rows.append((fn.name, c.id, "contains" if isinstance(n.ops[0], ast.In) else "lacks", [n.left.value]))
            elif isinstance(n, ast.Call) and isinstance(n.func, ast.Attribute) and n.func.attr in ("startswith", "endswith") and len(n.args) == 1 \
                    and isinstance(n.args[0], ast.Constant) and isinstance(n.args[0].value, str) and isinstance(n.func.value, ast.Attribute):
                rows.append((fn.name, "." + n.func.value.attr, n.func.attr, [n.args[0].value]))
            elif isinstance(n, ast.Call) and call_name(n.func) in ("re.search", "re.compile", "re.match", "re.fullmatch", "re.sub", "re.findall") \
                    and n.args and isinstance(n.args[0], ast.Constant) and isinstance(n.args[0].value, str):
                regs.append((fn.name, call_name(n.func), n.args[0].value))
    t = "/-- string comparisons the rewriter dispatches on: (function, subject, operator, literals), in source order -/\ndef dispatch_tests : List (String × String × String × List String) :=\n  [%s]\n" % (
        ",\n   ".join("(%s, %s, %s, [%s])" % (slit(a), slit(b), slit(c), ", ".join(slit(x) for x in d)) for a, b, c, d in rows))
    t += "\n/-- regular-expression literals: (function, call, pattern) -/\ndef regex_literals : List (String × String × String) :=\n  [%s]\n" % (
        ",\n   ".join("(%s, %s, %s)" % (slit(a), slit(b), slit(c)) for a, b, c in regs))
    return t


def generate():
    path = os.path.join(REPO, SRC)
    src = open(path, encoding="utf-8").read()
    tree = ast.parse(src)
    fns = {n.name: n for n in tree.body if isinstance(n, ast.FunctionDef)}
    parts, n = [], 0

    def attempt(label, thunk):
        nonlocal n
        try:
            parts.append(thunk())
            n += 1
        except Exception as e:  # noqa
            parts.append("-- %s: outside the translated subset (%s)\n" % (label, str(e).replace("\n", " ")[:300]))

    attempt("get_css_files", lambda: gen_get_css_files(fns["get_css_files"]))
    attempt("output_filename", lambda: gen_output_name(fns["main"]))
    attempt("target_ratio", lambda: gen_target_ratio(fns["process_nodes_recursive"]))
    attempt("fs_mutations", lambda: gen_fs_mutations(tree, src))
    attempt("fs_reads", lambda: gen_reads(tree, src))

    def report_part():
        rp = os.path.join(REPO, "src", "cm_colors", "cli", "html_report.py")
        rsrc = open(rp, encoding="utf-8").read()
        rtree = ast.parse(rsrc)
        t = gen_fs_mutations(rtree, rsrc).replace("def fs_mutations", "def report_fs_mutations").replace("in cli/main.py", "in cli/html_report.py")
        # where the report goes: the default of generate_report's output_path parameter, and how main calls it
        gr = [n for n in rtree.body if isinstance(n, ast.FunctionDef) and n.name == "generate_report"]
        if len(gr) != 1:
            raise Unsupported("generate_report not found")
        names = [a.arg for a in gr[0].args.args]
        defaults = dict(zip(names[len(names) - len(gr[0].args.defaults):], gr[0].args.defaults))
        d = defaults.get("output_path")
        if not (isinstance(d, ast.Constant) and isinstance(d.value, str)):
            raise Unsupported("generate_report has no literal default output_path")
        calls = [c for c in ast.walk(tree) if isinstance(c, ast.Call) and call_name(c.func) == "generate_report"]
        shapes = ["%d positional%s" % (len(c.args), "".join(", %s=%s" % (k.arg, ast.get_source_segment(src, k.value)) for k in c.keywords)) for c in calls]
        t += "\n/-- the report file: default of `generate_report(…, output_path=…)`, and the argument shapes of its calls in cli/main.py -/\n"
        t += "def report_default_path : String := %s\ndef report_calls : List String := [%s]\n" % (slit(d.value), ", ".join(slit(x) for x in shapes))
        return t

    attempt("report_fs_mutations", report_part)

    def report_section():
        """what `main` prints after the per-file loop, and under which conditions: every click.echo / click.secho / generate_report call
        that follows the loop, with the chain of `if` tests (and loop headers) it sits under and the source text of its first argument"""
        main = fns["main"]
        idx = next(i for i, st in enumerate(main.body) if isinstance(st, ast.For) and getattr(st.iter, "id", None) == "files")
        rows = []

        def seg(n):
            return " ".join((ast.get_source_segment(src, n) or "?").split())

        def walk(stmts, guards):
            for st in stmts:
                if isinstance(st, ast.If):
                    walk(st.body, guards + [seg(st.test)])
                    walk(st.orelse, guards + ["not (%s)" % seg(st.test)])
                elif isinstance(st, ast.For):
                    walk(st.body, guards + ["for %s in %s" % (seg(st.target), seg(st.iter))])
                elif isinstance(st, (ast.With, ast.Try, ast.While)):
                    raise Unsupported("%s in the report section" % type(st).__name__)
                else:
                    for c in sorted((n for n in ast.walk(st) if isinstance(n, ast.Call)), key=lambda n: (n.lineno, n.col_offset)):
                        nm = call_name(c.func)
                        if nm in ("click.echo", "click.secho", "print", "generate_report"):
                            if c.args and isinstance(c.args[0], ast.Constant):
                                continue        # a fixed message carries no data: its wording is free
                            rows.append((" and ".join(guards) or "always", nm, seg(c.args[0]) if c.args else ""))

        walk(main.body[idx + 1:], [])
        return "/-- what `main` prints after the per-file loop: (condition, call, first argument as written) -/\ndef report_section : List (String × String × String) :=\n  [%s]\n" % (
            ",\n   ".join("(%s, %s, %s)" % (slit(a), slit(b), slit(c)) for a, b, c in rows))

    attempt("report_section", report_section)
    def per_file_loop(main):
        loops = [s for s in ast.walk(main) if isinstance(s, ast.For) and isinstance(s.target, ast.Name) and getattr(s.iter, "id", None) == "files"]
        if len(loops) != 1:
            raise Unsupported("expected one `for … in files` loop in main")
        loop = loops[0]
        loop.name = "main"          # only the per-file loop of main: the report section compares user-facing messages
        return loop

    attempt("dispatch_tests", lambda: gen_dispatch([fns["resolve_variable"], fns["process_nodes_recursive"], per_file_loop(fns["main"])]))
    out = ("import CmModel.Fs\n/-! GENERATED by harness/translate/clisrc.py from src/cm_colors/cli/main.py — do not edit. -/\n"
           "set_option linter.unusedVariables false\nnamespace CmGen.CliSrc\nopen Cm Cm.Cli Cm.Fs\n\n" + "\n".join(parts) + "\nend CmGen.CliSrc\n")
    p = os.path.join(LEAN, "CmGen", "CliSrc.lean")
    old = open(p).read() if os.path.exists(p) else None
    if old != out:
        with open(p, "w") as fh:
            fh.write(out)
    return n


def summary():
    import re
    p = os.path.join(LEAN, "CmGen", "CliSrc.lean")
    text = open(p, encoding="utf-8").read() if os.path.exists(p) else ""
    return {"generated_definitions": re.findall(r"^def (\S+)", text, re.M), "not_translated": re.findall(r"^-- (.*)$", text, re.M),
            "file": "lean/CmGen/CliSrc.lean", "translator": "harness/translate/clisrc.py"}


if __name__ == "__main__":
    print(generate())
