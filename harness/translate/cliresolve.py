"""Translator: `var()` resolution of the CSS rewriter (cli/main.py)  ->  lean/CmGen/CliResolve.lean

Translated, from the syntax tree of `src/cm_colors/cli/main.py`, on every run:

  * `resolve_variable(value_str, variables, visited=None)`      -> `CmGen.CliResolve.resolve_variable`
  * every assignment in `process_nodes_recursive` whose right-hand side calls `resolve_variable`
    (`x = resolve_variable(raw, variables) or raw`)              -> `resolve_call_1`, `resolve_call_2`, … (source order)
  * the pre-pass loop of `main()` (the `for rule in rules:` loop that fills `variables` and
    `rule_declarations_map`)                                     -> `prepass`, `prepass_rule`, `prepass_decls`

`CmProps/C08resolve.lean` proves them equal to the model's `resolveVar`, `resolveOr`, `prePass` (file `CmModel/Cli.lean`).

The rules below are the trusted part of this tie (that they render Python faithfully is assumed; that what they produce
equals the hand-written model is proved).  Types are not written in the Python, so the translator is told the *type of each
parameter* (S = `str` ↦ `Str`, VARS = the `variables` dict ↦ `Vars`, VIS = a `set` of names ↦ `List Str`); everything
else is inferred:  OS = `str | None` ↦ `Option Str`,  OM = `re.Match | None` ↦ `Option (Str × Option Str)`,
M = `re.Match` ↦ `Str × Option Str` (group 1, group 2),  VD = one value of the `variables` dict ↦ `VarDef`.

Shape of a recursive function with a shared mutable set
  def f(value_str, variables, visited=None):                    f (env : CliEnv) (variables : Vars) : Nat → Str → List Str → Option Str × List Str
      if visited is None: visited = set()                          | 0, value_str, visited => (some value_str, visited)     -- out of fuel (model artefact)
      BODY                                                         | fuel + 1, value_str, visited => ⟦BODY⟧
    - the default-`None` parameter together with the *first statement* `if p is None: p = set()` is the Python idiom for "a
      fresh set unless the caller shares one": the parameter becomes an explicit `List Str`, a call that omits it passes `[]`.
      Without that exact first statement the function is outside the subset.
    - the set is mutated in place and shared with the callees, so it is threaded: the function returns the pair
      `(result, visited)`; `return e` ↦ `(⟦e⟧, visited)` with the *current* binding of `visited`; falling off the end is `return None`.
    - `visited.add(x)` ↦ `let visited := x :: visited`
    - `r = f(e, variables, visited)` ↦ `let r' := f env variables fuel ⟦e⟧ visited; let r := r'.1; let visited := r'.2`
      `return f(e, variables, visited)` ↦ `f env variables fuel ⟦e⟧ visited`   (the pair itself)
      ⟦e⟧ must have type S (a possibly-`None` first argument is outside the subset); the `variables` argument must be the
      parameter itself; `fuel` is the model's recursion bound (Python has none; the recursion is finite, CmProps/C08).
    - a result of type S is returned as `some …`, `None` as `none`, an OS as it is.

Conditions / truthiness
  not x, x : S ↦ `x.isEmpty`;  x : S as a condition ↦ `!x.isEmpty`;  `a or b`, `a and b` (conditions) ↦ `(a || b)`, `(a && b)`
  "var(" not in s ↦ `!containsVar s`;  "var(" in s ↦ `containsVar s`      (no other literal is accepted)
  x in v, v : VIS ↦ `v.contains x`
  x in ("a", "b") ↦ `(x = "a".toList || x = "b".toList)`
  x.startswith("lit") ↦ `startsWith x "lit".toList`;   isinstance(n, C) ↦ see "pre-pass"
  if statements whose test is a bare name (or `not name`, `name is None`, `name is not None`) of an optional type narrow it:
    if x: A else: B      (x : OS) ↦ `match x with | some x => if !x.isEmpty then A else B | none => B`      (x : S inside A)
    if x is not None: A else: B   ↦ `match x with | some x => A | none => B`
    if m: A else: B      (m : OM) ↦ `match m with | some m => A | none => B`                                  (m : M inside A)
    (`not x` / `is None` swap A and B.)  A statement that follows an `if` is copied behind every branch that does not return.
  if k in d: A else: B   (d : VARS, k a name) ↦ `match lookupVar d k with | some e => A | none => B`; inside A the
    expression `d[k]` is `e` (k is assigned once and d never mutated in the function, else outside the subset); `d[k]`
    anywhere else is outside the subset (it could raise KeyError).      e["value"] ↦ `e.value`

Regular expressions
  p = re.compile(LIT);  m = p.search(s)   (or m = re.search(LIT, s)) with LIT exactly  var\\((--[\\w-]+)(?:\\s*,\\s*(.*))?\\)
      ↦ `let m := searchVarFull env s` : OM      (`CliEnv` = the classes `\\w`, `\\s`; the model function is the semantics of
      this one pattern, CmModel/Cli.lean; it is validated against `re` by the correspondence).  Any other pattern text is
      outside the subset.  The pattern text is also emitted as `def resolve_pattern : String`.
  m.group(1) ↦ `m.1`;  m.group(2) ↦ `m.2` : OS      (m : M, i.e. after narrowing)
  `import re` is ignored.

Call sites  (`x = resolve_variable(a, variables) or b` inside process_nodes_recursive; one definition per assignment, the
  names that occur free become parameters: VARS names, then `fuel`, then S names in order of occurrence)
  resolve_variable(a, d)  (no third argument: a fresh set, dropped afterwards) ↦ `(resolve_variable env d fuel a []).1` : OS
  X or b   (X : OS, b : S)  ↦ `match X with | some r' => if r'.isEmpty then b else r' | none => b`

Pre-pass (abstraction: tinycss2 nodes are the model's `Node` / `Item` / `Decl`, CmModel/Cli.lean)
  for rule in rules: BODY     over the stylesheet ↦ a structural recursion over `List Node` that carries the index of the
      node and the assigned-to dictionaries `(variables, rule_declarations_map)`; BODY becomes `prepass_rule`
  isinstance(rule, QualifiedRule) ↦ `match rule with | .rule sel items => … | _ => (else)`
  serialize_prelude(rule.prelude) (= tinycss2.serialize(..).strip(), checked in the source) ↦ `sel`
  tinycss2.parse_declaration_list(rule.content, skip_whitespace=False, skip_comments=False) ↦ `items`  (other keyword
      values: outside the subset)
  m[id(rule)] = decls ↦ `let m := m ++ [(i, decls)]`   (i = index of `rule` in the stylesheet; `id` of a live object is unique)
  for decl in decls: BODY ↦ a structural recursion over `List Item` carrying the item index and `variables`
  isinstance(decl, Declaration) ↦ `match decl with | .decl d => … | .other _ _ => (else)`;  `A and B` with A such a test ↦ B inside the arm
  decl.name ↦ `d.name`;  tinycss2.serialize(decl.value).strip() ↦ `strip env d.value`
  variables[k] = {"decl": decl, "value": v, "rule": rule} ↦ `let variables := (k, {rule := i, item := j, value := ⟦v⟧}) :: variables.filter (·.1 ≠ k)`
      (a dict assignment replaces or inserts; "decl" must be the loop's declaration, "rule" the loop's rule: they become
      the positions j and i; lookups go through `lookupVar`, which finds the first pair with that key)

Ignored everywhere: docstrings, comments, `pass`, print / logging / click.echo calls whose value is discarded.
Exception messages are not modelled.  Anything else: `-- <function>: outside the translated subset (<reason>)`.
"""
import ast
import os
import re as _re

from common import LEAN, REPO
from translate.leaves import Unsupported, is_noise

SRC = os.path.join("src", "cm_colors", "cli", "main.py")
FULL_PATTERN = r"var\((--[\w-]+)(?:\s*,\s*(.*))?\)"
OUT = os.path.join(LEAN, "CmGen", "CliResolve.lean")

_KEYWORDS = {"fun", "let", "then", "else", "if", "at", "from", "to", "end", "open", "in", "do", "by", "have", "show", "λ", "match",
             "with", "def", "theorem", "where", "instance", "structure", "class", "namespace", "section", "import", "for", "return",
             "mut", "deriving", "inductive", "variable", "universe", "example", "abbrev", "macro", "syntax", "notation", "prefix",
             "infix", "postfix", "nomatch", "nofun", "Type", "Prop", "Sort", "using", "calc", "suffices", "obtain", "private",
             "protected", "mutual", "partial", "unsafe", "extends", "forall", "exists", "env", "fuel", "some", "none", "true", "false"}


def lname(n):
    return n + "_" if n in _KEYWORDS else n


def lean_str(s):
    out = []
    for ch in s:
        if ch == "\\":
            out.append("\\\\")
        elif ch == '"':
            out.append('\\"')
        elif ch == "\n":
            out.append("\\n")
        elif ch == "\t":
            out.append("\\t")
        elif ord(ch) < 32 or ord(ch) == 127:
            out.append("\\u{%x}" % ord(ch))
        else:
            out.append(ch)
    return '"' + "".join(out) + '"'


def noise(s):
    if is_noise(s):
        return True
    if isinstance(s, ast.Expr) and isinstance(s.value, ast.Constant) and isinstance(s.value.value, str):
        return True            # docstring
    if isinstance(s, ast.Import) and all(a.name == "re" and a.asname is None for a in s.names):
        return True
    if isinstance(s, ast.Expr) and isinstance(s.value, ast.Call):
        f = s.value.func
        if isinstance(f, ast.Attribute) and isinstance(f.value, ast.Name) and f.value.id == "click" and f.attr in ("echo", "secho"):
            return True
    return False


def atom(t):
    t = t.strip()
    if _re.fullmatch(r"[\w'.!]+", t) or (t.startswith("(") and t.endswith(")") and _balanced(t)):
        return t
    return "(" + t + ")"


def _balanced(t):
    d = 0
    for i, c in enumerate(t):
        d += c == "("
        d -= c == ")"
        if d == 0 and i < len(t) - 1:
            return False
    return d == 0


def name_of(n):
    return n.id if isinstance(n, ast.Name) else None


def is_none(n):
    return isinstance(n, ast.Constant) and n.value is None


class Tr:
    """typed expressions and statements (continuation style: a block is a Lean term of the function's result type)"""

    def __init__(self, fn_node, rec=None, params=(), vis=None, vars_name=None):
        self.fn = fn_node
        self.rec = rec                # python name of the function being defined (recursive calls)
        self.params = list(params)
        self.vis = vis                # python name of the threaded set
        self.vars_name = vars_name
        self.env = {}
        self.cnt = 0
        self.guard = {}               # (d, k) -> lean name of `d[k]`
        self.pattern = None
        self.free = None              # call sites: free names in order of occurrence, with types

    def fresh(self, p):
        self.cnt += 1
        return "%s'%d" % (p, self.cnt)

    # ------------------------------------------------------------------ expressions
    def typed(self, n, want):
        e = self.expr(n)
        if e[1] != want:
            raise Unsupported("expected %s, got %s: %s" % (want, e[1], ast.unparse(n)[:60]))
        return e[0]

    def expr(self, n):
        if isinstance(n, ast.Name):
            if n.id not in self.env:
                raise Unsupported("name `%s` of unknown type" % n.id)
            return lname(n.id), self.env[n.id]
        if isinstance(n, ast.Constant):
            if n.value is None:
                return "none", "OS"
            if isinstance(n.value, bool):
                return ("true" if n.value else "false"), "B"
            if isinstance(n.value, str):
                return lean_str(n.value) + ".toList", "S"
            raise Unsupported("constant %r" % (n.value,))
        if isinstance(n, ast.UnaryOp) and isinstance(n.op, ast.Not):
            return self.falsy(n.operand), "B"
        if isinstance(n, ast.BoolOp):
            if isinstance(n.op, ast.Or) and self.free is not None:
                return self.value_or(n)
            op = " || " if isinstance(n.op, ast.Or) else " && "
            return "(" + op.join(atom(self.truthy(v)) for v in n.values) + ")", "B"
        if isinstance(n, ast.Compare) and len(n.ops) == 1:
            return self.compare(n.left, n.ops[0], n.comparators[0])
        if isinstance(n, ast.Call):
            return self.call(n)
        if isinstance(n, ast.Subscript):
            k = n.slice
            if isinstance(k, ast.Constant) and isinstance(k.value, str):
                e = self.expr(n.value)
                if e[1] == "VD" and k.value == "value":
                    return "%s.value" % atom(e[0]), "S"
                raise Unsupported("key %r of %s" % (k.value, e[1]))
            d, kk = name_of(n.value), name_of(k)
            if d and kk and (d, kk) in self.guard:
                return self.guard[(d, kk)], "VD"
            raise Unsupported("subscript `%s` outside `if k in d:` (may raise KeyError)" % ast.unparse(n)[:50])
        raise Unsupported("expression " + ast.unparse(n)[:60])

    def truthy(self, n):
        t, ty = self.expr(n)
        if ty == "B":
            return t
        if ty == "S":
            return "!%s.isEmpty" % atom(t)
        if ty == "OS":
            return "(match %s with | some v' => !v'.isEmpty | none => false)" % t
        if ty == "OM":
            return "%s.isSome" % atom(t)
        if ty in ("VIS", "VARS"):
            return "!%s.isEmpty" % atom(t)
        raise Unsupported("truth value of %s" % ty)

    def falsy(self, n):
        t, ty = self.expr(n)
        if ty == "B":
            return "!%s" % atom(t)
        if ty == "S":
            return "%s.isEmpty" % atom(t)
        if ty == "OS":
            return "(match %s with | some v' => v'.isEmpty | none => true)" % t
        if ty == "OM":
            return "%s.isNone" % atom(t)
        if ty in ("VIS", "VARS"):
            return "%s.isEmpty" % atom(t)
        raise Unsupported("truth value of %s" % ty)

    def compare(self, a, op, b):
        neg = isinstance(op, (ast.NotIn, ast.IsNot, ast.NotEq))
        if isinstance(op, (ast.In, ast.NotIn)):
            if isinstance(a, ast.Constant) and isinstance(a.value, str):
                if a.value != "var(":
                    raise Unsupported("substring test for %r (only \"var(\" has a model function)" % a.value)
                t = "containsVar %s" % atom(self.typed(b, "S"))
            elif isinstance(b, ast.Tuple):
                x = self.typed(a, "S")
                if not b.elts or not all(isinstance(e, ast.Constant) and isinstance(e.value, str) for e in b.elts):
                    raise Unsupported("membership in a tuple that is not made of string literals")
                t = "(" + " || ".join("%s = %s.toList" % (x, lean_str(e.value)) for e in b.elts) + ")"
            else:
                x = self.typed(a, "S")
                c, ty = self.expr(b)
                if ty == "VIS":
                    t = "%s.contains %s" % (atom(c), atom(x))
                elif ty == "VARS":
                    t = "(lookupVar %s %s).isSome" % (atom(c), atom(x))
                else:
                    raise Unsupported("membership in %s" % ty)
            return ("!" + atom(t) if neg else t), "B"
        if isinstance(op, (ast.Is, ast.IsNot)) and is_none(b):
            t, ty = self.expr(a)
            if ty not in ("OS", "OM"):
                raise Unsupported("`is None` on %s" % ty)
            return "%s.%s" % (atom(t), "isSome" if neg else "isNone"), "B"
        if isinstance(op, (ast.Eq, ast.NotEq)):
            t = "decide (%s = %s)" % (self.typed(a, "S"), self.typed(b, "S"))
            return ("!" + atom(t) if neg else t), "B"
        raise Unsupported("comparison " + type(op).__name__)

    def pattern_of(self, n):
        if not (isinstance(n, ast.Constant) and isinstance(n.value, str)):
            raise Unsupported("regular expression that is not a string literal")
        if self.pattern is None:
            self.pattern = n.value
        if n.value != FULL_PATTERN:
            raise Unsupported("regular expression %r has no model function" % n.value)
        return n.value

    def call(self, n):
        f = n.func
        if n.keywords and not (isinstance(f, ast.Name) and f.id == self.rec):
            raise Unsupported("keyword arguments in " + ast.unparse(n)[:50])
        if isinstance(f, ast.Attribute):
            obj, meth = f.value, f.attr
            if name_of(obj) == "re" and "re" not in self.env:
                if meth == "compile" and len(n.args) == 1:
                    return "", ("RE", self.pattern_of(n.args[0]))
                if meth == "search" and len(n.args) == 2:
                    self.pattern_of(n.args[0])
                    return "searchVarFull env %s" % atom(self.typed(n.args[1], "S")), "OM"
                raise Unsupported("re.%s" % meth)
            t, ty = self.expr(obj)
            if isinstance(ty, tuple) and ty[0] == "RE" and meth == "search" and len(n.args) == 1:
                return "searchVarFull env %s" % atom(self.typed(n.args[0], "S")), "OM"
            if ty == "M" and meth == "group" and len(n.args) == 1 and isinstance(n.args[0], ast.Constant) and n.args[0].value in (1, 2) \
                    and not isinstance(n.args[0].value, bool):
                return "%s.%d" % (atom(t), n.args[0].value), ("S" if n.args[0].value == 1 else "OS")
            if ty == "OM" and meth == "group":
                raise Unsupported("`.group` on a match that may be None")
            if ty == "S" and meth == "startswith" and len(n.args) == 1 and isinstance(n.args[0], ast.Constant) and isinstance(n.args[0].value, str):
                return "startsWith %s %s.toList" % (atom(t), lean_str(n.args[0].value)), "B"
            if ty == "S" and meth == "strip" and not n.args:
                return "strip env %s" % atom(t), "S"
            raise Unsupported("method %s on %s" % (meth, ty if isinstance(ty, str) else ty[0]))
        if isinstance(f, ast.Name):
            if f.id == "set" and not n.args:
                return "([] : List Str)", "VIS"
            if f.id == "resolve_variable" and self.free is not None:
                if len(n.args) != 2:
                    raise Unsupported("call site passes %d arguments" % len(n.args))
                return "(resolve_variable env %s fuel %s []).1" % (atom(self.typed(n.args[1], "VARS")), atom(self.typed(n.args[0], "S"))), "OS"
        raise Unsupported("call " + ast.unparse(n)[:60])

    def value_or(self, n):
        """`X or b` as a value"""
        if len(n.values) != 2:
            raise Unsupported("`or` chain of %d values" % len(n.values))
        x, tx = self.expr(n.values[0])
        b, tb = self.expr(n.values[1])
        if tx == "OS" and tb == "S":
            r = self.fresh("r")
            return "match %s with\n  | some %s => if %s.isEmpty then %s else %s\n  | none => %s" % (x, r, r, b, r, b), "S"
        raise Unsupported("`or` of %s and %s" % (tx, tb))

    # ------------------------------------------------------------------ recursive calls
    def is_rec(self, n):
        return self.rec is not None and isinstance(n, ast.Call) and name_of(n.func) == self.rec

    def rec_args(self, n):
        """(lean call text, python name of the shared set or None)"""
        if len(n.args) > len(self.params):
            raise Unsupported("too many arguments in the recursive call")
        given = dict(zip(self.params, n.args))
        for k in n.keywords:
            if k.arg is None or k.arg not in self.params or k.arg in given:
                raise Unsupported("keyword argument in the recursive call")
            given[k.arg] = k.value
        p0, p1, p2 = self.params
        if p0 not in given or p1 not in given:
            raise Unsupported("recursive call without its first two arguments")
        if name_of(given[p1]) != self.vars_name or self.env.get(self.vars_name) != "VARS":
            raise Unsupported("recursive call with a different `%s`" % self.vars_name)
        a0 = self.typed(given[p0], "S")
        shared = None
        if p2 in given:
            v = given[p2]
            a2, ty = self.expr(v)
            if ty != "VIS":
                raise Unsupported("third argument of the recursive call is %s" % ty)
            if isinstance(v, ast.Name):
                shared = v.id
            elif not (isinstance(v, ast.Call) and name_of(v.func) == "set" and not v.args):
                raise Unsupported("third argument of the recursive call")
        else:
            a2 = "[]"
        return "%s env %s fuel %s %s" % (self.rec, lname(self.vars_name), atom(a0), atom(a2)), shared

    # ------------------------------------------------------------------ statements
    def ret(self, e):
        if self.env.get(self.vis) != "VIS":
            raise Unsupported("`%s` is not a set when the function returns" % self.vis)
        v = lname(self.vis)
        if e[1] == "S":
            return "(some %s, %s)" % (atom(e[0]), v)
        if e[1] == "OS":
            return "(%s, %s)" % (e[0], v)
        raise Unsupported("returns a value of type %s" % (e[1],))

    def terminates(self, stmts):
        for s in stmts:
            if isinstance(s, (ast.Return, ast.Raise)):
                return True
            if isinstance(s, ast.If) and s.orelse and self.terminates(s.body) and self.terminates(s.orelse):
                return True
        return False

    def assign_counts(self):
        c = {}
        for x in ast.walk(self.fn):
            if isinstance(x, ast.Name) and isinstance(x.ctx, (ast.Store, ast.Del)):
                c[x.id] = c.get(x.id, 0) + 1
        return c

    def mutated(self, d):
        for x in ast.walk(self.fn):
            if isinstance(x, ast.Subscript) and isinstance(x.ctx, (ast.Store, ast.Del)) and name_of(x.value) == d:
                return True
            if isinstance(x, ast.Call) and isinstance(x.func, ast.Attribute) and name_of(x.func.value) == d \
                    and x.func.attr in ("pop", "popitem", "clear", "update", "setdefault", "__setitem__", "__delitem__"):
                return True
        return False

    def branches(self, a_stmts, b_stmts, rest, ind, bind_a=None):
        """the two continuations of an `if`; `bind_a` = (python name, type) valid in the first one"""
        saved, gsaved = dict(self.env), dict(self.guard)
        if bind_a:
            self.env[bind_a[0]] = bind_a[1]
        a = self.block(list(a_stmts) + ([] if self.terminates(a_stmts) else rest), ind)
        self.env, self.guard = dict(saved), dict(gsaved)
        b = self.block(list(b_stmts) + ([] if self.terminates(b_stmts) else rest), ind)
        self.env, self.guard = dict(saved), dict(gsaved)
        return a, b

    def if_stmt(self, s, rest, ind):
        pad = "  " * ind
        t = s.test
        neg = False
        if isinstance(t, ast.UnaryOp) and isinstance(t.op, ast.Not) and isinstance(t.operand, ast.Name):
            t, neg = t.operand, True
        # narrowing on a bare name
        nm, only_none = None, False
        if isinstance(t, ast.Name) and self.env.get(t.id) in ("OS", "OM"):
            nm = t.id
        elif isinstance(t, ast.Compare) and len(t.ops) == 1 and isinstance(t.ops[0], (ast.Is, ast.IsNot)) and is_none(t.comparators[0]) \
                and isinstance(t.left, ast.Name) and self.env.get(t.left.id) in ("OS", "OM") and not neg:
            nm, only_none, neg = t.left.id, True, isinstance(t.ops[0], ast.Is)
        if nm is not None:
            ty = self.env[nm]
            A, B = (s.orelse, s.body) if neg else (s.body, s.orelse)      # A: the name is (truthy / not None)
            x = lname(nm)
            if ty == "OS" and not only_none:
                saved = dict(self.env)
                self.env[nm] = "S"
                a = self.block(list(A) + ([] if self.terminates(A) else rest), ind + 2)
                self.env = dict(saved)
                b2 = self.block(list(B) + ([] if self.terminates(B) else rest), ind + 2)
                self.env = dict(saved)
                b1 = self.block(list(B) + ([] if self.terminates(B) else rest), ind + 1)
                self.env = dict(saved)
                return ("%smatch %s with\n%s| some %s =>\n%s  if !%s.isEmpty then\n%s\n%s  else\n%s\n%s| none =>\n%s"
                        % (pad, x, pad, x, pad, x, a, pad, b2, pad, b1))
            a, b = self.branches(A, B, rest, ind + 1, bind_a=(nm, "S" if ty == "OS" else "M"))
            return "%smatch %s with\n%s| some %s =>\n%s\n%s| none =>\n%s" % (pad, x, pad, x, a, pad, b)
        # guarded dictionary lookup
        if isinstance(s.test, ast.Compare) and len(s.test.ops) == 1 and isinstance(s.test.ops[0], ast.In) \
                and isinstance(s.test.left, ast.Name) and isinstance(s.test.comparators[0], ast.Name) \
                and self.env.get(s.test.comparators[0].id) == "VARS":
            k, d = s.test.left.id, s.test.comparators[0].id
            self.typed(s.test.left, "S")
            if self.assign_counts().get(k, 0) > 1 or self.assign_counts().get(d, 0) > 0 or self.mutated(d):
                raise Unsupported("`%s` or `%s` is re-assigned / mutated in a function that uses `if %s in %s:`" % (k, d, k, d))
            e = self.fresh("d")
            saved, gsaved = dict(self.env), dict(self.guard)
            self.guard[(d, k)] = e
            a = self.block(list(s.body) + ([] if self.terminates(s.body) else rest), ind + 1)
            self.env, self.guard = dict(saved), dict(gsaved)
            b = self.block(list(s.orelse) + ([] if self.terminates(s.orelse) else rest), ind + 1)
            self.env, self.guard = dict(saved), dict(gsaved)
            return "%smatch lookupVar %s %s with\n%s| some %s =>\n%s\n%s| none =>\n%s" % (pad, lname(d), lname(k), pad, e, a, pad, b)
        c = self.truthy(s.test)
        a, b = self.branches(s.body, s.orelse, rest, ind + 1)
        return "%sif %s then\n%s\n%selse\n%s" % (pad, c, a, pad, b)

    def block(self, stmts, ind):
        pad = "  " * ind
        if not stmts:
            return pad + self.ret(("none", "OS"))          # falling off the end: `return None`
        s, rest = stmts[0], list(stmts[1:])
        if noise(s):
            return self.block(rest, ind)
        if isinstance(s, ast.Return):
            if s.value is None:
                return pad + self.ret(("none", "OS"))
            if self.is_rec(s.value):
                call, shared = self.rec_args(s.value)
                if shared is not None and shared == self.vis:
                    return pad + call
                return pad + self.ret(("(%s).1" % call, "OS"))
            return pad + self.ret(self.expr(s.value))
        if isinstance(s, ast.If):
            return self.if_stmt(s, rest, ind)
        if isinstance(s, ast.Assign) and len(s.targets) == 1 and isinstance(s.targets[0], ast.Name):
            t = s.targets[0].id
            if self.is_rec(s.value):
                call, shared = self.rec_args(s.value)
                r = self.fresh("r")
                out = "%slet %s := %s\n" % (pad, r, call)
                if shared is not None:
                    # the callee mutates the very set object the caller holds
                    self.env[t] = "OS"
                    if t == shared:
                        raise Unsupported("result assigned to the shared set")
                    out += "%slet %s := %s.1\n%slet %s := %s.2\n" % (pad, lname(t), r, pad, lname(shared), r)
                else:
                    self.env[t] = "OS"
                    out += "%slet %s := %s.1\n" % (pad, lname(t), r)
                return out + self.block(rest, ind)
            e, ty = self.expr(s.value)
            self.env[t] = ty
            if isinstance(ty, tuple):      # a compiled pattern: nothing to compute
                return self.block(rest, ind)
            return "%slet %s := %s\n" % (pad, lname(t), e) + self.block(rest, ind)
        if isinstance(s, ast.Expr) and isinstance(s.value, ast.Call) and isinstance(s.value.func, ast.Attribute) \
                and s.value.func.attr == "add" and isinstance(s.value.func.value, ast.Name) and len(s.value.args) == 1 \
                and not s.value.keywords and self.env.get(s.value.func.value.id) == "VIS":
            v = lname(s.value.func.value.id)
            return "%slet %s := %s :: %s\n" % (pad, v, atom(self.typed(s.value.args[0], "S")), v) + self.block(rest, ind)
        raise Unsupported("statement `%s`" % ast.unparse(s).split("\n")[0][:60])


# ---------------------------------------------------------------------- resolve_variable
def find_fn(tree, name):
    nodes = [x for x in tree.body if isinstance(x, ast.FunctionDef) and x.name == name]
    if len(nodes) != 1:
        raise Unsupported("not found (or defined twice)")
    return nodes[0]


def gen_resolve(tree):
    node = find_fn(tree, "resolve_variable")
    a = node.args
    if a.vararg or a.kwarg or a.kwonlyargs or a.posonlyargs or len(a.args) != 3 or len(a.defaults) != 1 or not is_none(a.defaults[0]):
        raise Unsupported("signature is not (value_str, variables, visited=None)")
    p0, p1, p2 = [x.arg for x in a.args]
    body = [s for s in node.body]
    while body and noise(body[0]):
        body.pop(0)
    idiom = body[0] if body else None
    ok = (isinstance(idiom, ast.If) and not idiom.orelse and isinstance(idiom.test, ast.Compare) and len(idiom.test.ops) == 1
          and isinstance(idiom.test.ops[0], ast.Is) and name_of(idiom.test.left) == p2 and is_none(idiom.test.comparators[0])
          and len([s for s in idiom.body if not noise(s)]) == 1)
    if ok:
        st = [s for s in idiom.body if not noise(s)][0]
        ok = (isinstance(st, ast.Assign) and len(st.targets) == 1 and name_of(st.targets[0]) == p2 and isinstance(st.value, ast.Call)
              and name_of(st.value.func) == "set" and not st.value.args and not st.value.keywords)
    if not ok:
        raise Unsupported("first statement is not `if %s is None: %s = set()`" % (p2, p2))
    tr = Tr(node, rec=node.name, params=[p0, p1, p2], vis=p2, vars_name=p1)
    tr.env = {p0: "S", p1: "VARS", p2: "VIS"}
    text = tr.block(body[1:], 2)
    out = ("/-- `resolve_variable` -/\ndef resolve_variable (env : CliEnv) (%s : Vars) : Nat → Str → List Str → Option Str × List Str\n"
           "  | 0, %s, %s => (some %s, %s)\n  | fuel + 1, %s, %s =>\n%s\n"
           % (lname(p1), lname(p0), lname(p2), lname(p0), lname(p2), lname(p0), lname(p2), text))
    return out, 1


def gen_pattern(tree, done=()):
    """the first pattern text `resolve_variable` hands to `re.compile` / `re.search`"""
    node = find_fn(tree, "resolve_variable")
    pats = []
    for x in ast.walk(node):
        if isinstance(x, ast.Call) and isinstance(x.func, ast.Attribute) and name_of(x.func.value) == "re" and x.args:
            a = x.args[0]
            if not (isinstance(a, ast.Constant) and isinstance(a.value, str)):
                raise Unsupported("regular expression that is not a string literal")
            pats.append((x.lineno, x.col_offset, a.value))
    if len(pats) != 1:
        raise Unsupported("%d regular expressions in resolve_variable" % len(pats))
    return "/-- the regular expression `resolve_variable` searches for -/\ndef resolve_pattern : String := %s\n" % lean_str(pats[0][2]), 1


def gen_call_sites(tree, done=()):
    if "resolve_variable" not in done:
        raise Unsupported("the call sites use resolve_variable, which is not translated")
    node = find_fn(tree, "process_nodes_recursive")
    sites = []
    for x in ast.walk(node):
        if isinstance(x, (ast.Assign, ast.AnnAssign, ast.AugAssign, ast.Return, ast.Expr)) and x.value is not None \
                and any(isinstance(c, ast.Call) and name_of(c.func) == "resolve_variable" for c in ast.walk(x.value)):
            sites.append(x)
    sites.sort(key=lambda s: (s.lineno, s.col_offset))
    texts = []
    n = 0
    for i, s in enumerate(sites, 1):
        try:
            if not (isinstance(s, ast.Assign) and len(s.targets) == 1 and isinstance(s.targets[0], ast.Name)):
                raise Unsupported("call of resolve_variable outside a plain assignment")
            tr = Tr(node)
            tr.free = []
            # types of the free names: from the callee's signature (first argument S, second VARS)
            for c in ast.walk(s.value):
                if isinstance(c, ast.Call) and name_of(c.func) == "resolve_variable":
                    if len(c.args) != 2 or c.keywords or not all(isinstance(z, ast.Name) for z in c.args):
                        raise Unsupported("call site `%s`" % ast.unparse(c)[:60])
                    for z, ty in zip(c.args, ("S", "VARS")):
                        if tr.env.setdefault(z.id, ty) != ty:
                            raise Unsupported("`%s` used both as a string and as the dictionary" % z.id)
            order = []
            for z in ast.walk(s.value):
                if isinstance(z, ast.Name) and z.id in tr.env and z.id not in order:
                    order.append((z.lineno, z.col_offset, z.id))
            names = []
            for _, _, z in sorted(order):
                if z not in names:
                    names.append(z)
            e, ty = tr.expr(s.value)
            if ty != "S":
                raise Unsupported("call site has type %s" % ty)
            params = "".join(" (%s : Vars)" % lname(z) for z in names if tr.env[z] == "VARS") + " (fuel : Nat)" \
                + "".join(" (%s : Str)" % lname(z) for z in names if tr.env[z] == "S")
            texts.append("/-- call site %d in `process_nodes_recursive`: `%s` -/\ndef resolve_call_%d (env : CliEnv)%s : Str :=\n  %s\n"
                         % (i, " ".join(ast.unparse(s).split()).replace("-/", "- /"), i, params, e))
            n += 1
        except Unsupported as ex:
            texts.append("-- resolve_call_%d: outside the translated subset (%s)\n" % (i, str(ex).replace("\n", " ")[:300]))
    texts.append("/-- number of places where `process_nodes_recursive` calls `resolve_variable` -/\ndef resolve_call_sites : Nat := %d\n" % len(sites))
    return "\n".join(texts), n + 1



# ---------------------------------------------------------------------- the pre-pass of main()
class Pre(Tr):
    """loop bodies as state transformers over the abstract stylesheet"""

    def __init__(self, fn_node, tree):
        super().__init__(fn_node)
        self.tree = tree
        self.fields = {}        # narrowed rule name -> (lean name of selector, lean name of items)
        self.state = []         # python names of the dictionaries the current loop body may assign into
        self.outer = None       # (rule variable, lean index name)
        self.inner = None       # (declaration variable, lean index name)
        self.aux = []

    def helper_is_strip_of_serialize(self, name):
        fns = [x for x in self.tree.body if isinstance(x, ast.FunctionDef) and x.name == name]
        if len(fns) != 1 or len(fns[0].args.args) != 1:
            return False
        body = [x for x in fns[0].body if not noise(x)]
        if len(body) != 1 or not isinstance(body[0], ast.Return):
            return False
        v = body[0].value
        return (isinstance(v, ast.Call) and isinstance(v.func, ast.Attribute) and v.func.attr == "strip" and not v.args and not v.keywords
                and self.is_serialize(v.func.value) and name_of(v.func.value.args[0]) == fns[0].args.args[0].arg)

    @staticmethod
    def is_serialize(n):
        return (isinstance(n, ast.Call) and isinstance(n.func, ast.Attribute) and n.func.attr == "serialize" and name_of(n.func.value) == "tinycss2"
                and len(n.args) == 1 and not n.keywords)

    def attr_of(self, n, attr, ty):
        """`x.attr` with x a name of type ty: the name, else None"""
        if isinstance(n, ast.Attribute) and n.attr == attr and isinstance(n.value, ast.Name) and self.env.get(n.value.id) == ty:
            return n.value.id
        return None

    def expr(self, n):
        if isinstance(n, ast.Attribute) and isinstance(n.value, ast.Name) and self.env.get(n.value.id) == "DECL":
            if n.attr == "name":
                return "%s.name" % lname(n.value.id), "S"
            if n.attr == "lower_name":
                return "%s.lowerName" % lname(n.value.id), "S"
            raise Unsupported("attribute .%s of a declaration" % n.attr)
        if isinstance(n, ast.Call):
            f = n.func
            if self.is_serialize(n):
                d = self.attr_of(n.args[0], "value", "DECL")
                if d is not None:
                    return "%s.value" % lname(d), "S"
                raise Unsupported("tinycss2.serialize of " + ast.unparse(n.args[0])[:40])
            # the selector: serialize(prelude).strip(), directly or through a helper that is exactly that
            if isinstance(f, ast.Attribute) and f.attr == "strip" and not n.args and not n.keywords and self.is_serialize(f.value):
                r = self.attr_of(f.value.args[0], "prelude", "RULE")
                if r is not None:
                    return self.fields[r][0], "S"
            if isinstance(f, ast.Name) and len(n.args) == 1 and not n.keywords and self.attr_of(n.args[0], "prelude", "RULE") is not None:
                if not self.helper_is_strip_of_serialize(f.id):
                    raise Unsupported("`%s` is not `tinycss2.serialize(prelude).strip()`" % f.id)
                return self.fields[self.attr_of(n.args[0], "prelude", "RULE")][0], "S"
            if isinstance(f, ast.Attribute) and f.attr == "parse_declaration_list" and name_of(f.value) == "tinycss2":
                r = self.attr_of(n.args[0], "content", "RULE") if len(n.args) == 1 else None
                kw = {k.arg: k.value for k in n.keywords}
                if r is None or set(kw) != {"skip_whitespace", "skip_comments"} \
                        or not all(isinstance(v, ast.Constant) and v.value is False for v in kw.values()):
                    raise Unsupported("parse_declaration_list is not called as (rule.content, skip_whitespace=False, skip_comments=False)")
                return self.fields[r][1], "ITEMS"
        return super().expr(n)

    def st(self):
        return lname(self.state[0]) if len(self.state) == 1 else "(" + ", ".join(lname(x) for x in self.state) + ")"

    def isinstance_split(self, test):
        """test = isinstance(x, C) [and more]: (x, C, remaining conjuncts) or None"""
        first, more = test, []
        if isinstance(test, ast.BoolOp) and isinstance(test.op, ast.And):
            first, more = test.values[0], list(test.values[1:])
        if isinstance(first, ast.Call) and name_of(first.func) == "isinstance" and len(first.args) == 2 and not first.keywords \
                and isinstance(first.args[0], ast.Name) and isinstance(first.args[1], ast.Name):
            return first.args[0].id, first.args[1].id, more
        return None

    def sblock(self, stmts, ind):
        pad = "  " * ind
        if not stmts:
            return pad + self.st()
        s, rest = stmts[0], list(stmts[1:])
        if noise(s):
            return self.sblock(rest, ind)
        if isinstance(s, ast.If):
            sp = self.isinstance_split(s.test)
            saved, fsaved = dict(self.env), dict(self.fields)
            B1 = self.sblock(list(s.orelse) + rest, ind + 1)
            self.env, self.fields = dict(saved), dict(fsaved)
            if sp is not None:
                x, cls, more = sp
                ty = self.env.get(x)
                if (ty, cls) == ("NODE", "QualifiedRule"):
                    sel, items = lname(x) + "'sel", lname(x) + "'items"
                    self.env[x] = "RULE"
                    self.fields[x] = (sel, items)
                    arm, other = ".rule %s %s" % (sel, items), "_"
                elif (ty, cls) == ("ITEM", "Declaration"):
                    self.env[x] = "DECL"
                    arm, other = ".decl %s" % lname(x), ".other _ _"
                else:
                    raise Unsupported("isinstance(%s, %s) with %s of type %s" % (x, cls, x, ty))
                if more:
                    c = " && ".join(atom(self.truthy(m)) for m in more)
                    narrowed = dict(self.env)
                    A = self.sblock(list(s.body) + rest, ind + 3)
                    self.env = dict(narrowed)      # the else-continuation inside the arm: the narrowing stays valid
                    E = self.sblock(list(s.orelse) + rest, ind + 3)
                    text = "%smatch %s with\n%s| %s =>\n%s  if %s then\n%s\n%s  else\n%s\n%s| %s =>\n%s" % (
                        pad, lname(x), pad, arm, pad, c, A, pad, E, pad, other, B1)
                else:
                    A = self.sblock(list(s.body) + rest, ind + 1)
                    text = "%smatch %s with\n%s| %s =>\n%s\n%s| %s =>\n%s" % (pad, lname(x), pad, arm, A, pad, other, B1)
                self.env, self.fields = saved, fsaved
                return text
            c = self.truthy(s.test)
            A = self.sblock(list(s.body) + rest, ind + 1)
            self.env, self.fields = saved, fsaved
            return "%sif %s then\n%s\n%selse\n%s" % (pad, c, A, pad, B1)
        if isinstance(s, ast.Assign) and len(s.targets) == 1 and isinstance(s.targets[0], ast.Name):
            t = s.targets[0].id
            if t in self.state or t in (self.outer or ()) or t in (self.inner or ()):
                raise Unsupported("assignment to `%s` inside the loop" % t)
            e, ty = self.expr(s.value)
            self.env[t] = ty
            return "%slet %s := %s\n" % (pad, lname(t), e) + self.sblock(rest, ind)
        if isinstance(s, ast.Assign) and len(s.targets) == 1 and isinstance(s.targets[0], ast.Subscript) and isinstance(s.targets[0].value, ast.Name):
            d, k = s.targets[0].value.id, s.targets[0].slice
            if d not in self.state:
                raise Unsupported("assignment into `%s`" % d)
            if self.env.get(d) == "RMAP":
                if not (isinstance(k, ast.Call) and name_of(k.func) == "id" and len(k.args) == 1 and self.outer and name_of(k.args[0]) == self.outer[0]):
                    raise Unsupported("key of `%s` is not id(<the loop's rule>)" % d)
                return "%slet %s := %s ++ [(%s, %s)]\n" % (pad, lname(d), lname(d), self.outer[1], self.typed(s.value, "ITEMS")) + self.sblock(rest, ind)
            if self.env.get(d) == "VARS":
                key = self.typed(k, "S")
                v = s.value
                if not (isinstance(v, ast.Dict) and all(isinstance(x, ast.Constant) and isinstance(x.value, str) for x in v.keys)):
                    raise Unsupported("value stored in `%s` is not a dict literal with string keys" % d)
                items = dict(zip([x.value for x in v.keys], v.values))
                if len(items) != len(v.keys) or not {"decl", "value"} <= set(items) or not set(items) <= {"decl", "value", "rule"}:
                    raise Unsupported("keys %s of the stored dict" % sorted(items))
                if not (self.inner and name_of(items["decl"]) == self.inner[0] and self.env.get(self.inner[0]) == "DECL"):
                    raise Unsupported("\"decl\" is not the declaration the loop is at")
                if "rule" in items and not (self.outer and name_of(items["rule"]) == self.outer[0]):
                    raise Unsupported("\"rule\" is not the rule the loop is at")
                val = self.typed(items["value"], "S")
                return "%slet %s := (%s, { rule := %s, item := %s, value := %s }) :: %s.filter (·.1 ≠ %s)\n" % (
                    pad, lname(d), key, self.outer[1], self.inner[1], val, lname(d), key) + self.sblock(rest, ind)
            raise Unsupported("assignment into `%s`" % d)
        if isinstance(s, ast.For) and not s.orelse and isinstance(s.target, ast.Name) and isinstance(s.iter, ast.Name) \
                and self.env.get(s.iter.id) == "ITEMS" and self.inner is None and self.outer is not None:
            # inner loop over a declaration list: may assign into the VARS dictionaries only
            assigned = sorted({x.value.id for x in ast.walk(s) if isinstance(x, ast.Subscript) and isinstance(x.ctx, ast.Store) and isinstance(x.value, ast.Name)})
            if len(assigned) != 1 or assigned[0] not in self.state or self.env.get(assigned[0]) != "VARS":
                raise Unsupported("the inner loop assigns into %s" % assigned)
            v = assigned[0]
            sub = Pre(self.fn, self.tree)
            sub.env = {v: "VARS", s.target.id: "ITEM"}
            sub.state = [v]
            sub.outer = (self.outer[0], "i'")
            sub.inner = (s.target.id, "j'")
            body = sub.sblock(list(s.body), 3)
            name = "prepass_decls"
            self.aux.append("/-- `%s` in the pre-pass of `main` -/\ndef %s (env : CliEnv) (i' : Nat) : List Item → Nat → Vars → Vars\n"
                            "  | [], _, %s => %s\n  | %s :: rest', j', %s =>\n    %s env i' rest' (j' + 1) (\n%s)\n"
                            % (" ".join(ast.unparse(s).split("\n")[0].split()), name, lname(v), lname(v), lname(s.target.id), lname(v), name, body))
            return "%slet %s := %s env %s %s 0 %s\n" % (pad, lname(v), name, self.outer[1], lname(s.iter.id), lname(v)) + self.sblock(rest, ind)
        raise Unsupported("statement `%s`" % ast.unparse(s).split("\n")[0][:60])


def gen_prepass(tree, done=()):
    node = find_fn(tree, "main")
    # the call that consumes the pre-pass tells which names are the stylesheet, the variables and the declaration lists
    hit = None
    for blk in ast.walk(node):
        for fld in ("body", "orelse", "finalbody"):
            stmts = getattr(blk, fld, None)
            if not isinstance(stmts, list):
                continue
            for idx, st in enumerate(stmts):
                if isinstance(st, ast.Expr) and isinstance(st.value, ast.Call) and name_of(st.value.func) == "process_nodes_recursive":
                    if hit is not None:
                        raise Unsupported("process_nodes_recursive is called twice in main")
                    hit = (stmts, idx, st.value)
    if hit is None:
        raise Unsupported("no call of process_nodes_recursive in main")
    stmts, idx, call = hit
    callee = find_fn(tree, "process_nodes_recursive")
    pnames = [a.arg for a in callee.args.args]
    given = dict(zip(pnames, call.args))
    for k in call.keywords:
        given[k.arg] = k.value
    try:
        R, V, M = name_of(given[pnames[0]]), name_of(given["variables"]), name_of(given["rule_declarations"])
    except KeyError as e:
        raise Unsupported("process_nodes_recursive is called without %s" % e)
    if not (R and V and M) or len({R, V, M}) != 3:
        raise Unsupported("arguments of process_nodes_recursive are not three distinct names")
    # the statements between the assignment of the stylesheet and the call
    start = [i for i, st in enumerate(stmts[:idx]) if isinstance(st, ast.Assign) and len(st.targets) == 1 and name_of(st.targets[0]) == R]
    if len(start) != 1:
        raise Unsupported("`%s` is not assigned exactly once before the call" % R)
    pre = Pre(node, tree)
    pre.env = {R: "NODES"}
    lines, loops = [], 0
    for st in stmts[start[0] + 1:idx]:
        if noise(st):
            continue
        if isinstance(st, ast.Assign) and len(st.targets) == 1 and name_of(st.targets[0]) in (V, M) and isinstance(st.value, ast.Dict) and not st.value.keys:
            t = name_of(st.targets[0])
            pre.env[t] = "VARS" if t == V else "RMAP"
            lines.append("  let %s : %s := []" % (lname(t), "Vars" if t == V else "List (Nat × List Item)"))
            continue
        if isinstance(st, ast.For) and not st.orelse and isinstance(st.target, ast.Name) and name_of(st.iter) == R:
            if pre.env.get(V) != "VARS" or pre.env.get(M) != "RMAP":
                raise Unsupported("the loop runs before `%s = {}` and `%s = {}`" % (V, M))
            loops += 1
            if loops > 1:
                raise Unsupported("more than one loop over `%s` before the call" % R)
            sub = Pre(node, tree)
            sub.env = {V: "VARS", M: "RMAP", st.target.id: "NODE"}
            sub.state = [V, M]
            sub.outer = (st.target.id, "i'")
            body = sub.sblock(list(st.body), 3)
            pre.aux += sub.aux
            pre.aux.append("/-- `%s` in the pre-pass of `main` -/\ndef prepass_rules (env : CliEnv) : List Node → Nat → Vars × List (Nat × List Item) → Vars × List (Nat × List Item)\n"
                           "  | [], _, s' => s'\n  | %s :: rest', i', (%s, %s) =>\n    prepass_rules env rest' (i' + 1) (\n%s)\n"
                           % (" ".join(ast.unparse(st).split("\n")[0].split()), lname(st.target.id), lname(V), lname(M), body))
            lines.append("  let s' := prepass_rules env %s 0 (%s, %s)\n  let %s := s'.1\n  let %s := s'.2" % (lname(R), lname(V), lname(M), lname(V), lname(M)))
            continue
        raise Unsupported("statement `%s` between parsing and processing" % ast.unparse(st).split("\n")[0][:60])
    if loops != 1:
        raise Unsupported("no loop over `%s` before the call" % R)
    text = "\n".join(pre.aux) + ("\n/-- the pre-pass of `main`: the dictionaries `%s` and `%s` handed to `process_nodes_recursive` -/\n"
                                 "def prepass (env : CliEnv) (%s : List Node) : Vars × List (Nat × List Item) :=\n%s\n  (%s, %s)\n"
                                 % (V, M, lname(R), "\n".join(lines), lname(V), lname(M)))
    return text, len(pre.aux) + 1


GENERATORS = [("resolve_pattern", gen_pattern), ("resolve_variable", gen_resolve), ("process_nodes_recursive", gen_call_sites), ("main", gen_prepass)]


def generate():
    texts, n = [], 0
    try:
        src = open(os.path.join(REPO, SRC), encoding="utf-8").read()
        tree = ast.parse(src)
    except Exception as e:  # noqa
        tree = None
        texts.append("-- main.py: outside the translated subset (%s)\n" % str(e).replace("\n", " ")[:300])
    done = []
    if tree is not None:
        for fn, g in GENERATORS:
            try:
                t, k = g(tree, done) if g is not gen_resolve else g(tree)
                texts.append(t)
                n += k
                done.append(fn)
                continue
            except Exception as e:  # noqa
                texts.append("-- %s: outside the translated subset (%s)\n" % (fn, (type(e).__name__ + ": " if not isinstance(e, Unsupported) else "")
                                                                             + str(e).replace("\n", " ")[:300]))
    out = ("import CmModel.Cli\n/-! GENERATED by harness/translate/cliresolve.py from src/cm_colors/cli/main.py — do not edit. -/\n"
           "set_option linter.unusedVariables false\nnamespace CmGen.CliResolve\nopen Cm Cm.Cli\n\n" + "\n".join(texts) + "\nend CmGen.CliResolve\n")
    old = open(OUT, encoding="utf-8").read() if os.path.exists(OUT) else None
    if old != out:
        with open(OUT, "w", encoding="utf-8") as fh:
            fh.write(out)
    return n


def summary():
    text = open(OUT, encoding="utf-8").read() if os.path.exists(OUT) else ""
    return {"generated_definitions": _re.findall(r"^(?:partial )?def (\S+)", text, _re.M), "not_translated": _re.findall(r"^-- (.*)$", text, _re.M),
            "file": "lean/CmGen/CliResolve.lean", "translator": "harness/translate/cliresolve.py"}


if __name__ == "__main__":
    print(generate())
