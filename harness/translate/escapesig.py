"""Translator: what is interpolated into the HTML reports, and how  ->  lean/CmGen/EscapeSig.lean

Regenerated from /repo's working tree on every run of C19 (in addition to the templates, which are extracted from *behaviour*
by translate/templates.py). For `cli/html_report.py` and `core/visualiser.py` every `{…}` placeholder of every f-string is
listed with the function it sits in, its source text and a classification obtained by a small data-flow analysis inside that
function:
  escaped        the value is `html.escape(…)` itself, or a name every assignment of which (in that function) is `html.escape(…)`,
                 or an f-string all of whose placeholders are escaped / const (e.g. `bg_style = f"background-color: {bg};"`)
  const          string / number literals only
  html:<f>       the result of calling another function of the same module that is itself in the table (`to_html`), or an
                 accumulator (`x += …`) of such results / literals
  badge:<f>      one of the results of `_get_level_badge(level)` (a label / CSS class chosen from literals, or the level name itself,
                 which the library computes — it is never caller text)
  len            `len(…)`
  (functions none of whose f-strings contains `<` — console rendering — are not listed)
  raw:<source>   anything else — a parameter, a dict item, a value that went through any other function, a conditional escape helper
`CmProps/C19sig.lean` pins the table and proves that no placeholder is `raw`: a new report function, a new placeholder, or
an escape that became conditional (a helper that is not literally `html.escape`) changes the table and breaks the theorem, also
for inputs the behaviour-extracted templates never see (e.g. a card that is only rendered for unparseable entries).
"""
import ast
import os

from common import LEAN, REPO
from translate.clisrc import slit

FILES = [os.path.join("src", "cm_colors", "cli", "html_report.py"), os.path.join("src", "cm_colors", "core", "visualiser.py")]
ORDER = {"const": 0, "len": 0, "escaped": 1}


def is_escape(c):
    return isinstance(c, ast.Call) and isinstance(c.func, ast.Attribute) and c.func.attr == "escape" and isinstance(c.func.value, ast.Name) \
        and c.func.value.id == "html"


class FnScan:
    def __init__(self, src, fn, module_fns):
        self.src, self.fn, self.module_fns = src, fn, module_fns
        self.assign = {}       # name -> list of (kind, node)
        params = {a.arg for a in fn.args.args + fn.args.kwonlyargs} | ({fn.args.vararg.arg} if fn.args.vararg else set()) | ({fn.args.kwarg.arg} if fn.args.kwarg else set())
        self.params = params
        for n in ast.walk(fn):
            if isinstance(n, ast.Assign):
                for t in n.targets:
                    self.bind(t, n.value)
            elif isinstance(n, ast.AugAssign) and isinstance(n.target, ast.Name):
                self.assign.setdefault(n.target.id, []).append(("value", n.value))
            elif isinstance(n, ast.AnnAssign) and isinstance(n.target, ast.Name) and n.value is not None:
                self.assign.setdefault(n.target.id, []).append(("value", n.value))
            elif isinstance(n, (ast.For, ast.comprehension)):
                for x in ast.walk(n.target):
                    if isinstance(x, ast.Name):
                        self.assign.setdefault(x.id, []).append(("loop", n.iter))
            elif isinstance(n, (ast.With,)):
                for it in n.items:
                    if it.optional_vars is not None:
                        for x in ast.walk(it.optional_vars):
                            if isinstance(x, ast.Name):
                                self.assign.setdefault(x.id, []).append(("loop", it.context_expr))

    def bind(self, t, v):
        if isinstance(t, ast.Name):
            self.assign.setdefault(t.id, []).append(("value", v))
        elif isinstance(t, (ast.Tuple, ast.List)):
            for i, e in enumerate(t.elts):
                if isinstance(e, ast.Name):
                    if isinstance(v, (ast.Tuple, ast.List)) and len(v.elts) == len(t.elts):
                        self.assign.setdefault(e.id, []).append(("value", v.elts[i]))
                    else:
                        self.assign.setdefault(e.id, []).append(("unpack", v))

    def cls(self, e, seen=()):
        if isinstance(e, ast.Constant):
            return "const"
        if is_escape(e):
            return "escaped"
        if isinstance(e, ast.Call) and isinstance(e.func, ast.Name) and e.func.id == "len":
            return "len"
        if isinstance(e, ast.Call) and isinstance(e.func, ast.Name) and e.func.id in self.module_fns and e.func.id != "_get_level_badge":
            return "html:" + e.func.id
        if isinstance(e, ast.JoinedStr):
            worst = "const"
            for v in e.values:
                if isinstance(v, ast.FormattedValue):
                    c = self.cls(v.value, seen)
                    if c not in ORDER:
                        return c if c.startswith(("html:", "badge:")) and False else "raw:" + ast.get_source_segment(self.src, e)[:60]
                    if ORDER[c] > ORDER[worst]:
                        worst = c
            return worst
        if isinstance(e, ast.Name):
            if e.id in seen:
                return "const"          # an accumulator referring to itself
            if e.id in self.params and e.id not in self.assign:
                return "raw:" + e.id
            if e.id not in self.assign:
                return "raw:" + e.id
            classes = []
            for kind, v in self.assign[e.id]:
                if kind == "value":
                    classes.append(self.cls(v, seen + (e.id,)))
                elif kind == "unpack" and isinstance(v, ast.Call) and isinstance(v.func, ast.Name) and v.func.id == "_get_level_badge":
                    classes.append("badge:_get_level_badge")
                else:
                    classes.append("raw:" + e.id)
            if e.id in self.params:
                # a parameter that is re-bound: fine only if it is re-bound before any use — accepted when every binding is an escape of itself
                if not all(c == "escaped" for c in classes):
                    return "raw:" + e.id
            bad = [c for c in classes if c.startswith("raw:")]
            if bad:
                return bad[0]
            special = [c for c in classes if c.startswith(("html:", "badge:"))]
            if special:
                return special[0]
            return max(classes, key=lambda c: ORDER.get(c, 0)) if classes else "raw:" + e.id
        if isinstance(e, ast.BinOp) and isinstance(e.op, ast.Add):
            a, b = self.cls(e.left, seen), self.cls(e.right, seen)
            for c in (a, b):
                if c.startswith("raw:"):
                    return c
            for c in (a, b):
                if c.startswith(("html:", "badge:")):
                    return c
            return a if ORDER.get(a, 0) >= ORDER.get(b, 0) else b
        return "raw:" + (ast.get_source_segment(self.src, e) or type(e).__name__)[:60]

    def rows(self):
        out = []
        own = [n for n in ast.walk(self.fn)]
        nested = set()
        for n in ast.walk(self.fn):
            if n is not self.fn and isinstance(n, (ast.FunctionDef, ast.AsyncFunctionDef, ast.Lambda)):
                for x in ast.walk(n):
                    nested.add(id(x))
        inner = set()
        for n in own:
            if isinstance(n, ast.JoinedStr) and id(n) not in nested:
                for v in n.values:
                    if isinstance(v, ast.FormattedValue):
                        for x in ast.walk(v.value):
                            if isinstance(x, ast.JoinedStr):
                                inner.add(id(x))
        for n in sorted((n for n in own if isinstance(n, ast.JoinedStr) and id(n) not in nested), key=lambda n: (n.lineno, n.col_offset)):
            for v in n.values:
                if isinstance(v, ast.FormattedValue):
                    out.append((ast.get_source_segment(self.src, v.value) or "?", self.cls(v.value)))
        return out


def generate():
    rows, notes = [], []
    for rel in FILES:
        base = os.path.basename(rel)
        try:
            src = open(os.path.join(REPO, rel), encoding="utf-8").read()
            tree = ast.parse(src)
            fns = [n for n in ast.walk(tree) if isinstance(n, (ast.FunctionDef, ast.AsyncFunctionDef))]
            names = {f.name for f in fns}
            for f in sorted(fns, key=lambda f: f.lineno):
                # only functions that build markup: some f-string of theirs has a literal part containing `<`
                if not any(isinstance(j, ast.JoinedStr) and any(isinstance(v, ast.Constant) and "<" in str(v.value) for v in j.values) for j in ast.walk(f)):
                    continue
                for text, c in FnScan(src, f, names).rows():
                    rows.append((base, f.name, " ".join(text.split())[:80], c[:90]))
        except Exception as e:  # noqa
            notes.append("-- %s: outside the translated subset (%s)" % (base, str(e).replace("\n", " ")[:200]))
    body = ",\n   ".join("(%s, %s, %s, %s)" % tuple(slit(x) for x in r) for r in rows)
    out = ("/-! GENERATED by harness/translate/escapesig.py from src/cm_colors/{cli/html_report,core/visualiser}.py — do not edit. -/\nnamespace CmGen.EscapeSig\n\n"
           "/-- every f-string placeholder of the two report modules: (module, function, expression, classification) -/\n"
           + ("\n".join(notes) + "\n" if notes else "")
           + ("def placeholders : List (String × String × String × String) :=\n  [%s]\n" % body if not notes else "")
           + "\nend CmGen.EscapeSig\n")
    p = os.path.join(LEAN, "CmGen", "EscapeSig.lean")
    old = open(p).read() if os.path.exists(p) else None
    if old != out:
        with open(p, "w") as fh:
            fh.write(out)
    return len(rows)


def summary():
    import re
    p = os.path.join(LEAN, "CmGen", "EscapeSig.lean")
    text = open(p, encoding="utf-8").read() if os.path.exists(p) else ""
    return {"generated_definitions": re.findall(r"^def (\S+)", text, re.M), "not_translated": re.findall(r"^-- (.*)$", text, re.M),
            "placeholders": len(re.findall(r'^\s+[\[ ]?\("', text, re.M)), "file": "lean/CmGen/EscapeSig.lean", "translator": "harness/translate/escapesig.py"}


if __name__ == "__main__":
    print(generate())
