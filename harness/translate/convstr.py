"""Translator: the string-/sequence-level converters the colour parser calls  ->  lean/CmGen/ConvStr.lean

From `src/cm_colors/core/conversions.py`: `rgba_to_rgb`, `hsla_to_rgb`, `hsl_to_rgb` (input parsing and validation; its
arithmetic is tied by translate/leaves.py), `rgb_to_hex` (tuple argument), `rgbint_to_string`; NOT `hex_to_rgb` (see the end). Each is a function of
dynamically typed arguments; the model (`lean/CmModel/Parser.lean`) has one function per *kind* of argument
(`hslaStrToRgb` / `hslaSeqToRgb`, ...). Accordingly one image is generated per entry of `TARGETS`, which fixes the
image type of every parameter; the `isinstance` dispatch of the Python function is then decided by typing (rule T1) and
only the live branch is translated (rule T2). `CmProps/C13conv.lean`, `C07conv.lean`, `C06conv.lean` prove the images
equal to the model's functions for every carrier and every environment.

The images live in `Except PyErr` (exception *kinds* are modelled, messages are not). A function body is translated
statement by statement into one `do` block; what follows an `if` that does not end in return/raise is repeated in
each branch (as translate/strhelpers.py does).

Rules in addition to translate/leaves.py (expressions over floats/ints) and translate/strhelpers.py (the trusted part):

 image types of parameters (the abstraction the theorems are stated through)
  a `str`                               -> `Str`                    stands for the classes {str}
  a tuple/list of known length          -> a product, e.g. `Int × Int × Int × α`, `PyVal α × PyVal α × PyVal α`
                                                                    stands for {tuple, list}
  an `int` component                    -> `Int`                    stands for {int}
  a number (`float` or `int`)           -> the carrier `α`          stands for {float, int}  (an int is its `Num.ofInt`)
  an arbitrary Python value             -> `PyVal α`                (no class set: `isinstance` on it is outside the subset)
  `None` or an RGB triple               -> `Option (Int × Int × Int)`
  default values of parameters are not translated (the caller's image supplies every argument)

 T1 isinstance(x, C)    -> `true` when the set of classes C is exactly the set the image type of x stands for, `false` when
                           disjoint from it, anything else is outside the subset (so widening or narrowing C is noticed)
    len(x), x a product -> its arity as an int literal;  int == / != int -> `decide (a = b)` / `decide (a ≠ b)`
 T2 if <cond that T1 and `not` turn into the literal true/false>: A else: B  -> only the live branch
 T3 if x is None: A else: B   (x an Option)  -> `match x with | none => A | some x => B`  (inside B, x is the triple)
 T4 if len(xs) == k: A else: B   (xs a list of str, k a literal; also `!=`, `<`, `>=`)
                         -> `match xs with | [xs_0, …, xs_{k-1}] => A | _ => B`  (`<`/`>=`: `xs_0 :: … :: xs_{k-1} :: _`);
                            inside the branch where the length is known, `xs[i]` (i < k a literal) is `xs_i`
 strings
  s.lower()                 -> `Str.lower E.cls s`;        s.strip() -> `Str.strip E.cls s`   (strhelpers)
  s.lstrip("#")             -> `Str.lstripHash s`
  s.startswith("lit")       -> `Str.startsWith s "lit".toList`;   s.endswith("lit") -> `Str.endsWith s [chars of lit]`
  s[k:-1]                   -> `(s.drop k).dropLast`;      s[:-1] -> `s.dropLast`  (strhelpers)
  s.replace("c", "lit")     -> `Str.replaceChar s 'c' [chars of lit]`   (one-character pattern only)
  s.split("c")              -> `Str.splitOn s 'c'`         (a list of str)
  [e(p) for p in xs]        -> `List.map (fun p => e p) xs`   (xs a list of str, e str-valued)
  X = re.split(r"\\s+", e) immediately followed by X = [p for p in X if p]   -> `let X := Str.splitWs E.cls e`
                               (exactly this pair of statements with exactly this regular expression; either alone is outside the subset)
  a str used as a condition -> `!(s).isEmpty`
 effects (calls that may raise): every such call in an expression is bound first, in Python's evaluation order
  (left to right), `let x_i ← …`, and the expression is then pure in the `x_i`; in `a if c else b` the calls of `c`
  are bound before the test and those of `a` / `b` inside their branch:  `← (if c then do … pure a else do … pure b)`
  float(s), s a str         -> `PyFloat.parse (α := α) E.cls s`                      (strhelpers)
  float(v), v a PyVal       -> `PyVal.toFloat E.cls v`;     float(x), x already a float -> x
  _parse_hue(s)             -> `parseHue (α := α) E s`      (the model function; `C07tie.source_parse_hue` ties it to its source)
  _parse_hsl_percentage_or_decimal(s) -> `pctOrDec (α := α) E s`   (`C07tie.source_parse_hsl_percentage_or_decimal`)
  F(str(v)), v a PyVal, F one of these two helpers
                            -> `match PyVal.strOf v with | .num x => F__of_repr x | .text t => <image of F> E t | .junk => vErr`
     where `F__of_repr` is GENERATED from the body of F under the abstraction "the argument is the repr of the float x":
     `.strip()` leaves it unchanged, `.endswith("%")` is false (then T2), `float(·)` is x  (repr/float are inverses on
     doubles and a repr has neither blanks nor a final '%': trusted base, as in `PyVal.strOf`); `.junk` is the text of
     True/False/None/a container, on which `float()` raises ValueError.
  hsl_to_rgb((h, s, l)) on floats -> `hsl_to_rgb_sequence (α := α) E (PyVal.float h, PyVal.float s, PyVal.float l)`:
                               the image generated here for a 3-sequence argument (a float is the PyVal `.float`)
  is_valid_rgb(c)           -> `validRgb c`                 (the model function; `C10tie.source_is_valid_rgb` ties it to its source)
 numbers
  int(x), x a float         -> `Num.trunc x`;   int(round(x)) -> `Num.roundHE x` (leaves);  x % 360 -> `Num.pmod x (360.0 : α)` (leaves)
  all(c(v) for v in (a, b, c))  -> the conjunction of c over the listed elements (also over the three components of an RGB triple)
  t[i], t an RGB triple     -> `t.1` / `t.2.1` / `t.2.2`
 the arithmetic of hsl_to_rgb: the statements from the top-level `if s == 0:` to the end are exactly the fragment
  `hsl_to_rgb_core` of translate/leaves.py (tied to the model's `hslToRgbCore` by `C06tie.source_hsl_to_rgb_core`); here they
  become the leaf `pure (hslToRgbCore h s l)` after checking that the fragment reads no other variable than the floats h, s, l.
 raise ValueError(...) -> `vErr`;  raise TypeError(...) -> `Except.error PyErr.typeError`;  return e -> `pure e`
 formatting (rgb_to_hex, rgbint_to_string): rule F in the docstring of `CFn.fmt_expr`.
 `rgb_to_hex` is translated for a *tuple* argument (image type `Int × Int × Int` standing for {tuple} only: the function
 rejects lists); `hex_to_rgb` is NOT translated (see the end of this docstring).

Not translated: `hex_to_rgb`. Its body uses `"".join([c * 2 for c in s])`, `c in "0123…"` and `int(s[i:j], 16)`; the model
has no counterpart of `int(text, 16)` (it matches on six characters and uses `Str.hexVal` per character), so a rule for it
would need a new model definition plus a proof that it agrees with `hexVal` on validated text. Left to the correspondence.
"""
import ast
import copy
import os
import re

from common import LEAN, REPO
from translate.leaves import Unsupported, is_noise, lname
from translate.strhelpers import SFn

CORE = os.path.join("src", "cm_colors", "core")
SRC = "conversions.py"

RGB_T = "RGB"
SEQ_RGBA = ("seq", ("I", "I", "I", "F"))
SEQ_V3 = ("seq", ("V", "V", "V"))
SEQ_V4 = ("seq", ("V", "V", "V", "V"))
RGB_TUPLE = ("RGB", {"tuple"})     # an RGB triple known to be a `tuple` (rgb_to_hex rejects lists)

# (python function, name of the image, image types of the parameters, type of the result)
TARGETS = [
    ("rgba_to_rgb", "rgba_to_rgb", [SEQ_RGBA, RGB_T], "RGB"),
    ("hsl_to_rgb", "hsl_to_rgb_sequence", [SEQ_V3], "RGB"),
    ("hsl_to_rgb", "hsl_to_rgb_string", ["S"], "RGB"),
    ("hsla_to_rgb", "hsla_to_rgb_string", ["S", "ORGB"], "RGB"),
    ("hsla_to_rgb", "hsla_to_rgb_sequence", [SEQ_V4, "ORGB"], "RGB"),
    ("rgbint_to_string", "rgbint_to_string", [RGB_T], "S"),
    ("rgb_to_hex", "rgb_to_hex_tuple", [RGB_TUPLE], "S"),
]

# helpers whose image is a model function tied to the source elsewhere: name -> (lean text, parameter type, result type)
HELPERS = {
    "_parse_hue": ("parseHue (α := α) E", "S", "F"),
    "_parse_hsl_percentage_or_decimal": ("pctOrDec (α := α) E", "S", "F"),
}

CLASSES = {"S": {"str"}, "I": {"int"}, "F": {"float", "int"}, "RGB": {"tuple", "list"}, "T3": {"tuple", "list"}}


def classes_of(t):
    if isinstance(t, tuple) and t[0] == "seq":
        return {"tuple", "list"}
    return CLASSES.get(t)


def char_lit(c):
    if c == "'":
        return "'\\''"
    if c == "\\":
        return "'\\\\'"
    if c == "\n":
        return "'\\n'"
    if c == "\t":
        return "'\\t'"
    if not c.isprintable():
        return "(Char.ofNat %d)" % ord(c)
    return "'%s'" % c


def chars(s):
    return "[" + ", ".join(char_lit(c) for c in s) + "]"


def str_lit(s):
    if len(s) == 1:
        return chars(s)
    if all(c.isprintable() and c not in '"\\' for c in s):
        return '"%s".toList' % s
    return chars(s)


class CFn(SFn):
    """statements in `Except PyErr`, typed by the image types of the parameters"""

    def __init__(self, src, node, known, fns=None):
        super().__init__(src, node, known)
        self.alias = {}       # python name -> (lean text, type): comprehension variables
        self.elems = {}       # (list name, index) -> lean name   (T4)
        self.fns = fns or {}  # top-level functions of the module
        self.used = {x.id for x in ast.walk(node) if isinstance(x, ast.Name)} | {a.arg for a in node.args.args}
        self.fresh_n = 0
        self.aux_defs = []
        self.cls_override = {}   # parameter -> class set narrower than its image type's

    # ---------------------------------------------------------------- types
    def lean_type(self, t):
        if isinstance(t, tuple) and t[0] == "seq":
            return " × ".join(self.lean_type(x) for x in t[1])
        return {"V": "PyVal α", "S": "Str", "LS": "List Str", "ORGB": "Option (Int × Int × Int)", "R": "α"}.get(t) or super().lean_type(t)

    def fresh(self, base="x"):
        while True:
            nm = "%s%d" % (base, self.fresh_n)
            self.fresh_n += 1
            if nm not in self.used:
                self.used.add(nm)
                return nm

    # ---------------------------------------------------------------- strings
    def is_str(self, n):
        if self.is_fmt(n):
            self.str_expr(n)        # (a formatting expression outside rule F is reported as such)
            return True
        try:
            self.str_expr(n)
            return True
        except Unsupported:
            return False

    def str_const(self, n, one=False):
        if not (isinstance(n, ast.Constant) and isinstance(n.value, str)):
            raise Unsupported("expected a string literal")
        if one and len(n.value) != 1:
            raise Unsupported("expected a one-character literal")
        return n.value

    def str_expr(self, n):
        if self.is_fmt(n):
            return self.fmt_expr(n)
        if isinstance(n, ast.Name):
            if n.id in self.alias and self.alias[n.id][1] == "S":
                return self.alias[n.id][0]
            if self.env.get(n.id) == "R":
                raise Unsupported("the repr of a float used as a string")
        if isinstance(n, ast.Subscript) and isinstance(n.value, ast.Name) and self.env.get(n.value.id) == "LS":
            i = n.slice
            if isinstance(i, ast.Constant) and type(i.value) is int and (n.value.id, i.value) in self.elems:
                return self.elems[(n.value.id, i.value)]
            raise Unsupported("index into a list whose length is not known here")
        if isinstance(n, ast.Call) and isinstance(n.func, ast.Attribute) and not n.keywords:
            a, args = n.func.attr, n.args
            if a == "lower" and not args:
                return "Str.lower E.cls %s" % self.atom(self.str_expr(n.func.value))
            if a == "lstrip" and len(args) == 1 and self.str_const(args[0]) == "#":
                return "Str.lstripHash %s" % self.atom(self.str_expr(n.func.value))
            if a == "replace" and len(args) == 2:
                return "Str.replaceChar %s %s %s" % (self.atom(self.str_expr(n.func.value)), char_lit(self.str_const(args[0], one=True)), chars(self.str_const(args[1])))
        if isinstance(n, ast.Subscript) and isinstance(n.slice, ast.Slice) and n.slice.step is None and n.slice.lower is not None \
                and isinstance(n.slice.lower, ast.Constant) and type(n.slice.lower.value) is int and n.slice.lower.value >= 0 \
                and isinstance(n.slice.upper, ast.UnaryOp) and isinstance(n.slice.upper.op, ast.USub) \
                and isinstance(n.slice.upper.operand, ast.Constant) and n.slice.upper.operand.value == 1:
            return "((%s).drop %d).dropLast" % (self.str_expr(n.value), n.slice.lower.value)
        return super().str_expr(n)

    def piece(self, lit):
        return str_lit(lit)

    def field(self, e, spec):
        """one replacement field: an int printed in decimal (`{e}`) or as two hex digits (`{:02x}`)"""
        if not self.is_int(e[1]):
            raise Unsupported("formatting of a value of type %s" % (e[1],))
        if spec == "":
            return "intStr %s" % self.atom(self.toI(e))
        if spec == "02x":
            v = self.atom(self.toI(e))
            return "[hexDigit (%s.toNat / 16), hexDigit (%s.toNat %% 16)]" % (v, v)
        raise Unsupported("format specification %r" % spec)

    def fmt_expr(self, n):
        """F  f"lit{e}lit…"  and  "lit{}lit{:02x}…".format(e, …)   -> the pieces appended left to right:
              a literal piece -> its characters;  `{e}` (e an int, no specification) -> `intStr e` (decimal, as `str(int)`);
              `{:02x}` of an int e -> `[hexDigit (e.toNat / 16), hexDigit (e.toNat % 16)]`: what Python prints for 0 ≤ e ≤ 255
              (outside that range Python prints more digits or a sign; every use is behind the 0–255 validation of the function)"""
        parts = []
        if isinstance(n, ast.JoinedStr):
            for v in n.values:
                if isinstance(v, ast.Constant):
                    parts.append(self.piece(v.value))
                elif isinstance(v, ast.FormattedValue) and v.conversion == -1:
                    spec = ""
                    if v.format_spec is not None:
                        if not all(isinstance(x, ast.Constant) for x in v.format_spec.values):
                            raise Unsupported("computed format specification")
                        spec = "".join(x.value for x in v.format_spec.values)
                    parts.append(self.field(self.expr(v.value), spec))
                else:
                    raise Unsupported("f-string piece")
        else:
            import string
            args = [self.expr(a) for a in n.args]
            k = 0
            for lit, fld, spec, conv in string.Formatter().parse(n.func.value.value):
                if lit:
                    parts.append(self.piece(lit))
                if fld is None:
                    continue
                if fld != "" or conv is not None or k >= len(args):
                    raise Unsupported("replacement field {%s}" % fld)
                parts.append(self.field(args[k], spec))
                k += 1
            if k != len(args):
                raise Unsupported("unused arguments of format")
        if not parts:
            return "([] : Str)"
        return " ++ ".join(parts)

    def is_fmt(self, n):
        return isinstance(n, ast.JoinedStr) or (isinstance(n, ast.Call) and isinstance(n.func, ast.Attribute) and n.func.attr == "format" and not n.keywords
                                                and isinstance(n.func.value, ast.Constant) and isinstance(n.func.value.value, str))

    def list_expr(self, n):
        """a list of str"""
        if isinstance(n, ast.Name) and self.env.get(n.id) == "LS":
            return lname(n.id)
        if isinstance(n, ast.Call) and isinstance(n.func, ast.Attribute) and n.func.attr == "split" and len(n.args) == 1 and not n.keywords:
            return "Str.splitOn %s %s" % (self.atom(self.str_expr(n.func.value)), char_lit(self.str_const(n.args[0], one=True)))
        if isinstance(n, ast.ListComp) and len(n.generators) == 1 and not n.generators[0].ifs and not n.generators[0].is_async \
                and isinstance(n.generators[0].target, ast.Name):
            xs = self.list_expr(n.generators[0].iter)
            v = n.generators[0].target.id
            saved = self.alias.get(v)
            self.alias[v] = (lname(v), "S")
            try:
                body = self.str_expr(n.elt)
            finally:
                if saved is None:
                    self.alias.pop(v, None)
                else:
                    self.alias[v] = saved
            return "List.map (fun %s => %s) %s" % (lname(v), body, self.atom(xs))
        raise Unsupported("list expression " + ast.dump(n)[:60])

    # ---------------------------------------------------------------- expressions
    def class_set(self, n):
        ns = n.elts if isinstance(n, ast.Tuple) else [n]
        if not all(isinstance(x, ast.Name) for x in ns):
            raise Unsupported("isinstance class list")
        return {x.id for x in ns}

    def expr(self, n):
        if isinstance(n, ast.Name) and n.id in self.alias:
            return self.alias[n.id]
        if isinstance(n, ast.Name) and self.env.get(n.id) == "R":
            raise Unsupported("the repr of a float used as a value")
        if isinstance(n, ast.UnaryOp) and isinstance(n.op, ast.Not):
            a = self.expr(n.operand)
            if a[1] == "S":
                return ("(%s).isEmpty" % a[0], "B")
            if a == ("true", "B"):
                return ("false", "B")
            if a == ("false", "B"):
                return ("true", "B")
            return ("!%s" % self.atom(self.toB(a)), "B")
        if isinstance(n, ast.Subscript) and isinstance(n.value, ast.Name) and self.env.get(n.value.id) == "RGB" \
                and isinstance(n.slice, ast.Constant) and n.slice.value in (0, 1, 2) and type(n.slice.value) is int:
            return ("%s%s" % (lname(n.value.id), (".1", ".2.1", ".2.2")[n.slice.value]), "I")
        if isinstance(n, ast.Compare) and len(n.ops) == 1 and isinstance(n.ops[0], (ast.Eq, ast.NotEq)):
            a, b = self.expr(n.left), self.expr(n.comparators[0])
            if self.is_int(a[1]) and self.is_int(b[1]):
                return ("decide (%s %s %s)" % (self.toI(a), "=" if isinstance(n.ops[0], ast.Eq) else "≠", self.toI(b)), "B")
        if isinstance(n, ast.Call) and not n.keywords:
            f = n.func
            if isinstance(f, ast.Name) and f.id == "isinstance" and len(n.args) == 2:
                x = n.args[0]
                t = self.expr(x)[1] if not self.is_str(x) else "S"
                have, want = classes_of(t), self.class_set(n.args[1])
                if isinstance(x, ast.Name) and x.id in self.cls_override and x.id not in self.alias:
                    have = self.cls_override[x.id]
                if have is None:
                    raise Unsupported("isinstance on a value of type %s" % (t,))
                if have == want:
                    return ("true", "B")
                if not (have & want):
                    return ("false", "B")
                raise Unsupported("isinstance(%s, %s) is not decided by the image type (%s)" % (ast.unparse(x), sorted(want), sorted(have)))
            if isinstance(f, ast.Name) and f.id == "len" and len(n.args) == 1:
                t = self.expr(n.args[0])[1] if not self.is_str(n.args[0]) else "S"
                if isinstance(t, tuple) and t[0] == "seq":
                    return (str(len(t[1])), ("ilit", len(t[1])))
                if t in ("RGB", "T3"):
                    return ("3", ("ilit", 3))
                raise Unsupported("len of a value of type %s" % (t,))
            if isinstance(f, ast.Attribute) and f.attr in ("startswith", "endswith") and len(n.args) == 1:
                lit = self.str_const(n.args[0])
                if self.r_name(f.value):
                    if f.attr == "endswith" and lit == "%":
                        return ("false", "B")       # the repr of a float does not end in '%'
                    raise Unsupported("%s(%r) on the repr of a float" % (f.attr, lit))
                s = self.atom(self.str_expr(f.value))
                return ("Str.startsWith %s %s" % (s, str_lit(lit)) if f.attr == "startswith" else "Str.endsWith %s %s" % (s, chars(lit)), "B")
            if isinstance(f, ast.Name) and f.id == "float" and len(n.args) == 1:
                a = self.expr(n.args[0])
                if a[1] == "F" or self.is_int(a[1]):
                    return (self.toF(a), "F")
            if isinstance(f, ast.Name) and f.id == "int" and len(n.args) == 1:
                a = self.expr(n.args[0])
                if a[1] == "F":
                    return ("Num.trunc %s" % self.atom(a[0]), "I")
            if isinstance(f, ast.Name) and f.id == "is_valid_rgb" and len(n.args) == 1:
                a = self.expr(n.args[0])
                if a[1] == "RGB":
                    return ("validRgb %s" % self.atom(a[0]), "B")
            if isinstance(f, ast.Name) and f.id == "all" and len(n.args) == 1 and isinstance(n.args[0], ast.GeneratorExp):
                g = n.args[0]
                if len(g.generators) == 1 and not g.generators[0].ifs and isinstance(g.generators[0].target, ast.Name):
                    var, it = g.generators[0].target.id, g.generators[0].iter
                    if isinstance(it, ast.Tuple):
                        items = [self.expr(e) for e in it.elts]
                    elif isinstance(it, ast.Name) and self.env.get(it.id) == "RGB":
                        items = [("%s%s" % (lname(it.id), p), "I") for p in (".1", ".2.1", ".2.2")]
                    else:
                        raise Unsupported("all(...) over " + ast.dump(it)[:40])
                    parts = []
                    saved = self.alias.get(var)
                    try:
                        for item in items:
                            self.alias[var] = item
                            parts.append(self.toB(self.expr(g.elt)))
                    finally:
                        if saved is None:
                            self.alias.pop(var, None)
                        else:
                            self.alias[var] = saved
                    if not parts:
                        return ("true", "B")
                    return ("(" + " && ".join(parts) + ")", "B")
        if isinstance(n, ast.Tuple) and len(n.elts) != 3:
            es = [self.expr(e) for e in n.elts]
            return ("(" + ", ".join(self.toF(e) if self.is_ilit(e[1]) else e[0] for e in es) + ")", ("seq", tuple("F" if self.is_ilit(e[1]) else e[1] for e in es)))
        if self.is_str(n) and not isinstance(n, ast.Constant):
            return (self.str_expr(n), "S")
        return super().expr(n)

    def toB(self, e):
        if e[1] == "S":
            return "!(%s).isEmpty" % e[0]
        return super().toB(e)

    def cond(self, n):
        e = self.expr(n)
        if e[1] == "S":
            return "!(%s).isEmpty" % e[0]
        if e[1] in ("B", "P"):
            return e[0]
        raise Unsupported("not a condition: %s" % (e,))

    # ---------------------------------------------------------------- effects
    def effect(self, c):
        """the monadic image of a call that may raise, or None: (text, result type)"""
        if not (isinstance(c, ast.Call) and isinstance(c.func, ast.Name) and not c.keywords):
            return None
        f, args = c.func.id, c.args
        if f == "float" and len(args) == 1:
            a = args[0]
            if self.is_str(a):
                return ("PyFloat.parse (α := α) E.cls %s" % self.atom(self.str_expr(a)), "F")
            if isinstance(a, ast.Name) and a.id not in self.alias and self.env.get(a.id) == "V":
                return ("PyVal.toFloat E.cls %s" % lname(a.id), "F")
            return None
        if f in HELPERS and len(args) == 1:
            img, pt, rt = HELPERS[f]
            a = args[0]
            if isinstance(a, ast.Call) and isinstance(a.func, ast.Name) and a.func.id == "str" and len(a.args) == 1 and not a.keywords \
                    and isinstance(a.args[0], ast.Name) and self.env.get(a.args[0].id) == "V" and a.args[0].id not in self.alias:
                of_repr = self.of_repr(f)
                x, t = self.fresh("x"), self.fresh("t")
                return ("(match PyVal.strOf %s with | .num %s => %s (α := α) %s | .text %s => %s %s | .junk => vErr)"
                        % (lname(a.args[0].id), x, of_repr, x, t, img, t), rt)
            return ("%s %s" % (img, self.atom(self.str_expr(a))), rt)
        if f == "hsl_to_rgb" and len(args) == 1 and isinstance(args[0], ast.Tuple) and len(args[0].elts) == 3:
            es = [self.expr(e) for e in args[0].elts]
            if not all(t == "F" for _, t in es):
                raise Unsupported("hsl_to_rgb on something else than three floats")
            if "hsl_to_rgb_sequence" not in self.known:
                raise Unsupported("hsl_to_rgb (3-sequence argument) is itself outside the translated subset")
            return ("hsl_to_rgb_sequence (α := α) E (%s)" % ", ".join("PyVal.float %s" % self.atom(s) for s, _ in es), "RGB")
        return None

    def of_repr(self, f):
        """generate `<f>__of_repr`: the body of helper f when its argument is the repr of a float"""
        name = f.lstrip("_") + "__of_repr"
        if name in self.known:
            if self.known[name] is None:
                raise Unsupported("%s on the repr of a float is outside the subset" % f)
            return name
        node = self.fns.get(f)
        if node is None or len(node.args.args) != 1:
            raise Unsupported("helper %s not found" % f)
        sub = CFn(self.src, node, self.known, self.fns)
        p = node.args.args[0].arg
        sub.env[p] = "R"
        self.known[name] = None          # (a helper that reaches itself is outside the subset)
        try:
            body = sub.mblock(list(node.body), 1)
        except Exception:
            del self.known[name]
            raise
        self.known[name] = True
        self.aux_defs.append("/-- `%s(repr(x))` for a float x (line %d): rule \"F(str(v))\" -/\ndef %s (%s : α) : Except PyErr α :=\n%s\n"
                             % (f, node.lineno, name, lname(p), "\n".join(body)))
        self.aux_defs += sub.aux_defs
        return name

    def r_name(self, n):
        """n denotes the repr of a float (type R): the Lean name of that float"""
        if isinstance(n, ast.Name) and self.env.get(n.id) == "R" and n.id not in self.alias:
            return lname(n.id)
        if isinstance(n, ast.Call) and isinstance(n.func, ast.Attribute) and n.func.attr == "strip" and not n.args and not n.keywords:
            return self.r_name(n.func.value)
        return None

    def has_effect(self, n):
        return any(self.is_effect(x) for x in ast.walk(n))

    def is_effect(self, x):
        """syntactic: a call that is translated by `effect`"""
        if not (isinstance(x, ast.Call) and isinstance(x.func, ast.Name) and not x.keywords):
            return False
        if x.func.id == "float" and len(x.args) == 1:
            a = x.args[0]
            if self.r_name(a):
                return False
            return self.is_str(a) or (isinstance(a, ast.Name) and a.id not in self.alias and self.env.get(a.id) == "V")
        return x.func.id in HELPERS or x.func.id == "hsl_to_rgb"

    def lift(self, n):
        """bind the effectful calls of n (none of them below a conditional expression): (binds, pure expression)"""
        binds = []
        outer = self

        class Lift(ast.NodeTransformer):
            def visit_IfExp(self, c):
                if outer.has_effect(c):
                    raise Unsupported("a call that may raise inside a nested conditional expression")
                return c

            def visit_BoolOp(self, c):
                if outer.has_effect(c):
                    raise Unsupported("a call that may raise inside and/or")
                return c

            def visit_ListComp(self, c):
                if outer.has_effect(c):
                    raise Unsupported("a call that may raise inside a comprehension")
                return c
            visit_GeneratorExp = visit_ListComp

            def visit_Call(self, c):
                if outer.is_effect(c):
                    e = outer.effect(c)
                    nm = outer.fresh("x")
                    outer.env[nm] = e[1]
                    binds.append((nm, e))
                    return ast.copy_location(ast.Name(id=nm, ctx=ast.Load()), c)
                self.generic_visit(c)
                return c
        n2 = Lift().visit(copy.deepcopy(n))
        return binds, n2

    def pure_text(self, e, want=None):
        if self.is_ilit(e[1]):
            return self.toF(e) if want in (None, "F") else self.toI(e)
        if want == "F" and e[1] == "I":
            return self.toF(e)
        return e[0]

    def res_type(self, e):
        return "F" if self.is_ilit(e[1]) else e[1]

    def r_subst(self, n):
        """under the abstraction R: `float(<repr of x>)` is x"""
        outer = self

        class RS(ast.NodeTransformer):
            def visit_Call(self, c):
                if isinstance(c.func, ast.Name) and c.func.id == "float" and len(c.args) == 1 and not c.keywords:
                    r = outer.r_name(c.args[0])
                    if r:
                        nm = outer.fresh("x")
                        outer.alias[nm] = (r, "F")
                        return ast.copy_location(ast.Name(id=nm, ctx=ast.Load()), c)
                self.generic_visit(c)
                return c
        if any(v == "R" for v in self.env.values()):
            return RS().visit(copy.deepcopy(n))
        return n

    def mterm(self, n, ind):
        """lines of a term of `Except PyErr τ` for expression n, and τ"""
        pad = "  " * ind
        n = self.r_subst(n)
        if isinstance(n, ast.IfExp) and self.has_effect(n):
            binds, test = self.lift(n.test)
            c = self.cond(test)
            a, ta = self.mterm(n.body, ind + 2)
            b, tb = self.mterm(n.orelse, ind + 2)
            if ta != tb:
                raise Unsupported("branches of a conditional expression of different types")
            lines = [pad + "do"] + [pad + "  let %s ← %s" % (nm, e[0]) for nm, e in binds]
            lines += [pad + "  if %s then" % c] + a + [pad + "  else"] + b
            return lines, ta
        binds, n2 = self.lift(n)
        if self.is_str(n2) and not isinstance(n2, ast.Constant):
            e = (self.str_expr(n2), "S")
        else:
            e = self.expr(n2)
        t = self.res_type(e)
        if not binds:
            return [pad + "pure %s" % self.atom(self.pure_text(e))], t
        if len(binds) == 1 and isinstance(n2, ast.Name) and n2.id == binds[0][0]:
            return [pad + binds[0][1][0]], t
        return [pad + "do"] + [pad + "  let %s ← %s" % (nm, b[0]) for nm, b in binds] + [pad + "  pure %s" % self.atom(self.pure_text(e))], t

    # ---------------------------------------------------------------- statements
    def raise_text(self, s):
        exc = s.exc.func.id if isinstance(s.exc, ast.Call) and isinstance(s.exc.func, ast.Name) else (s.exc.id if isinstance(s.exc, ast.Name) else None)
        if exc == "ValueError":
            return "vErr"
        if exc == "TypeError":
            return "Except.error PyErr.typeError"
        raise Unsupported("raise of %s" % exc)

    def len_test(self, t):
        """`len(xs) <op> k` on a list of str: (xs, op, k)"""
        if isinstance(t, ast.Compare) and len(t.ops) == 1 and isinstance(t.left, ast.Call) and isinstance(t.left.func, ast.Name) \
                and t.left.func.id == "len" and len(t.left.args) == 1 and isinstance(t.left.args[0], ast.Name) \
                and self.env.get(t.left.args[0].id) == "LS" and isinstance(t.comparators[0], ast.Constant) \
                and type(t.comparators[0].value) is int and t.comparators[0].value >= 0 \
                and isinstance(t.ops[0], (ast.Eq, ast.NotEq, ast.Lt, ast.GtE)):
            return t.left.args[0].id, type(t.ops[0]), t.comparators[0].value
        return None

    def is_none_test(self, t):
        if isinstance(t, ast.Compare) and len(t.ops) == 1 and isinstance(t.ops[0], (ast.Is, ast.IsNot)) and isinstance(t.left, ast.Name) \
                and isinstance(t.comparators[0], ast.Constant) and t.comparators[0].value is None and self.env.get(t.left.id) == "ORGB":
            return t.left.id, isinstance(t.ops[0], ast.Is)
        return None

    def leaf_tail(self, stmts):
        return None

    def mblock(self, stmts, ind):
        """statements as lines of a `do` block of type `Except PyErr τ`"""
        lines = self.mseq(stmts, ind + 1)
        return ["  " * ind + "do"] + lines if len(lines) > 1 else lines

    def branch(self, stmts, ind):
        saved = (dict(self.env), dict(self.elems))
        r = self.mblock(stmts, ind)
        self.env, self.elems = saved
        return r

    def mseq(self, stmts, ind):
        pad = "  " * ind
        if not stmts:
            raise Unsupported("a path without return or raise")
        leaf = self.leaf_tail(stmts)
        if leaf is not None:
            return [pad + leaf]
        s, rest = stmts[0], list(stmts[1:])
        if is_noise(s) or (isinstance(s, ast.Expr) and isinstance(s.value, ast.Constant) and isinstance(s.value.value, str)):
            return self.mseq(rest, ind)
        if isinstance(s, (ast.Import, ast.ImportFrom)):
            return self.mseq(rest, ind)
        if isinstance(s, ast.Raise):
            return [pad + self.raise_text(s)]
        if isinstance(s, ast.Return):
            if s.value is None:
                raise Unsupported("return without a value")
            lines, t = self.mterm(s.value, ind)
            if getattr(self, "ret", None) not in (None, t):
                raise Unsupported("returns of different types: %s, %s" % (self.ret, t))
            self.ret = t
            if lines[0].strip() == "do":
                return lines[1:] if len(lines) > 1 else lines
            return lines
        if isinstance(s, ast.Assign) and len(s.targets) == 1 and isinstance(s.targets[0], ast.Name):
            t = s.targets[0].id
            v = s.value
            self.cls_override.pop(t, None)
            # X = re.split(r"\s+", e) ; X = [p for p in X if p]
            if isinstance(v, ast.Call) and isinstance(v.func, ast.Attribute) and isinstance(v.func.value, ast.Name) and v.func.value.id == "re":
                ok = (v.func.attr == "split" and len(v.args) == 2 and not v.keywords and isinstance(v.args[0], ast.Constant) and v.args[0].value == "\\s+"
                      and rest and isinstance(rest[0], ast.Assign) and len(rest[0].targets) == 1 and isinstance(rest[0].targets[0], ast.Name)
                      and rest[0].targets[0].id == t and self.is_filter_nonempty(rest[0].value, t))
                if not ok:
                    raise Unsupported("use of the re module other than `X = re.split(r\"\\s+\", e); X = [p for p in X if p]`")
                st = self.str_expr(v.args[1])
                self.env[t] = "LS"
                self.drop_elems(t)
                return [pad + "let %s := Str.splitWs E.cls %s" % (lname(t), self.atom(st))] + self.mseq(rest[1:], ind)
            r = self.r_name(v)
            if r is not None:
                # under R, `v = v.strip()` keeps denoting the repr of the same float
                self.env[t] = "R"
                return ([] if r == lname(t) else [pad + "let %s := %s" % (lname(t), r)]) + self.mseq(rest, ind)
            if isinstance(v, ast.ListComp) or (isinstance(v, ast.Call) and isinstance(v.func, ast.Attribute) and v.func.attr == "split"):
                xs = self.list_expr(v)
                self.env[t] = "LS"
                self.drop_elems(t)
                return [pad + "let %s := %s" % (lname(t), xs)] + self.mseq(rest, ind)
            v = self.r_subst(v)
            if isinstance(v, ast.IfExp) and self.has_effect(v):
                lines, ty = self.mterm(v, ind + 1)
                self.env[t] = ty
                return [pad + "let %s : %s ← (" % (lname(t), self.lean_type(ty))] + lines + [pad + "  )"] + self.mseq(rest, ind)
            binds, v2 = self.lift(v)
            out = [pad + "let %s ← %s" % (nm, e[0]) for nm, e in binds]
            if binds and isinstance(v2, ast.Name) and v2.id == binds[-1][0]:
                # the value is the last bound call itself
                out[-1] = pad + "let %s ← %s" % (lname(t), binds[-1][1][0])
                self.env[t] = binds[-1][1][1]
                return out + self.mseq(rest, ind)
            if self.is_str(v2) and not isinstance(v2, ast.Constant):
                e = (self.str_expr(v2), "S")
            else:
                e = self.expr(v2)
            self.env[t] = self.res_type(e)
            asc = " : Int × Int × Int" if self.env[t] == "RGB" else ""       # (a triple of int literals would default to Nat)
            return out + [pad + "let %s%s := %s" % (lname(t), asc, self.pure_text(e))] + self.mseq(rest, ind)
        if isinstance(s, ast.Assign) and len(s.targets) == 1 and isinstance(s.targets[0], ast.Tuple) and all(isinstance(x, ast.Name) for x in s.targets[0].elts):
            names = [x.id for x in s.targets[0].elts]
            e = self.expr(s.value)
            ts = {"RGB": ("I", "I", "I"), "T3": ("F", "F", "F")}.get(e[1]) or (e[1][1] if isinstance(e[1], tuple) and e[1][0] == "seq" else None)
            if ts is None or len(ts) != len(names) or len(set(names)) != len(names):
                raise Unsupported("unpacking of %s into %d names" % (e[1], len(names)))
            for nm, ty in zip(names, ts):
                self.env[nm] = ty
                self.drop_elems(nm)
            return [pad + "let (%s) := %s" % (", ".join(lname(x) for x in names), e[0])] + self.mseq(rest, ind)
        if isinstance(s, ast.If):
            cont = [] if self.terminates(s.body) else rest
            nt = self.is_none_test(s.test)
            if nt:
                x, is_none = nt
                a_st, b_st = (s.body, s.orelse) if is_none else (s.orelse, s.body)
                a_st = list(a_st) + ([] if self.terminates(a_st) else rest)
                b_st = list(b_st) + ([] if self.terminates(b_st) else rest)
                saved = dict(self.env)
                a = self.branch(a_st, ind + 2)
                self.env[x] = "RGB"
                b = self.branch(b_st, ind + 2)
                self.env = saved
                return [pad + "match %s with" % lname(x), pad + "| none =>"] + a + [pad + "| some %s =>" % lname(x)] + b
            lt = self.len_test(s.test)
            if lt:
                xs, op, k = lt
                names = [self.fresh("%s_" % xs) for _ in range(k)]
                exact = op in (ast.Eq, ast.NotEq)
                pat = ("[" + ", ".join(names) + "]") if exact else "".join(nm + " :: " for nm in names) + "_"
                known_st, other_st = (s.body, s.orelse) if op in (ast.Eq, ast.GtE) else (s.orelse, s.body)
                known_st = list(known_st) + ([] if self.terminates(known_st) else rest)
                other_st = list(other_st) + ([] if self.terminates(other_st) else rest)
                saved = dict(self.elems)
                for i, nm in enumerate(names):
                    self.elems[(xs, i)] = nm
                a = self.branch(known_st, ind + 2)
                self.elems = saved
                b = self.branch(other_st, ind + 2)
                return [pad + "match %s with" % lname(xs), pad + "| %s =>" % pat] + a + [pad + "| _ =>"] + b
            if self.has_effect(s.test):
                raise Unsupported("a call that may raise inside the condition of an if statement")
            c = self.cond(s.test)
            if c == "true":
                return self.mseq(list(s.body) + cont, ind)
            if c == "false":
                return self.mseq(list(s.orelse) + rest, ind)
            a = self.branch(list(s.body) + cont, ind + 1)
            b = self.branch(list(s.orelse) + rest, ind + 1)
            return [pad + "if %s then" % c] + a + [pad + "else"] + b
        raise Unsupported("statement " + type(s).__name__)

    def drop_elems(self, name):
        for k in [k for k in self.elems if k[0] == name]:
            del self.elems[k]

    def is_filter_nonempty(self, v, xs):
        return (isinstance(v, ast.ListComp) and len(v.generators) == 1 and isinstance(v.generators[0].target, ast.Name)
                and isinstance(v.elt, ast.Name) and v.elt.id == v.generators[0].target.id and isinstance(v.generators[0].iter, ast.Name)
                and v.generators[0].iter.id == xs and len(v.generators[0].ifs) == 1 and isinstance(v.generators[0].ifs[0], ast.Name)
                and v.generators[0].ifs[0].id == v.elt.id and not v.generators[0].is_async)


def translate(src, fns, pyname, name, ptypes, rtype, known, cls=CFn):
    node = fns.get(pyname)
    if node is None:
        raise Unsupported("not found (or defined twice)")
    a = node.args
    if a.vararg or a.kwarg or a.kwonlyargs or a.posonlyargs or len(a.args) != len(ptypes):
        raise Unsupported("parameter list")
    f = cls(src, node, known, fns)
    params = []
    for arg, t in zip(a.args, ptypes):
        if isinstance(t, tuple) and isinstance(t[1], set):
            f.cls_override[arg.arg] = t[1]
            t = t[0]
        f.env[arg.arg] = t
        params.append("(%s : %s)" % (lname(arg.arg), f.lean_type(t)))
    f.env_at_entry = dict(f.env)
    body = f.mblock(list(node.body), 1)
    if getattr(f, "ret", None) != rtype:
        raise Unsupported("returns %s, expected %s" % (getattr(f, "ret", None), rtype))
    uses_env = any(re.search(r"\bE\b", ln) for ln in body)     # the parser environment (character classes) is a parameter only where it is used
    text = "/-- `%s` (%s line %d) with %s -/\ndef %s %s%s : Except PyErr (%s) :=\n%s\n" % (
        pyname, SRC, node.lineno, ", ".join("%s : %s" % (x.arg, f.lean_type(f.env_at_entry[x.arg])) for x in a.args), name, "(E : PEnv) " if uses_env else "",
        " ".join(params), f.lean_type(rtype), "\n".join(body))
    return f.aux_defs + [text]


class HslFn(CFn):
    """hsl_to_rgb: the statements from the top-level `if s == 0:` on are the fragment translated by translate/leaves.py"""

    def leaf_tail(self, stmts):
        x = stmts[0]
        top = list(self.node.body)
        if not (x in top and isinstance(x, ast.If) and isinstance(x.test, ast.Compare) and isinstance(x.test.left, ast.Name) and x.test.left.id == "s"
                and len(x.test.ops) == 1 and isinstance(x.test.ops[0], ast.Eq)):
            return None
        # same delimitation as `fragments` of translate/leaves.py: exactly one such statement, the function ends in a return
        if len([y for y in top if isinstance(y, ast.If) and isinstance(y.test, ast.Compare) and isinstance(y.test.left, ast.Name) and y.test.left.id == "s"
                and isinstance(y.test.ops[0], ast.Eq)]) != 1 or not isinstance(top[-1], ast.Return) or list(stmts) != top[top.index(x):]:
            raise Unsupported("cannot delimit the arithmetic of hsl_to_rgb")
        bound, read = set(), set()
        for st in stmts:
            for y in ast.walk(st):
                if isinstance(y, ast.Name):
                    (bound if isinstance(y.ctx, ast.Store) else read).add(y.id)
                elif isinstance(y, ast.FunctionDef):
                    bound.add(y.name)
                    bound.update(a.arg for a in y.args.args)
        free = read - bound - {"int", "round"}
        if not free <= {"h", "s", "l"} or any(self.env.get(v) != "F" or v in self.alias for v in ("h", "s", "l")):
            raise Unsupported("the arithmetic of hsl_to_rgb reads %s" % sorted(free))
        self.ret = "RGB"
        return "pure (hslToRgbCore h s l)"


OUT = os.path.join(LEAN, "CmGen", "ConvStr.lean")


def generate():
    texts, n = [], 0
    known = {}
    try:
        src = open(os.path.join(REPO, CORE, SRC), encoding="utf-8").read()
        tree = ast.parse(src)
        names = [x.name for x in tree.body if isinstance(x, ast.FunctionDef)]
        fns = {x.name: x for x in tree.body if isinstance(x, ast.FunctionDef) and names.count(x.name) == 1}
    except Exception as e:  # noqa
        src, fns = "", {}
        texts.append("-- %s: cannot be read (%s)\n" % (SRC, str(e).replace("\n", " ")[:200]))
    for pyname, name, ptypes, rtype in TARGETS:
        try:
            saved = dict(known)
            out = translate(src, fns, pyname, name, ptypes, rtype, known, cls=TARGET_CLASS.get(name, CFn))
            texts += out
            known[name] = True
            n += 1
        except Exception as e:  # noqa: anything the subset does not cover, including surprises in the translator itself
            known.clear()
            known.update(saved)
            e = ("%s: %s" % (type(e).__name__, e) if not isinstance(e, Unsupported) else str(e)).replace("\n", " ")[:300]
            texts.append("-- %s: outside the translated subset (%s)\n" % (name, e))
    out = ("import CmModel.Parser\n/-! GENERATED by harness/translate/convstr.py from src/cm_colors/core/conversions.py — do not edit. -/\n"
           "set_option linter.unusedVariables false\nnamespace CmGen.ConvStr\nopen Cm Cm.Parse\nvariable {α : Type} [Num α]\n\n" + "\n".join(texts) + "\nend CmGen.ConvStr\n")
    old = open(OUT, encoding="utf-8").read() if os.path.exists(OUT) else None
    if old != out:
        with open(OUT, "w", encoding="utf-8") as fh:
            fh.write(out)
    return n


TARGET_CLASS = {"hsl_to_rgb_sequence": HslFn, "hsl_to_rgb_string": HslFn}


def summary():
    text = open(OUT, encoding="utf-8").read() if os.path.exists(OUT) else ""
    return {"generated_definitions": re.findall(r"^def (\S+)", text, re.M), "not_translated": re.findall(r"^-- (.*)$", text, re.M),
            "file": "lean/CmGen/ConvStr.lean", "translator": "harness/translate/convstr.py"}


if __name__ == "__main__":
    print(generate())
