"""Translator: src/cm_colors/**/*.py -> lean/CmGen/StateSig.lean. An `ast` scan of where state could
live between calls: module-level bindings and their kinds, `global` statements, stores and mutating
calls on module-level names from inside functions, mutable default arguments, cache decorators,
class-level mutables, and `self.x = …` outside the constructors."""
import ast
import os

from common import LEAN, REPO_SRC

MUTATORS = {"append", "extend", "add", "update", "pop", "clear", "setdefault", "insert", "remove", "sort", "reverse", "popitem", "discard",
            "appendleft", "popleft", "__setitem__", "__delitem__"}
CACHES = {"lru_cache", "cache", "cached_property", "memoize"}
CTORS = {"__init__", "_parse", "__post_init__", "__new__"}


def lean_str(s):
    return '"' + s.replace("\\", "\\\\").replace('"', '\\"') + '"'


def kind_of(node):
    if isinstance(node, (ast.List, ast.ListComp)):
        return "list"
    if isinstance(node, (ast.Dict, ast.DictComp)):
        return "dict"
    if isinstance(node, (ast.Set, ast.SetComp)):
        return "set"
    if isinstance(node, ast.Constant):
        return "constant"
    if isinstance(node, ast.Call):
        f = node.func
        name = f.id if isinstance(f, ast.Name) else f.attr if isinstance(f, ast.Attribute) else "?"
        if name in ("list", "dict", "set", "defaultdict", "OrderedDict", "deque", "Counter"):
            return name
        return "call:" + name
    if isinstance(node, ast.Tuple):
        return "tuple"
    return type(node).__name__


def is_mutable_literal(node):
    return kind_of(node) in ("list", "dict", "set", "defaultdict", "OrderedDict", "deque", "Counter")


def scan_file(path, rel):
    tree = ast.parse(open(path, encoding="utf-8").read(), filename=path)
    bindings, sites = [], []
    module_names = set()
    for st in tree.body:
        if isinstance(st, (ast.Assign, ast.AnnAssign)):
            targets = st.targets if isinstance(st, ast.Assign) else [st.target]
            for t in targets:
                for n in ast.walk(t):
                    if isinstance(n, ast.Name):
                        module_names.add(n.id)
                        bindings.append((rel, n.id, kind_of(st.value) if st.value is not None else "annotation"))
        elif isinstance(st, (ast.Import, ast.ImportFrom)):
            for a in st.names:
                module_names.add((a.asname or a.name).split(".")[0])

    def locals_of(fn):
        loc = set(a.arg for a in fn.args.args + fn.args.kwonlyargs + fn.args.posonlyargs)
        if fn.args.vararg:
            loc.add(fn.args.vararg.arg)
        if fn.args.kwarg:
            loc.add(fn.args.kwarg.arg)
        for n in ast.walk(fn):
            if isinstance(n, ast.Name) and isinstance(n.ctx, ast.Store):
                loc.add(n.id)
            elif isinstance(n, (ast.For, ast.comprehension)):
                for m in ast.walk(n.target):
                    if isinstance(m, ast.Name):
                        loc.add(m.id)
            elif isinstance(n, ast.ExceptHandler) and n.name:
                loc.add(n.name)
            elif isinstance(n, (ast.Import, ast.ImportFrom)):
                for a in n.names:
                    loc.add((a.asname or a.name).split(".")[0])
        globs = set()
        for n in ast.walk(fn):
            if isinstance(n, ast.Global):
                globs |= set(n.names)
        return loc - globs

    def visit_fn(fn, cls):
        where = "%s:%d %s%s" % (rel, fn.lineno, (cls + ".") if cls else "", fn.name)
        for d in fn.args.defaults + [x for x in fn.args.kw_defaults if x is not None]:
            if is_mutable_literal(d):
                sites.append((where, "mutable default argument (%s)" % kind_of(d)))
        for dec in fn.decorator_list:
            name = dec.id if isinstance(dec, ast.Name) else dec.attr if isinstance(dec, ast.Attribute) else \
                (dec.func.id if isinstance(dec, ast.Call) and isinstance(dec.func, ast.Name) else
                 dec.func.attr if isinstance(dec, ast.Call) and isinstance(dec.func, ast.Attribute) else "")
            if name in CACHES:
                sites.append((where, "cache decorator @%s" % name))
        loc = locals_of(fn)
        for n in ast.walk(fn):
            if isinstance(n, ast.Global):
                sites.append(("%s:%d" % (rel, n.lineno), "global " + ", ".join(n.names)))
            elif isinstance(n, (ast.Assign, ast.AugAssign, ast.AnnAssign, ast.Delete)):
                targets = n.targets if isinstance(n, (ast.Assign, ast.Delete)) else [n.target]
                for t in targets:
                    base = t
                    while isinstance(base, (ast.Attribute, ast.Subscript)):
                        base = base.value
                    if isinstance(t, (ast.Attribute, ast.Subscript)) and isinstance(base, ast.Name):
                        if base.id in module_names and base.id not in loc:
                            sites.append(("%s:%d" % (rel, n.lineno), "store into module-level name %s" % base.id))
                        if base.id == "self" and cls and fn.name not in CTORS and isinstance(t, ast.Attribute) and t.value is base:
                            sites.append(("%s:%d" % (rel, n.lineno), "self.%s assigned in %s.%s" % (t.attr, cls, fn.name)))
            elif isinstance(n, ast.Call) and isinstance(n.func, ast.Attribute) and n.func.attr in MUTATORS:
                base = n.func.value
                while isinstance(base, (ast.Attribute, ast.Subscript)):
                    base = base.value
                if isinstance(base, ast.Name) and base.id in module_names and base.id not in loc:
                    sites.append(("%s:%d" % (rel, n.lineno), "mutating call %s.%s(...) on a module-level name" % (base.id, n.func.attr)))

    def visit_body(body, cls):
        for st in body:
            if isinstance(st, (ast.FunctionDef, ast.AsyncFunctionDef)):
                visit_fn(st, cls)
            elif isinstance(st, ast.ClassDef):
                for c in st.body:
                    if isinstance(c, (ast.Assign, ast.AnnAssign)) and c.value is not None and is_mutable_literal(c.value):
                        sites.append(("%s:%d" % (rel, c.lineno), "class-level mutable attribute in %s" % st.name))
                visit_body(st.body, st.name)

    visit_body(tree.body, None)
    return bindings, sites


def generate():
    root = os.path.join(REPO_SRC, "cm_colors")
    bindings, sites, files = [], [], []
    for d, _dirs, fs in sorted(os.walk(root)):
        for f in sorted(fs):
            if f.endswith(".py"):
                p = os.path.join(d, f)
                rel = os.path.relpath(p, REPO_SRC)
                files.append(rel)
                b, s = scan_file(p, rel)
                bindings += b; sites += s
    src = ("/-! GENERATED by harness/translate/statesig.py from an `ast` scan of src/cm_colors/**/*.py — do not edit. -/\n"
           "namespace CmGen\n\n/-- files scanned -/\ndef stateFiles : List String := [%s]\n\n"
           "/-- module-level bindings: (file, name, kind of the bound value) -/\n"
           "def moduleBindings : List (String × String × String) := [\n  %s\n]\n\n"
           "/-- places where state could survive a call: (where, what) -/\n"
           "def mutationSites : List (String × String) := [%s]\n\nend CmGen\n") % (
        ", ".join(lean_str(f) for f in files),
        ",\n  ".join("(%s, %s, %s)" % (lean_str(a), lean_str(b), lean_str(c)) for a, b, c in bindings),
        ("\n  " + ",\n  ".join("(%s, %s)" % (lean_str(a), lean_str(b)) for a, b in sites) + "\n") if sites else "")
    path = os.path.join(LEAN, "CmGen", "StateSig.lean")
    old = open(path).read() if os.path.exists(path) else None
    if old != src:
        with open(path, "w") as f:
            f.write(src)
    return bindings, sites


if __name__ == "__main__":
    b, s = generate()
    print(len(b), "bindings;", len(s), "sites")
    for x in s:
        print(x)
