"""Translator: the small string -> number helpers of the parser  ->  lean/CmGen/StrHelpers.lean

`_parse_number_token` (color_parser.py), `_parse_hsl_percentage_or_decimal`, `_parse_hue` (conversions.py): functions from a Python `str` to a float that may raise `ValueError`. Their images live in the
`Except PyErr` monad over the model's own string primitives; `CmProps/C07tie.lean` proves them equal to the model's
`numberToken`, `pctOrDec`, `parseHue`, … .

Rules in addition to translate/leaves.py (the trusted part of this tie):
  s.strip()                 -> `Str.strip E.cls s`          (E.cls: the Unicode-class oracle of the model)
  s.endswith("%")           -> `Str.endsWith s ['%']`
  s[:-1]                    -> `s.dropLast`
  float(s) on a str         -> `← PyFloat.parse E.cls s`    (raises ValueError exactly when CPython does)
  try: v = float(s) except Exception: raise ValueError(...) -> `← floatOrValueError E s`
  float(v) on a float       -> `v`
  raise ValueError(...)     -> `vErr`  (messages are not modelled);   return e -> `pure e`
"""
import ast
import os

from common import LEAN, REPO
from translate.leaves import Fn, Unsupported, is_noise, lname

CORE = os.path.join("src", "cm_colors", "core")
# (_parse_rgb_component is only reached from rgb_to_hsl's string branch, which no public entry point uses: not modelled)
TARGETS = [("color_parser.py", "_parse_number_token"), ("conversions.py", "_parse_hsl_percentage_or_decimal"), ("conversions.py", "_parse_hue")]


class SFn(Fn):
    def str_expr(self, n):
        """a str-typed expression"""
        if isinstance(n, ast.Name) and self.env.get(n.id) == "S":
            return lname(n.id)
        if isinstance(n, ast.Call) and isinstance(n.func, ast.Attribute) and n.func.attr == "strip" and not n.args:
            return "Str.strip E.cls %s" % self.atom(self.str_expr(n.func.value))
        if isinstance(n, ast.Subscript) and isinstance(n.slice, ast.Slice) and n.slice.lower is None and n.slice.step is None \
                and isinstance(n.slice.upper, ast.UnaryOp) and isinstance(n.slice.upper.op, ast.USub) \
                and isinstance(n.slice.upper.operand, ast.Constant) and n.slice.upper.operand.value == 1:
            return "(%s).dropLast" % self.str_expr(n.value)
        raise Unsupported("string expression " + ast.dump(n)[:60])

    def expr(self, n):
        if isinstance(n, ast.Call) and isinstance(n.func, ast.Attribute) and n.func.attr == "endswith" and len(n.args) == 1 \
                and isinstance(n.args[0], ast.Constant) and isinstance(n.args[0].value, str) and len(n.args[0].value) == 1:
            return ("Str.endsWith %s ['%s']" % (self.atom(self.str_expr(n.func.value)), n.args[0].value), "B")
        if isinstance(n, ast.Call) and isinstance(n.func, ast.Name) and n.func.id == "float" and len(n.args) == 1:
            a = n.args[0]
            if isinstance(a, ast.Name) and self.env.get(a.id) == "F":
                return (lname(a.id), "F")
        return super().expr(n)

    def is_float_of_str(self, n):
        return isinstance(n, ast.Call) and isinstance(n.func, ast.Name) and n.func.id == "float" and len(n.args) == 1 and not n.keywords

    def mblock(self, stmts, ind):
        """statements as a term of `Except PyErr α`"""
        pad = "  " * ind
        if not stmts:
            raise Unsupported("a path without return or raise")
        s, rest = stmts[0], list(stmts[1:])
        if is_noise(s) or (isinstance(s, ast.Expr) and isinstance(s.value, ast.Constant) and isinstance(s.value.value, str)):
            return self.mblock(rest, ind)
        if isinstance(s, ast.Raise):
            exc = s.exc.func.id if isinstance(s.exc, ast.Call) and isinstance(s.exc.func, ast.Name) else None
            if exc != "ValueError":
                raise Unsupported("raise of %s" % exc)
            return pad + "vErr"
        if isinstance(s, ast.Return):
            v = s.value
            if self.is_float_of_str(v):
                try:
                    st = self.str_expr(v.args[0])
                    return pad + "PyFloat.parse (α := α) E.cls %s" % self.atom(st)
                except Unsupported:
                    pass
            # float(<str>) nested one level down: `float(v.strip()) % 360`
            bound = []

            class Lift(ast.NodeTransformer):
                def visit_Call(inner, c):
                    inner.generic_visit(c)
                    if self.is_float_of_str(c):
                        try:
                            st = self.str_expr(c.args[0])
                        except Unsupported:
                            return c
                        nm = "x%d" % len(bound)
                        bound.append((nm, st))
                        self.env[nm] = "F"
                        return ast.copy_location(ast.Name(id=nm, ctx=ast.Load()), c)
                    return c
            import copy
            v2 = Lift().visit(copy.deepcopy(v))
            e = self.expr(v2)
            lines = "".join(pad + "let %s ← PyFloat.parse (α := α) E.cls %s\n" % (nm, self.atom(st)) for nm, st in bound)
            return (pad + "do\n" + lines.replace(pad, pad + "  ") + pad + "  pure %s" % self.atom(self.toF(e))) if bound else pad + "pure %s" % self.atom(self.toF(e))
        if isinstance(s, ast.Assign) and len(s.targets) == 1 and isinstance(s.targets[0], ast.Name):
            t = s.targets[0].id
            if self.is_float_of_str(s.value):
                st = self.str_expr(s.value.args[0])
                self.env[t] = "F"
                return pad + "do\n%s  let %s ← PyFloat.parse (α := α) E.cls %s\n%s" % (pad, lname(t), self.atom(st), self.mblock(rest, ind + 1))
            try:
                st = self.str_expr(s.value)
                self.env[t] = "S"
                return pad + "let %s := %s\n" % (lname(t), st) + self.mblock(rest, ind)
            except Unsupported:
                pass
            e = self.expr(s.value)
            self.env[t] = "F" if self.is_ilit(e[1]) else e[1]
            return pad + "let %s := %s\n" % (lname(t), self.toF(e) if self.env[t] == "F" else e[0]) + self.mblock(rest, ind)
        if isinstance(s, ast.Try):
            # try: v = float(<str>)  except Exception: raise ValueError(...)
            ok = (len(s.body) == 1 and isinstance(s.body[0], ast.Assign) and self.is_float_of_str(s.body[0].value) and len(s.handlers) == 1
                  and len(s.handlers[0].body) == 1 and isinstance(s.handlers[0].body[0], ast.Raise) and not s.orelse and not s.finalbody
                  and (s.handlers[0].type is None or getattr(s.handlers[0].type, "id", "") == "Exception"))
            if not ok:
                raise Unsupported("shape of try statement")
            exc = s.handlers[0].body[0].exc
            if not (isinstance(exc, ast.Call) and getattr(exc.func, "id", "") == "ValueError"):
                raise Unsupported("handler does not raise ValueError")
            t = s.body[0].targets[0].id
            st = self.str_expr(s.body[0].value.args[0])
            self.env[t] = "F"
            return pad + "do\n%s  let %s ← floatOrValueError (α := α) E %s\n%s" % (pad, lname(t), self.atom(st), self.mblock(rest, ind + 1))
        if isinstance(s, ast.If):
            c = self.cond(s.test)
            saved = dict(self.env)
            a = self.mblock(list(s.body) + ([] if self.terminates(s.body) else rest), ind + 1)
            self.env = dict(saved)
            b = self.mblock(list(s.orelse) + rest, ind + 1)
            self.env = dict(saved)
            return "%sif %s then\n%s\n%selse\n%s" % (pad, c, a, pad, b)
        raise Unsupported("statement " + type(s).__name__)

    def terminates(self, stmts):
        for s in stmts:
            if isinstance(s, (ast.Return, ast.Raise)):
                return True
            if isinstance(s, ast.If) and s.orelse and self.terminates(s.body) and self.terminates(s.orelse):
                return True
        return False


def generate():
    texts, n = [], 0
    srcs = {}
    for fname, fn in TARGETS:
        try:
            if fname not in srcs:
                srcs[fname] = open(os.path.join(REPO, CORE, fname), encoding="utf-8").read()
            src = srcs[fname]
            nodes = [x for x in ast.parse(src).body if isinstance(x, ast.FunctionDef) and x.name == fn]
            if len(nodes) != 1:
                raise Unsupported("not found (or defined twice)")
            node = nodes[0]
            f = SFn(src, node, {})
            params = []
            for i, a in enumerate(node.args.args):
                if i == 0:
                    f.env[a.arg] = "S"
                    params.append("(%s : Str)" % lname(a.arg))
                else:
                    t = f.ann_type(a.annotation)
                    f.env[a.arg] = t
                    params.append("(%s : %s)" % (lname(a.arg), f.lean_type(t)))
            body = f.mblock(list(node.body), 1)
            texts.append("/-- `%s` (%s line %d) -/\ndef %s (E : PEnv) %s : Except PyErr α :=\n%s\n" % (fn, fname, node.lineno, fn.lstrip("_"), " ".join(params), body))
            n += 1
        except Exception as e:  # noqa
            e = str(e).replace("\n", " ")[:300]
            texts.append("-- %s: outside the translated subset (%s)\n" % (fn, e))
    out = ("import CmModel.Parser\n/-! GENERATED by harness/translate/strhelpers.py from src/cm_colors/core/{color_parser,conversions}.py — do not edit. -/\n"
           "set_option linter.unusedVariables false\nnamespace CmGen.StrHelpers\nopen Cm Cm.Parse\nvariable {α : Type} [Num α]\n\n" + "\n".join(texts) + "\nend CmGen.StrHelpers\n")
    path = os.path.join(LEAN, "CmGen", "StrHelpers.lean")
    old = open(path).read() if os.path.exists(path) else None
    if old != out:
        with open(path, "w") as fh:
            fh.write(out)
    return n


def summary():
    import re
    path = os.path.join(LEAN, "CmGen", "StrHelpers.lean")
    text = open(path, encoding="utf-8").read() if os.path.exists(path) else ""
    return {"generated_definitions": re.findall(r"^def (\S+)", text, re.M), "not_translated": re.findall(r"^-- (.*)$", text, re.M),
            "file": "lean/CmGen/StrHelpers.lean", "translator": "harness/translate/strhelpers.py"}


if __name__ == "__main__":
    print(generate())
