"""Translator: the leftovers of the colour parser's static tie  ->  lean/CmGen/HexSrc.lean

  conversions.hex_to_rgb (the `string=False` path)      -> `hex_to_rgb`             = model `Cm.Parse.hexToRgb`        (C07hex)
  color_parser._NUM_RE / _extract_number_tokens         -> `num_re_pattern`, `extract_number_tokens` = `NumRe.findAll` (C07hex)
  colors.Color.to_hex (with the properties it reads)    -> `Color_to_hex`           = `rgb?.map fmtHex`                (C17hex)
  conversions.rgb_to_hsl, tuple/list entry              -> `rgb_to_hsl_tuple`       = validate, then `rgbToHslText`    (C06hsl)

Everything is assembled from the syntax tree by the rules of translate/leaves.py (expressions over floats/ints),
translate/strhelpers.py and translate/convstr.py (class `CFn`: statements in `Except PyErr`, image types of parameters,
T1 `isinstance` decided by typing, T2 only the live branch of an `if` whose condition is a literal, rule F for
formatting, effects bound in evaluation order) plus the rules below (the trusted part added here).

 parameters
  P1 a parameter FIXED TO ITS DEFAULT (`hex_to_rgb(hex_str, string=False)` is translated for `string` left at its
     default): the name denotes the default value read from the `def` line (a bool constant -> `true`/`false`), and is
     not a parameter of the image. An `if string:` is then decided by T2: the dead branch is dropped. (Changing the
     default in the source changes which branch is live, hence the generated text.)
 strings (a `str` is a `Str` = `List Char`; the variable of a comprehension over a str is a `Char`)
  S1 len(x), x a str, compared with an int literal k >= 0      -> `decide ((x).length = k)`  (also `≠ < ≤ > ≥`)
  S2 "".join([ELT for c in x]) (or a generator), x a str       -> `(x).flatMap (fun c => ELT')` where ELT' is the image of
     the str ELT:  `c` -> `[c]`;  `c * k` / `k * c` (k an int literal) -> the list of k copies `[c, …, c]`
  S3 all(COND for c in x), x a str                             -> `(x).all (fun c => COND')`
     `c in "LITERAL"` -> `"LITERAL".toList.contains c`;  `c not in "LITERAL"` -> `!("LITERAL".toList.contains c)`
  S4 x[i:j], i, j non-negative int literals (i or j may be absent) -> `((x).drop i).take (j - i)`  (`j - i` computed, 0 when j < i;
     `x[i:]` -> `(x).drop i`,  `x[:j]` -> `(x).take j`)
  S5 int(t, 16), t a str                                       -> `← Str.intBase16 t`  (lean/CmModel/HexVocab.lean: CPython's
     `int(text, 16)` on strings of ASCII hex digits and on the empty string, `ValueError` on anything else; see its
     doc comment for the inputs on which CPython is more liberal and why no translated caller can pass them).
     Any other base is outside the subset.
 the regular expression
  R1 a module-level `NAME = re.compile(LIT)` (assigned once) -> `def num_re_pattern : String := LIT` (the literal text), and
     `NAME.findall(s)` with s a str -> `NumRe.findAll E.cls s` *only* when LIT is exactly `[-+]?\\d*\\.?\\d+%?`, the
     expression `Cm.NumRe` implements (lean/CmProofs/ParseNumRe.lean proves its properties); any other pattern text,
     flags, or another method of the compiled object: outside the subset.
  R2 a function whose whole image is `pure X` (nothing in it can raise) is emitted as the plain definition `X`.
 objects (class `Color`, as translate/api.py: a finished object is the model's `Cm.Color α`, `self._rgb` -> `self.rgb?`)
  O1 `self.<p>` where `<p>` is a `@property` of the class  -> the generated accessor `Color_<p> self`, itself translated
     from the property's body (`return self._rgb is not None` -> `(self.rgb?).isSome`; `x is None` -> `.isNone`)
  O2 `a, b, c = e` with e an `Optional[RGB]` -> `match e with | none => Except.error PyErr.typeError | some (a, b, c) => …`
     (unpacking `None` raises TypeError)
  O3 a function with `return None` next to `return <str>` returns `Option Str`: `pure none` / `pure (some …)`
 the tuple entry of rgb_to_hsl (parameter: an RGB triple of ints, standing for {tuple, list})
  H1 t[:k], t a triple, k >= 3 an int literal  -> t
  H2 for v in (e1, …, en): BODY   (a literal tuple of names/constants; BODY without break/continue/else and not assigning
     v; v not read after the loop) -> BODY[v := e1]; …; BODY[v := en], unrolled
  H3 the statements from the top-level `r /= 255` to the final `return` are exactly the fragment `rgb_to_hsl_core` of
     translate/leaves.py (same delimitation: the unique top-level augmented assignment to `r`, the function ends in a
     `return`), tied to the model by `C06tie.source_rgb_to_hsl_core/_text`; here they become the leaf
     `pure (rgbToHslText (r, g, b))` after checking that the fragment reads no other variable than the ints r, g, b.
     The image's result is the triple of numbers the f-string prints (the shape of the f-string is checked by leaves.py).
 raise / return / messages: as convstr.py (kinds are modelled, messages are not).
"""
import ast
import copy
import os
import re

from common import LEAN, REPO
from translate.leaves import Unsupported, is_noise, lname
from translate.convstr import CFn, str_lit, chars

CORE = os.path.join("src", "cm_colors", "core")
OUT = os.path.join(LEAN, "CmGen", "HexSrc.lean")
NUM_RE_TEXT = r"[-+]?\d*\.?\d+%?"

BUILTINS_LEAF = {"max", "min", "abs", "round", "int", "float", "pow", "math"}


def lean_string(s):
    out = []
    for ch in s:
        if ch == "\\":
            out.append("\\\\")
        elif ch == '"':
            out.append('\\"')
        elif ch == "\n":
            out.append("\\n")
        elif ch == "\t":
            out.append("\\t")
        elif ch.isprintable():
            out.append(ch)
        else:
            out.append("\\u{%x}" % ord(ch))
    return '"' + "".join(out) + '"'


def docstring_free(stmts):
    return [s for s in stmts if not (is_noise(s) or (isinstance(s, ast.Expr) and isinstance(s.value, ast.Constant) and isinstance(s.value.value, str)))]


def free_names(stmts, bound):
    """names read by the statement sequence before it assigns them (sequential def-use; after an `if`, a name counts as
    assigned when both branches assign it); `bound` is updated"""
    free = set()

    def loads(n):
        return {y.id for y in ast.walk(n) if isinstance(y, ast.Name) and isinstance(y.ctx, ast.Load)}

    def stores(n):
        return {y.id for y in ast.walk(n) if isinstance(y, ast.Name) and isinstance(y.ctx, ast.Store)}
    for st in stmts:
        if isinstance(st, ast.If):
            free |= loads(st.test) - bound
            b1, b2 = set(bound), set(bound)
            free |= free_names(st.body, b1)
            free |= free_names(st.orelse, b2)
            bound |= (b1 & b2)
        elif isinstance(st, ast.AugAssign) and isinstance(st.target, ast.Name):
            free |= (loads(st.value) | {st.target.id}) - bound
            bound.add(st.target.id)
        elif isinstance(st, (ast.Assign, ast.Return, ast.Expr, ast.Pass)):
            free |= loads(st) - bound
            bound |= stores(st)
        else:
            raise Unsupported("statement %s in the arithmetic fragment" % type(st).__name__)
    return free


class HFn(CFn):
    """CFn plus the rules P1, S1-S5, R1, O1-O3, H1-H3"""

    def __init__(self, src, node, known, fns=None, module=None, cls_node=None):
        super().__init__(src, node, known, fns)
        self.module = module          # ast.Module of the file (R1)
        self.cls_node = cls_node      # ast.ClassDef for a method (O1)
        self.opt_ret = False          # O3
        self.props = []               # generated property accessors

    def lean_type(self, t):
        return {"COLOR": "Cm.Color α", "OS": "Option Str", "C": "Char"}.get(t) or super().lean_type(t)

    # ---------------------------------------------------------------- helpers
    def nat_lit(self, n):
        return n.value if isinstance(n, ast.Constant) and type(n.value) is int and n.value >= 0 else None

    def is_len_of_str(self, n):
        return isinstance(n, ast.Call) and isinstance(n.func, ast.Name) and n.func.id == "len" and len(n.args) == 1 and not n.keywords \
            and self.is_str(n.args[0])

    def char_str(self, n):
        """S2: a str built from the one-character variable of a comprehension"""
        if isinstance(n, ast.Name) and self.alias.get(n.id, (None, None))[1] == "C":
            return "[%s]" % self.alias[n.id][0]
        if isinstance(n, ast.BinOp) and isinstance(n.op, ast.Mult):
            for a, b in ((n.left, n.right), (n.right, n.left)):
                k = self.nat_lit(b)
                if k is not None and isinstance(a, ast.Name) and self.alias.get(a.id, (None, None))[1] == "C":
                    c = self.alias[a.id][0]
                    return "[%s]" % ", ".join([c] * k) if k else "([] : Str)"
        raise Unsupported("element of a joined comprehension " + ast.dump(n)[:60])

    def with_char(self, var, f):
        saved = self.alias.get(var)
        self.alias[var] = (lname(var), "C")
        try:
            return f()
        finally:
            if saved is None:
                self.alias.pop(var, None)
            else:
                self.alias[var] = saved

    def compiled_pattern(self, name):
        """R1: the literal of the module-level `name = re.compile(LIT)`"""
        if self.module is None:
            raise Unsupported("no module")
        asg = [s for s in ast.walk(self.module) if isinstance(s, (ast.Assign, ast.AugAssign, ast.AnnAssign))
               and any(isinstance(t, ast.Name) and t.id == name for t in ast.walk(s) if isinstance(getattr(t, "ctx", None), ast.Store))]
        if len(asg) != 1 or asg[0] not in self.module.body or not isinstance(asg[0], ast.Assign) or len(asg[0].targets) != 1:
            raise Unsupported("%s is not assigned exactly once at module level" % name)
        v = asg[0].value
        if not (isinstance(v, ast.Call) and isinstance(v.func, ast.Attribute) and isinstance(v.func.value, ast.Name) and v.func.value.id == "re"
                and v.func.attr == "compile" and len(v.args) == 1 and not v.keywords and isinstance(v.args[0], ast.Constant)
                and isinstance(v.args[0].value, str)):
            raise Unsupported("%s is not `re.compile(<literal>)` without flags" % name)
        return v.args[0].value

    # ---------------------------------------------------------------- strings
    def str_expr(self, n):
        # S2
        if isinstance(n, ast.Call) and isinstance(n.func, ast.Attribute) and n.func.attr == "join" and isinstance(n.func.value, ast.Constant) \
                and n.func.value.value == "" and len(n.args) == 1 and not n.keywords and isinstance(n.args[0], (ast.ListComp, ast.GeneratorExp)):
            g = n.args[0]
            if len(g.generators) == 1 and not g.generators[0].ifs and not g.generators[0].is_async and isinstance(g.generators[0].target, ast.Name):
                xs = self.str_expr(g.generators[0].iter)
                v = g.generators[0].target.id
                body = self.with_char(v, lambda: self.char_str(g.elt))
                return "(%s).flatMap (fun %s => %s)" % (xs, lname(v), body)
            raise Unsupported("shape of the joined comprehension")
        # S4
        if isinstance(n, ast.Subscript) and isinstance(n.slice, ast.Slice) and n.slice.step is None:
            lo, hi = n.slice.lower, n.slice.upper
            i = 0 if lo is None else self.nat_lit(lo)
            j = None if hi is None else self.nat_lit(hi)
            if i is not None and (hi is None or j is not None) and not (lo is None and hi is None):
                x = self.str_expr(n.value)
                if hi is None:
                    return "(%s).drop %d" % (x, i)
                if lo is None:
                    return "(%s).take %d" % (x, j)
                return "((%s).drop %d).take %d" % (x, i, max(j - i, 0))
        return super().str_expr(n)

    def list_expr(self, n):
        # R1
        if isinstance(n, ast.Call) and isinstance(n.func, ast.Attribute) and isinstance(n.func.value, ast.Name) and n.func.value.id not in self.env \
                and n.func.value.id not in self.alias and n.func.attr == "findall":
            if len(n.args) != 1 or n.keywords:
                raise Unsupported("arguments of findall")
            pat = self.compiled_pattern(n.func.value.id)
            if pat != NUM_RE_TEXT:
                raise Unsupported("findall of a pattern other than %s: %r" % (NUM_RE_TEXT, pat))
            return "NumRe.findAll E.cls %s" % self.atom(self.str_expr(n.args[0]))
        return super().list_expr(n)

    # ---------------------------------------------------------------- expressions
    def expr(self, n):
        # S1
        if isinstance(n, ast.Compare) and len(n.ops) == 1:
            l, r, op = n.left, n.comparators[0], n.ops[0]
            rel = {ast.Eq: "=", ast.NotEq: "≠", ast.Lt: "<", ast.LtE: "≤", ast.Gt: ">", ast.GtE: "≥"}.get(type(op))
            if rel and self.is_len_of_str(l) and self.nat_lit(r) is not None:
                return ("decide ((%s).length %s %d)" % (self.str_expr(l.args[0]), rel, self.nat_lit(r)), "B")
            if rel and self.is_len_of_str(r) and self.nat_lit(l) is not None:
                return ("decide (%d %s (%s).length)" % (self.nat_lit(l), rel, self.str_expr(r.args[0])), "B")
            # S3: membership of a character in a literal
            if isinstance(op, (ast.In, ast.NotIn)) and isinstance(l, ast.Name) and self.alias.get(l.id, (None, None))[1] == "C" \
                    and isinstance(r, ast.Constant) and isinstance(r.value, str):
                t = "%s.contains %s" % (self.atom(str_lit(r.value)) if len(r.value) != 1 else chars(r.value), self.alias[l.id][0])
                return (t if isinstance(op, ast.In) else "!(%s)" % t, "B")
            # O1: `x is None` / `x is not None` on an optional
            if isinstance(op, (ast.Is, ast.IsNot)) and isinstance(r, ast.Constant) and r.value is None:
                a = self.expr(l)
                if a[1] == "ORGB":
                    return ("%s.%s" % (self.atom(a[0]), "isNone" if isinstance(op, ast.Is) else "isSome"), "B")
                raise Unsupported("`is None` on a value of type %s" % (a[1],))
        # S3
        if isinstance(n, ast.Call) and isinstance(n.func, ast.Name) and n.func.id == "all" and len(n.args) == 1 and not n.keywords \
                and isinstance(n.args[0], (ast.GeneratorExp, ast.ListComp)):
            g = n.args[0]
            if len(g.generators) == 1 and not g.generators[0].ifs and not g.generators[0].is_async and isinstance(g.generators[0].target, ast.Name) \
                    and self.is_str(g.generators[0].iter):
                xs = self.str_expr(g.generators[0].iter)
                v = g.generators[0].target.id
                body = self.with_char(v, lambda: self.toB(self.expr(g.elt)))
                return ("(%s).all (fun %s => %s)" % (xs, lname(v), body), "B")
        # R1: a list of str as a value
        if isinstance(n, ast.Call) and isinstance(n.func, ast.Attribute) and n.func.attr == "findall":
            return (self.list_expr(n), "LS")
        # O1: attributes of self
        if isinstance(n, ast.Attribute) and isinstance(n.value, ast.Name) and self.env.get(n.value.id) == "COLOR" and n.value.id not in self.alias:
            return self.color_attr(lname(n.value.id), n.attr)
        # H1
        if isinstance(n, ast.Subscript) and isinstance(n.slice, ast.Slice) and n.slice.step is None and n.slice.lower is None \
                and isinstance(n.value, ast.Name) and self.env.get(n.value.id) == "RGB" and n.value.id not in self.alias:
            k = self.nat_lit(n.slice.upper) if n.slice.upper is not None else None
            if k is not None and k >= 3:
                return (lname(n.value.id), "RGB")
            raise Unsupported("slice of a triple")
        return super().expr(n)

    def color_attr(self, obj, attr):
        if attr == "_rgb":
            return ("%s.rgb?" % obj, "ORGB")
        if self.cls_node is None:
            raise Unsupported("attribute %s" % attr)
        defs = [x for x in self.cls_node.body if isinstance(x, ast.FunctionDef) and x.name == attr]
        if len(defs) != 1 or [ast.unparse(d) for d in defs[0].decorator_list] != ["property"]:
            raise Unsupported("attribute %s is not a property defined once" % attr)
        name = "%s_%s" % (self.cls_node.name, attr)
        if name not in self.known:
            node = defs[0]
            a = node.args
            if len(a.args) != 1 or a.vararg or a.kwarg or a.kwonlyargs or a.posonlyargs:
                raise Unsupported("parameters of property %s" % attr)
            body = docstring_free(node.body)
            if len(body) != 1 or not isinstance(body[0], ast.Return) or body[0].value is None:
                raise Unsupported("property %s is not a single return" % attr)
            sub = HFn(self.src, node, self.known, self.fns, self.module, self.cls_node)
            sub.env[a.args[0].arg] = "COLOR"
            self.known[name] = None               # (a property reaching itself is outside the subset)
            try:
                e = sub.expr(body[0].value)
            except Exception:
                del self.known[name]
                raise
            if e[1] not in ("B", "ORGB"):
                del self.known[name]
                raise Unsupported("property %s of type %s" % (attr, e[1]))
            self.known[name] = e[1]
            self.props += sub.props
            self.props.append("/-- `%s.%s` (colors.py line %d): a property, rule O1 -/\ndef %s (%s : Cm.Color α) : %s :=\n  %s\n"
                              % (self.cls_node.name, attr, node.lineno, name, lname(a.args[0].arg), self.lean_type(e[1]) if e[1] != "B" else "Bool", e[0]))
        if self.known[name] is None:
            raise Unsupported("property %s refers to itself" % attr)
        return ("%s (α := α) %s" % (name, obj), self.known[name])

    # ---------------------------------------------------------------- effects
    def is_int16(self, x):
        return isinstance(x, ast.Call) and isinstance(x.func, ast.Name) and x.func.id == "int" and len(x.args) == 2 and not x.keywords

    def is_effect(self, x):
        if self.is_int16(x):
            return True
        return super().is_effect(x)

    def effect(self, c):
        if self.is_int16(c):
            base = c.args[1]
            if not (isinstance(base, ast.Constant) and type(base.value) is int and base.value == 16):
                raise Unsupported("int(text, base) with a base other than the literal 16")
            if not self.is_str(c.args[0]):
                raise Unsupported("int(x, 16) on something else than a str")
            return ("Str.intBase16 %s" % self.atom(self.str_expr(c.args[0])), "I")
        return super().effect(c)

    # ---------------------------------------------------------------- statements
    def leaf_tail(self, stmts):
        return None

    def mterm(self, n, ind):
        if self.opt_ret:
            pad = "  " * ind
            if isinstance(n, ast.Constant) and n.value is None:
                return [pad + "pure none"], "OS"
            lines, t = super().mterm(n, ind)
            if t != "S" or len(lines) != 1 or not lines[0].strip().startswith("pure "):
                raise Unsupported("return of %s next to `return None`" % (t,))
            return [pad + "pure (some %s)" % self.atom(lines[0].strip()[5:])], "OS"
        return super().mterm(n, ind)

    def mseq(self, stmts, ind):
        pad = "  " * ind
        if stmts:
            s, rest = stmts[0], list(stmts[1:])
            # O2
            if isinstance(s, ast.Assign) and len(s.targets) == 1 and isinstance(s.targets[0], ast.Tuple) and len(s.targets[0].elts) == 3 \
                    and all(isinstance(x, ast.Name) for x in s.targets[0].elts) and not self.has_effect(s.value):
                try:
                    e = self.expr(s.value)
                except Unsupported:
                    e = (None, None)
                if e[1] == "ORGB":
                    names = [x.id for x in s.targets[0].elts]
                    if len(set(names)) != 3:
                        raise Unsupported("unpacking into repeated names")
                    for nm in names:
                        self.env[nm] = "I"
                        self.alias.pop(nm, None)
                    return [pad + "match %s with" % e[0], pad + "| none => Except.error PyErr.typeError",
                            pad + "| some (%s) =>" % ", ".join(lname(x) for x in names)] + self.branch(rest, ind + 2)
            # H2
            if isinstance(s, ast.For):
                return self.mseq(self.unroll(s, rest) + rest, ind)
        return super().mseq(stmts, ind)

    def unroll(self, s, rest):
        if s.orelse or not isinstance(s.target, ast.Name) or not isinstance(s.iter, ast.Tuple):
            raise Unsupported("for loop other than over a literal tuple")
        v = s.target.id
        if not all(isinstance(e, (ast.Name, ast.Constant)) for e in s.iter.elts):
            raise Unsupported("for loop over a tuple of computed values")
        for x in s.body:
            for y in ast.walk(x):
                if isinstance(y, (ast.Break, ast.Continue, ast.For, ast.While, ast.FunctionDef, ast.Lambda, ast.ListComp, ast.GeneratorExp)):
                    raise Unsupported("%s inside an unrolled loop" % type(y).__name__)
                if isinstance(y, ast.Name) and isinstance(y.ctx, ast.Store) and (y.id == v or any(isinstance(e, ast.Name) and e.id == y.id for e in s.iter.elts)):
                    raise Unsupported("the loop assigns %s" % y.id)
        for x in rest:
            for y in ast.walk(x):
                if isinstance(y, ast.Name) and y.id == v and isinstance(y.ctx, ast.Load):
                    # (a later loop / comprehension re-binding the name would be fine, but is not needed)
                    raise Unsupported("the loop variable %s is read after the loop" % v)

        class Sub(ast.NodeTransformer):
            def __init__(self, e):
                self.e = e

            def visit_Name(self, y):
                return copy.deepcopy(self.e) if y.id == v and isinstance(y.ctx, ast.Load) else y
        out = []
        for e in s.iter.elts:
            for x in s.body:
                out.append(ast.fix_missing_locations(Sub(e).visit(copy.deepcopy(x))))
        return out


class HslTupleFn(HFn):
    """H3"""

    @staticmethod
    def is_start(x):
        return isinstance(x, ast.AugAssign) and isinstance(x.target, ast.Name) and x.target.id == "r"

    def leaf_tail(self, stmts):
        x = stmts[0]
        top = list(self.node.body)
        if not (x in top and self.is_start(x)):
            return None
        if len([y for y in top if self.is_start(y)]) != 1 or not isinstance(top[-1], ast.Return) or list(stmts) != top[top.index(x):]:
            raise Unsupported("cannot delimit the arithmetic of rgb_to_hsl")
        free = free_names(stmts, set()) - BUILTINS_LEAF
        if not free <= {"r", "g", "b"} or any(self.env.get(v) != "I" or v in self.alias for v in ("r", "g", "b")):
            raise Unsupported("the arithmetic of rgb_to_hsl reads %s" % sorted(free))
        self.ret = "T3"
        return "pure (rgbToHslText (α := α) (r, g, b))"


# ---------------------------------------------------------------------------------------------------------------- driver

def read_module(fname):
    src = open(os.path.join(REPO, CORE, fname), encoding="utf-8").read()
    tree = ast.parse(src)
    names = [x.name for x in tree.body if isinstance(x, ast.FunctionDef)]
    fns = {x.name: x for x in tree.body if isinstance(x, ast.FunctionDef) and names.count(x.name) == 1}
    return src, tree, fns


def translate_fn(src, tree, fns, node, fname, name, ptypes, rtype, known, cls=HFn, cls_node=None, doc=""):
    """ptypes: one entry per Python parameter: an image type, or "DEFAULT" (rule P1)"""
    a = node.args
    if a.vararg or a.kwarg or a.kwonlyargs or a.posonlyargs or len(a.args) != len(ptypes):
        raise Unsupported("parameter list")
    f = cls(src, node, known, fns, tree, cls_node)
    params, shown = [], []
    ndef = len(a.defaults)
    for i, (arg, t) in enumerate(zip(a.args, ptypes)):
        if t == "DEFAULT":
            k = i - (len(a.args) - ndef)
            d = a.defaults[k] if k >= 0 else None
            if not (isinstance(d, ast.Constant) and isinstance(d.value, bool)):
                raise Unsupported("parameter %s has no bool default" % arg.arg)
            if any(isinstance(y, ast.Name) and y.id == arg.arg and isinstance(y.ctx, ast.Store) for y in ast.walk(node)):
                raise Unsupported("parameter %s is assigned" % arg.arg)
            f.alias[arg.arg] = ("true" if d.value else "false", "B")
            shown.append("%s = %s" % (arg.arg, d.value))
            continue
        f.env[arg.arg] = t
        params.append("(%s : %s)" % (lname(arg.arg), f.lean_type(t)))
        shown.append("%s : %s" % (arg.arg, f.lean_type(t)))
    stmts = list(node.body)
    if rtype == "OS":
        rets = [y for y in ast.walk(node) if isinstance(y, ast.Return)]
        if not any(isinstance(y.value, ast.Constant) and y.value.value is None for y in rets if y.value is not None):
            raise Unsupported("no `return None`")
        f.opt_ret = True
    body = f.mblock(stmts, 1)
    if getattr(f, "ret", None) != rtype:
        raise Unsupported("returns %s, expected %s" % (getattr(f, "ret", None), rtype))
    uses_env = any(re.search(r"\bE\b", ln) for ln in body)
    head = "/-- `%s` (%s line %d) with %s%s -/\n" % (node.name if cls_node is None else cls_node.name + "." + node.name, fname, node.lineno, ", ".join(shown), doc)
    sig = "%s%s" % ("(E : PEnv) " if uses_env else "", " ".join(params))
    rt = f.lean_type(rtype)
    if len(body) == 1 and body[0].strip().startswith("pure "):       # R2
        text = head + "def %s %s : %s :=\n  %s\n" % (name, sig, rt, body[0].strip()[5:])
    else:
        text = head + "def %s %s : Except PyErr (%s) :=\n%s\n" % (name, sig, rt, "\n".join(body))
    return f.props + f.aux_defs + [text]


def gen_hex_to_rgb(known):
    src, tree, fns = read_module("conversions.py")
    if "hex_to_rgb" not in fns:
        raise Unsupported("not found (or defined twice)")
    return translate_fn(src, tree, fns, fns["hex_to_rgb"], "conversions.py", "hex_to_rgb", ["S", "DEFAULT"], "RGB", known)


def gen_num_re_pattern(known):
    src, tree, fns = read_module("color_parser.py")
    node = fns.get("_extract_number_tokens")
    if node is None:
        raise Unsupported("_extract_number_tokens not found")
    # the compiled object the function uses: the receiver of its `.findall`
    recv = [y.func.value.id for y in ast.walk(node) if isinstance(y, ast.Call) and isinstance(y.func, ast.Attribute) and y.func.attr == "findall"
            and isinstance(y.func.value, ast.Name)]
    if len(recv) != 1:
        raise Unsupported("_extract_number_tokens does not call exactly one `<name>.findall`")
    f = HFn(src, node, known, fns, tree)
    pat = f.compiled_pattern(recv[0])
    return ["/-- the text of `%s = re.compile(…)` (color_parser.py), rule R1 -/\ndef num_re_pattern : String := %s\n" % (recv[0], lean_string(pat))]


def gen_extract_number_tokens(known):
    src, tree, fns = read_module("color_parser.py")
    node = fns.get("_extract_number_tokens")
    if node is None:
        raise Unsupported("not found (or defined twice)")
    return translate_fn(src, tree, fns, node, "color_parser.py", "extract_number_tokens", ["S"], "LS", known)


def gen_color_to_hex(known):
    src, tree, fns = read_module("colors.py")
    cls = [x for x in tree.body if isinstance(x, ast.ClassDef) and x.name == "Color"]
    if len(cls) != 1:
        raise Unsupported("class Color not found (or defined twice)")
    ms = [x for x in cls[0].body if isinstance(x, ast.FunctionDef) and x.name == "to_hex"]
    if len(ms) != 1 or ms[0].decorator_list:
        raise Unsupported("method to_hex not found (or defined twice, or decorated)")
    return translate_fn(src, tree, fns, ms[0], "colors.py", "Color_to_hex", ["COLOR"], "OS", known, cls_node=cls[0])


def gen_rgb_to_hsl_tuple(known):
    src, tree, fns = read_module("conversions.py")
    if "rgb_to_hsl" not in fns:
        raise Unsupported("not found (or defined twice)")
    return translate_fn(src, tree, fns, fns["rgb_to_hsl"], "conversions.py", "rgb_to_hsl_tuple", ["RGB"], "T3", known, cls=HslTupleFn,
                        doc="; the result is the triple of numbers its f-string prints")


TARGETS = [("hex_to_rgb", gen_hex_to_rgb), ("num_re_pattern", gen_num_re_pattern), ("extract_number_tokens", gen_extract_number_tokens),
           ("Color_to_hex", gen_color_to_hex), ("rgb_to_hsl_tuple", gen_rgb_to_hsl_tuple)]


def generate():
    texts, n = [], 0
    known = {}
    for name, gen in TARGETS:
        saved = dict(known)
        try:
            texts += gen(known)
            n += 1
        except Exception as e:  # noqa: anything the subset does not cover, including surprises in the translator itself
            known.clear()
            known.update(saved)
            e = ("%s: %s" % (type(e).__name__, e) if not isinstance(e, Unsupported) else str(e)).replace("\n", " ")[:300]
            texts.append("-- %s: outside the translated subset (%s)\n" % (name, e))
    out = ("import CmModel.Parser\nimport CmModel.Color\nimport CmModel.Hsl\nimport CmModel.HexVocab\n"
           "/-! GENERATED by harness/translate/hexsrc.py from src/cm_colors/core/{conversions,color_parser,colors}.py — do not edit. -/\n"
           "set_option linter.unusedVariables false\nnamespace CmGen.HexSrc\nopen Cm Cm.Parse\nvariable {α : Type} [Num α]\n\n" + "\n".join(texts) + "\nend CmGen.HexSrc\n")
    old = open(OUT, encoding="utf-8").read() if os.path.exists(OUT) else None
    if old != out:
        with open(OUT, "w", encoding="utf-8") as fh:
            fh.write(out)
    return n


def summary():
    text = open(OUT, encoding="utf-8").read() if os.path.exists(OUT) else ""
    return {"generated_definitions": re.findall(r"^def (\S+)", text, re.M), "not_translated": re.findall(r"^-- (.*)$", text, re.M),
            "file": "lean/CmGen/HexSrc.lean", "translator": "harness/translate/hexsrc.py"}


if __name__ == "__main__":
    print(generate())
