"""Translator: the per-rule body and the recursion of the CSS rewriter (cli/main.py)  ->  lean/CmGen/CliRules.lean

Translated, from the syntax tree of `src/cm_colors/cli/main.py`, on every run:

  * `update_decl_value(decl, new_value_str)`                                  -> `CmGen.CliRules.update_decl_value`
  * the inner loop `for decl in valid_decls:` of `process_nodes_recursive`    -> `select_loop`
  * the `isinstance(node, QualifiedRule)` branch of its main loop             -> `rule_body`
  * the main loop `for node in node_list:`, its `isinstance(node, AtRule)` branch and the nested call
                                                                              -> `process_node` / `process_nodes` (mutual),
                                                                                 `process_top` (the same loop run on the stylesheet)
  * the pair-logic calls that come after a state update inside the `try`      -> `late_calls`

`CmProps/C08rules.lean` proves them equal to the model's `lastDecl`, `processRule`, `processNode` / `processNodes`
(`CmModel/Cli.lean`).  The rules below are the trusted part (that they render Python faithfully is assumed; that what they
produce is the hand-written model is proved).

Abstraction (the same as translate/cliresolve.py): tinycss2 objects are the model's `Node` / `Item` / `Decl`.
  * The function's parameters, by position: 0 the node list, 1 `default_bg` ↦ `cfg.defaultBg`, 2 `stats`, 3 `file_path`
    (only `.name` is read, into the "file" key of the detail dicts, which the model does not carry: ignored), 4 `variables`,
    5 `mode`, 6 `premium` (both fixed in `cfg.pairEval`), 7 `rule_declarations`.  The three mutable objects `stats`,
    `variables`, `rule_declarations` are the fields of ONE threaded record `st : St` (counters + detail lists, `st.vars`,
    `st.rootDecls`).  `if p is None: p = {}` for a default-`None` dictionary parameter: nothing (the parameter is explicit).
  * `for node in node_list: if isinstance(node, QualifiedRule): A elif isinstance(node, AtRule): B` ↦ a structural recursion
    over `List Node` (`process_nodes`), mutual with `process_node` which matches on the node: `.rule sel items` ↦ A (generated
    separately as `rule_body`, it must not contain the recursive call), `.at kw prelude body` ↦ B, anything else is returned
    unchanged.  Both return the rewritten node(s) and the threaded state, in `Except St` (`.error st` = an exception left the
    function; `st` is the state at that moment).  `.at` stands for an at-rule with a non-empty block (`node.content` as a
    condition ↦ `true`); at-rules without a block are `.other` in the encoding, on which the code does nothing either.
  * `top : Option Nat`: `some i` = the node is the stylesheet's top-level node number i (`id(node)` of a live top-level
    object ↦ its index); `none` = the node came out of `tinycss2.parse_rule_list` (a fresh object, never a key of
    `rule_declarations`).  `rule_declarations.get(id(node))` ↦ `match top with | some i' => getRoot st i' | none => none`.
    `process_nodes` is the loop for a nested list: it passes `none`; `process_top` is the same loop for the stylesheet
    itself (the call in `main`): it passes `some i'` for node number i'.
  * A rule node is its selector `node'sel` (`serialize_prelude(node.prelude)`, the helper must be
    `tinycss2.serialize(x).strip()`) and its declaration list `node'items`
    (`tinycss2.parse_declaration_list(node.content, skip_whitespace=False, skip_comments=False)` ↦ `node'items`).
    `x = <optional>; if x is None: x = E` ↦ `let x := match x with | some v' => v' | none => E`.
    The value returned for the rule is the list the final serialisation will use for it: the name bound from
    `rule_declarations.get(..)` (`declarations`) when `top` is `some _` (main's post-pass serialises the shared list into
    `rule.content`), `node'items` otherwise.
  * `[d for d in L if isinstance(d, Declaration)]` ↦ the `.decl` items of L, each remembered with its index in L (a
    Declaration *object* ↦ `(index, Decl)`).  `for decl in <that>: BODY` ↦ a structural recursion over L carrying the
    index and the names BODY assigns (`select_loop`); `x = decl` ↦ `let x := some (j', decl)`.  `break`/`continue`: outside.
  * `decl.lower_name` / `decl.name` ↦ `.lowerName` / `.name`;  `a == b` on strings ↦ `a = b`;  "lit" ↦ `"lit".toList`.
  * `if x:` / `A if x else B` with x an optional declaration ↦ `match x with | some x => … | none => …`.
  * `extract_color_from_decl(d)` (helper body must be `tinycss2.serialize(decl.value).strip()`) ↦ `strip env d.2.value`.
  * `resolve_variable(x, variables) or x` ↦ `resolveOr env st.vars x` (tied to the source by `source_resolve_or`, C08resolve).
  * Pair logic = the oracle `cfg.pairEval`.  `p = ColorPair(T, B)` (inside a `try` with one `except Exception`) ↦
    `let r' := cfg.pairEval T B` and **`if r'.raised then ⟦handler; rest after the try⟧ else …`** with the state as it is at
    that statement.  Absorbed into `r'` (these expressions are C01/C05/C14's subject and are compared dynamically):
      `p.is_valid` ↦ `r'.valid`;
      `calculate_contrast_ratio(p.text.rgb, p.bg.rgb) >= (7.0 if premium else 4.5)` (through local names; exactly `>=` and these
        literals) ↦ `r'.meets`;
      `get_wcag_level(p.text.rgb, p.bg.rgb, large=False)` ↦ `r'.origLevel`;
      `a, b = p.make_readable(mode=mode, very_readable=premium)` ↦ `let a := r'.tuned`, `let b := r'.ok`;
      `q = ColorPair(a, B)` (a the tuned colour, B the same background), `get_wcag_level(q.text.rgb, q.bg.rgb, large=False)` ↦ `r'.newLevel`;
      `r'.raised` = "one of these calls raised".  An absorbed call that comes *before any state update* (a `stats[..]`
      update, `update_decl_value`, an assignment into a dict, re-assignment of a local that exists before the `try`) needs no
      test of its own: the handler would run on the same state as at the pair's construction.  An absorbed call *after* a state
      update ↦ `if late T B then ⟦handler; rest⟧ else …` on the state at that point; `late` is a second oracle ("a late
      pair-logic call raised"), the model's `PairResult` has no counterpart, the theorems are stated for `late = fun _ _ => false`;
      the late calls are listed in `late_calls`.
    Any other call inside the `try` that may raise (`tinycss2.serialize`) is outside the subset.
  * `stats["k"] += n` ↦ `let st := { st with k := st.k + n }`;  `stats["failed_details"].append({...})` ↦
    `let st := { st with failedDetails := {selector, text, bg, invalid} :: st.failedDetails }` (newest first) where `invalid`
    := the literal head of "reason" contains "Invalid colors" (`str(e)` ↦ false: messages are not modelled); keys "file",
    "contrast" are not in the model; `stats["fixed_details"].append({...})` ↦ `Fixed` with selector, bg, original_text,
    tuned_text, original_level, new_level.  Unknown or missing keys: outside.
  * `"var(" in s` ↦ `containsVar s`;  `re.search(r"var\\((--[\\w-]+)\\)", s)` (this literal only) ↦ `searchVarSimple env s`;
    `m.group(1)` ↦ the name;  `if m and m.group(1) in variables:` ↦ `match m with | some m => match lookupVar st.vars m with
    | some d' => A | none => B | none => B`;  `variables[m.group(1)]` inside A ↦ `d'`.
  * `update_decl_value(D, v)`: D a declaration `(j, _)` of the list L ↦ `let L := setDeclValue L j v`, and because L may be
    the shared list object of this top-level rule: `let st := match top with | some i' => (match getRoot st i' with | some _
    => setRoot st i' L | none => st) | none => st`;  D = `vd["decl"]` (a custom property's definition) ↦
    `let st := match getRoot st vd.rule with | some its' => setRoot st vd.rule (setDeclValue its' vd.item v) | none => st`
    and L is read again (`let L := match top with | some i' => (getRoot st i').getD L | none => L`).
    `setDeclValue` applies, at an index, what `update_decl_value` is translated to (`source_update_decl_value`).
    `vd["value"] = v` ↦ `let st := { st with vars := st.vars.map fun kv' => if kv'.1 = name then (name, { kv'.2 with value := v }) else kv' }`.
  * `s = tinycss2.serialize(L)` outside a `try` ↦ `if !itemsSerialisable L then .error st else …` (L a declaration list) or
    `if !(L.all fun n' => match n' with | .other _ ok' => ok' | _ => true) then .error st else …` (L a node list);
    `node.content = tinycss2.parse_component_value_list(s)` ↦ `let node'items := L` / `let node'body := L`.
  * `tinycss2.parse_rule_list(node.content, skip_whitespace=False, skip_comments=False)` ↦ `node'body`; the recursive call must
    pass every other parameter through unchanged ↦ `match process_nodes env cfg late st node'body with | .error e' => .error e'
    | .ok (L, st) => …`.
  * In `update_decl_value`: `[t for t in d.value if t.type == "comment"]` ↦ `d.comments`; `tinycss2.parse_component_value_list(s)`
    ↦ `s` (a `Decl`'s value is its serialisation); `+` ↦ `++`; `d.value = e` ↦ `{ d with value := e }`.
Statements after an `if` are copied behind every branch.  Ignored: docstrings, comments, `pass`, `import re`, print / logging /
click.echo calls whose value is discarded.  Anything else: `-- <function>: outside the translated subset (<reason>)`.
"""
import ast
import os
import re as _re

from common import LEAN, REPO
from translate.leaves import Unsupported
from translate.cliresolve import lean_str, noise, atom, name_of, is_none, find_fn
from translate.cliresolve import lname as _lname

SRC = os.path.join("src", "cm_colors", "cli", "main.py")
OUT = os.path.join(LEAN, "CmGen", "CliRules.lean")
SIMPLE_PATTERN = r"var\((--[\w-]+)\)"
COUNTERS = ("accessible", "tuned", "failed")
FAILED_KEYS = {"selector": "selector", "text": "text", "bg": "bg"}
FIXED_KEYS = {"selector": ("selector", "S"), "bg": ("bg", "S"), "original_text": ("originalText", "S"), "tuned_text": ("tunedText", "S"),
              "original_level": ("originalLevel", "LVL"), "new_level": ("newLevel", "LVL")}
ALL_OK = "fun n' => match n' with | .other _ ok' => ok' | _ => true"


def lname(n):
    return n + "_" if n in ("st", "top", "late", "cfg", "rest", "its") else _lname(n)


class EndTry:
    """marks the end of a `try` body in a statement list"""


def kwargs_false(call, names):
    kw = {k.arg: k.value for k in call.keywords}
    return set(kw) == set(names) and all(isinstance(v, ast.Constant) and v.value is False for v in kw.values())


def helper_shape(tree, fname, attr):
    """is `fname(x)` exactly `return tinycss2.serialize(x[.attr]).strip()`?"""
    fns = [x for x in tree.body if isinstance(x, ast.FunctionDef) and x.name == fname]
    if len(fns) != 1 or len(fns[0].args.args) != 1 or fns[0].args.defaults:
        return False
    body = [x for x in fns[0].body if not noise(x)]
    if len(body) != 1 or not isinstance(body[0], ast.Return):
        return False
    v = body[0].value
    if not (isinstance(v, ast.Call) and isinstance(v.func, ast.Attribute) and v.func.attr == "strip" and not v.args and not v.keywords):
        return False
    c = v.func.value
    if not (isinstance(c, ast.Call) and isinstance(c.func, ast.Attribute) and c.func.attr == "serialize" and name_of(c.func.value) == "tinycss2"
            and len(c.args) == 1 and not c.keywords):
        return False
    a = c.args[0]
    p = fns[0].args.args[0].arg
    if attr is None:
        return name_of(a) == p
    return isinstance(a, ast.Attribute) and a.attr == attr and name_of(a.value) == p


class Body:
    """statements of the loop body in continuation style; a block is a Lean term of type `Except St (… × St)`"""

    def __init__(self, tree, fn, roles):
        self.tree, self.fn, self.roles = tree, fn, roles     # roles: python parameter name -> role
        self.env = {}            # python name -> (lean text, type)
        self.guard = {}          # source text of a key -> lean name of the VarDef found under it
        self.handler = None      # (handler statements, name of the exception) while inside a `try`
        self.pre_try = set()
        self.dirty = False       # a state update happened since the pair was constructed
        self.pair = None         # (lean text of the text colour, of the background)
        self.tuned = None        # python name bound to the tuned colour
        self.decls = None        # python name of the declaration list of the rule
        self.node = None         # python name of the loop variable
        self.kind = None         # "rule" / "at"
        self.late_calls = {}
        self.origin = {}         # python name of an optional declaration -> python name of the list it was selected from
        self.aux = []
        self.cnt = 0

    # ------------------------------------------------------------------ context
    def snap(self):
        return (dict(self.env), dict(self.guard), self.handler, set(self.pre_try), self.dirty, self.pair, self.tuned, self.decls)

    def restore(self, s):
        self.env, self.guard, self.handler, self.pre_try, self.dirty, self.pair, self.tuned, self.decls = \
            dict(s[0]), dict(s[1]), s[2], set(s[3]), s[4], s[5], s[6], s[7]

    def fresh(self, p):
        self.cnt += 1
        return "%s'%d" % (p, self.cnt)

    def ty(self, name):
        return self.env[name][1] if name in self.env else None

    def field(self, which):
        return self.env[self.node + "'" + which][0]

    # ------------------------------------------------------------------ expressions
    def typed(self, n, want):
        t, ty = self.expr(n)
        if ty != want:
            raise Unsupported("expected %s, got %s: %s" % (want, ty if isinstance(ty, str) else ty[0], ast.unparse(n)[:60]))
        return t

    def rgb_pair(self, args):
        """`p.text.rgb, p.bg.rgb` -> the python name p"""
        if len(args) != 2:
            return None
        ps = []
        for a, side in zip(args, ("text", "bg")):
            if not (isinstance(a, ast.Attribute) and a.attr == "rgb" and isinstance(a.value, ast.Attribute) and a.value.attr == side
                    and isinstance(a.value.value, ast.Name)):
                return None
            ps.append(a.value.value.id)
        return ps[0] if ps[0] == ps[1] else None

    def expr(self, n):
        if isinstance(n, ast.Name):
            if n.id not in self.env:
                raise Unsupported("name `%s` of unknown type" % n.id)
            return self.env[n.id]
        if isinstance(n, ast.Constant):
            if n.value is None:
                return "none", "NONE"
            if isinstance(n.value, bool):
                return ("true" if n.value else "false"), "B"
            if isinstance(n.value, str):
                return lean_str(n.value) + ".toList", "S"
            if isinstance(n.value, (int, float)):
                return repr(n.value), ("NUM", n.value)
            raise Unsupported("constant %r" % (n.value,))
        if isinstance(n, ast.UnaryOp) and isinstance(n.op, ast.Not):
            return "!" + atom(self.cond(n.operand)), "B"
        if isinstance(n, ast.BoolOp):
            if isinstance(n.op, ast.Or) and len(n.values) == 2 and isinstance(n.values[0], ast.Call) and name_of(n.values[0].func) == "resolve_variable":
                c = n.values[0]
                if len(c.args) != 2 or c.keywords:
                    raise Unsupported("call site `%s`" % ast.unparse(c)[:60])
                a = self.typed(c.args[0], "S")
                if self.expr(c.args[1])[1] != "VARS":
                    raise Unsupported("resolve_variable is not given the `variables` dictionary")
                if self.typed(n.values[1], "S") != a:
                    raise Unsupported("`resolve_variable(a, …) or b` with b different from a")
                return "resolveOr env st.vars %s" % atom(a), "S"
            op = " || " if isinstance(n.op, ast.Or) else " && "
            return "(" + op.join(atom(self.cond(v)) for v in n.values) + ")", "B"
        if isinstance(n, ast.Compare) and len(n.ops) == 1:
            return self.compare(n.left, n.ops[0], n.comparators[0])
        if isinstance(n, ast.IfExp):
            return self.ifexp(n)
        if isinstance(n, ast.Call):
            return self.call(n)
        if isinstance(n, ast.Attribute):
            return self.attribute(n)
        if isinstance(n, ast.Subscript):
            return self.subscript(n)
        if isinstance(n, ast.JoinedStr):
            head = n.values[0].value if n.values and isinstance(n.values[0], ast.Constant) and isinstance(n.values[0].value, str) else ""
            return "", ("FSTR", head)
        if isinstance(n, ast.ListComp):
            return self.listcomp(n)
        raise Unsupported("expression " + ast.unparse(n)[:60])

    def cond(self, n):
        """a Lean Bool for the truth value of n"""
        if isinstance(n, ast.Attribute) and n.attr == "content" and self.ty(name_of(n.value)) == "ATRULE":
            return "true"
        t, ty = self.expr(n)
        if ty == "B":
            return t
        if ty == "S":
            return "!%s.isEmpty" % atom(t)
        if ty in ("ODECL", "OM1", "OITEMS"):
            return "%s.isSome" % atom(t)
        raise Unsupported("truth value of %s" % (ty if isinstance(ty, str) else ty[0]))

    def compare(self, a, op, b):
        neg = isinstance(op, (ast.NotIn, ast.IsNot, ast.NotEq))
        if isinstance(op, (ast.In, ast.NotIn)):
            if isinstance(a, ast.Constant) and isinstance(a.value, str):
                if a.value != "var(":
                    raise Unsupported("substring test for %r (only \"var(\" has a model function)" % a.value)
                t = "containsVar %s" % atom(self.typed(b, "S"))
            elif isinstance(b, ast.Tuple):
                x = self.typed(a, "S")
                if not b.elts or not all(isinstance(e, ast.Constant) and isinstance(e.value, str) for e in b.elts):
                    raise Unsupported("membership in a tuple that is not made of string literals")
                t = "(" + " || ".join("%s = %s.toList" % (x, lean_str(e.value)) for e in b.elts) + ")"
            else:
                x = self.typed(a, "S")
                if self.expr(b)[1] != "VARS":
                    raise Unsupported("membership in " + ast.unparse(b)[:30])
                t = "(lookupVar st.vars %s).isSome" % atom(x)
            return ("!" + atom(t) if neg else t), "B"
        if isinstance(op, (ast.Is, ast.IsNot)) and is_none(b):
            t, ty = self.expr(a)
            if ty not in ("ODECL", "OM1", "OITEMS"):
                raise Unsupported("`is None` on %s" % (ty,))
            return "%s.%s" % (atom(t), "isSome" if neg else "isNone"), "B"
        if isinstance(op, (ast.Eq, ast.NotEq)):
            t = "decide (%s = %s)" % (self.typed(a, "S"), self.typed(b, "S"))
            return ("!" + atom(t) if neg else t), "B"
        ta, tb = self.expr(a)[1], self.expr(b)[1]
        if ta == "CONTRAST" and tb == "TARGET":
            if isinstance(op, ast.GtE):
                return "r'.meets", "B"
            raise Unsupported("`contrast %s target`: the oracle's `meets` is `contrast >= target`" % type(op).__name__)
        raise Unsupported("comparison " + ast.unparse(ast.Compare(a, [op], [b]))[:60])

    def ifexp(self, n):
        # the target ratio
        if isinstance(n.test, ast.Name) and self.ty(n.test.id) == "PREMIUM" and isinstance(n.body, ast.Constant) and isinstance(n.orelse, ast.Constant):
            if (n.body.value, n.orelse.value) == (7.0, 4.5) and isinstance(n.body.value, float) and isinstance(n.orelse.value, float):
                return "", "TARGET"
            raise Unsupported("target ratio `%s` (the oracle's `meets` is for 7.0 if premium else 4.5)" % ast.unparse(n))
        if isinstance(n.test, ast.Name) and self.ty(n.test.id) == "ODECL":
            x = n.test.id
            s = self.snap()
            self.env[x] = (lname(x), "DECLREF")
            a, ta = self.expr(n.body)
            self.restore(s)
            b, tb = self.expr(n.orelse)
            if ta != tb or ta not in ("S", "B"):
                raise Unsupported("branches of `%s` have types %s / %s" % (ast.unparse(n)[:40], ta, tb))
            return "(match %s with | some %s => %s | none => %s)" % (self.env[x][0], lname(x), a, b), ta
        c = self.cond(n.test)
        a, ta = self.expr(n.body)
        b, tb = self.expr(n.orelse)
        if ta != tb or ta not in ("S", "B"):
            raise Unsupported("branches of `%s`" % ast.unparse(n)[:40])
        return "(if %s then %s else %s)" % (c, a, b), ta

    def attribute(self, n):
        v = n.value
        if isinstance(v, ast.Name):
            ty = self.ty(v.id)
            t = self.env[v.id][0] if v.id in self.env else None
            if ty in ("DECL", "DECLREF"):
                d = t if ty == "DECL" else "%s.2" % atom(t)
                if n.attr == "name":
                    return "%s.name" % d, "S"
                if n.attr == "lower_name":
                    return "%s.lowerName" % d, "S"
                raise Unsupported("attribute .%s of a declaration" % n.attr)
            if ty == "ATRULE" and n.attr == "lower_at_keyword":
                return self.field("kw"), "S"
            if ty == "PAIR" and n.attr == "is_valid":
                return "r'.valid", "B"
            if ty == "FILE" and n.attr == "name":
                return "", "IGNORED"
        raise Unsupported("attribute " + ast.unparse(n)[:50])

    def subscript(self, n):
        k = n.slice
        if isinstance(k, ast.Constant) and isinstance(k.value, str):
            t, ty = self.expr(n.value)
            if isinstance(ty, tuple) and ty[0] == "VD":
                if k.value == "value":
                    return "%s.value" % atom(t), "S"
                if k.value == "decl":
                    return "", ("VDDECL", t)
            raise Unsupported("key %r of %s" % (k.value, ty if isinstance(ty, str) else ty[0]))
        if isinstance(n.value, ast.Name) and self.ty(n.value.id) == "VARS":
            key = ast.unparse(k)
            if key in self.guard:
                return self.guard[key]
            raise Unsupported("subscript `%s` outside `if … in variables:` (may raise KeyError)" % ast.unparse(n)[:50])
        raise Unsupported("subscript " + ast.unparse(n)[:50])

    def listcomp(self, n):
        if len(n.generators) == 1 and not n.generators[0].is_async and isinstance(n.generators[0].target, ast.Name) and len(n.generators[0].ifs) == 1:
            g = n.generators[0]
            v = g.target.id
            c = g.ifs[0]
            if name_of(n.elt) == v and isinstance(c, ast.Call) and name_of(c.func) == "isinstance" and len(c.args) == 2 and name_of(c.args[0]) == v \
                    and name_of(c.args[1]) == "Declaration" and isinstance(g.iter, ast.Name) and self.ty(g.iter.id) == "ITEMS":
                return "", ("DECLS_OF", g.iter.id)
        raise Unsupported("comprehension " + ast.unparse(n)[:60])

    def call(self, n):
        f = n.func
        if isinstance(f, ast.Name):
            fn = f.id
            if fn == "ColorPair" and len(n.args) == 2 and not n.keywords:
                a, b = self.typed(n.args[0], "S"), self.typed(n.args[1], "S")
                if self.pair is None:
                    return "", ("NEWORACLE", a, b)
                if name_of(n.args[0]) == self.tuned and self.tuned is not None and b == self.pair[1]:
                    return "", "NEWPAIR"
                raise Unsupported("a second ColorPair that is not (tuned colour, the same background)")
            if fn == "calculate_contrast_ratio" and not n.keywords:
                if self.ty(self.rgb_pair(n.args)) == "PAIR":
                    return "", "CONTRAST"
                raise Unsupported("calculate_contrast_ratio is not applied to (pair.text.rgb, pair.bg.rgb)")
            if fn == "get_wcag_level":
                p = self.ty(self.rgb_pair(n.args))
                if not kwargs_false(n, ["large"]) or p not in ("PAIR", "NEWPAIR"):
                    raise Unsupported("get_wcag_level is not called as (p.text.rgb, p.bg.rgb, large=False)")
                return ("r'.origLevel" if p == "PAIR" else "r'.newLevel"), "LVL"
            if fn == "str" and len(n.args) == 1 and not n.keywords and self.ty(name_of(n.args[0])) == "EXC":
                return "", ("FSTR", "")
            if len(n.args) == 1 and not n.keywords:
                a = n.args[0]
                if isinstance(a, ast.Attribute) and a.attr == "prelude" and self.ty(name_of(a.value)) == "RULE":
                    if not helper_shape(self.tree, fn, None):
                        raise Unsupported("`%s` is not `tinycss2.serialize(x).strip()`" % fn)
                    return self.field("sel"), "S"
                if isinstance(a, ast.Name) and self.ty(a.id) in ("DECLREF", "DECL"):
                    if not helper_shape(self.tree, fn, "value"):
                        raise Unsupported("`%s` is not `tinycss2.serialize(decl.value).strip()`" % fn)
                    t = self.env[a.id][0]
                    return "strip env %s.value" % (t if self.ty(a.id) == "DECL" else atom(t) + ".2"), "S"
            raise Unsupported("call " + ast.unparse(n)[:60])
        if isinstance(f, ast.Attribute):
            obj, meth = f.value, f.attr
            if name_of(obj) == "re" and "re" not in self.env:
                if meth == "search" and len(n.args) == 2 and not n.keywords and isinstance(n.args[0], ast.Constant):
                    if n.args[0].value != SIMPLE_PATTERN:
                        raise Unsupported("regular expression %r has no model function here" % (n.args[0].value,))
                    return "searchVarSimple env %s" % atom(self.typed(n.args[1], "S")), "OM1"
                raise Unsupported("re.%s" % meth)
            if name_of(obj) == "tinycss2" and "tinycss2" not in self.env:
                if meth == "parse_declaration_list" and len(n.args) == 1 and kwargs_false(n, ["skip_whitespace", "skip_comments"]):
                    a = n.args[0]
                    if isinstance(a, ast.Attribute) and a.attr == "content" and self.ty(name_of(a.value)) == "RULE":
                        return self.field("items"), "ITEMS"
                if meth == "parse_rule_list" and len(n.args) == 1 and kwargs_false(n, ["skip_whitespace", "skip_comments"]):
                    a = n.args[0]
                    if isinstance(a, ast.Attribute) and a.attr == "content" and self.ty(name_of(a.value)) == "ATRULE":
                        return self.field("body"), "NODES0"
                if meth == "serialize" and len(n.args) == 1 and not n.keywords and isinstance(n.args[0], ast.Name):
                    ty = self.ty(n.args[0].id)
                    if ty in ("ITEMS", "NODES"):
                        return "", ("SER", ty, n.args[0].id)
                if meth == "parse_component_value_list" and len(n.args) == 1 and not n.keywords:
                    ty = self.expr(n.args[0])[1]
                    if isinstance(ty, tuple) and ty[0] == "SER":
                        return "", ("PARSED",) + ty[1:]
                raise Unsupported("call " + ast.unparse(n)[:70])
            if isinstance(obj, ast.Name):
                ty = self.ty(obj.id)
                if ty == "RMAP" and meth == "get" and len(n.args) == 1 and not n.keywords:
                    k = n.args[0]
                    if isinstance(k, ast.Call) and name_of(k.func) == "id" and len(k.args) == 1 and name_of(k.args[0]) == self.node and self.kind == "rule":
                        return "(match top with | some i' => getRoot st i' | none => none)", "OITEMS"
                    raise Unsupported("key of `%s.get` is not id(<the loop's rule>)" % obj.id)
                if ty == "M1" and meth == "group" and len(n.args) == 1 and isinstance(n.args[0], ast.Constant) and n.args[0].value == 1 \
                        and not isinstance(n.args[0].value, bool):
                    return self.env[obj.id][0], "S"
                if ty == "OM1" and meth == "group":
                    raise Unsupported("`.group` on a match that may be None")
                if ty == "PAIR" and meth == "make_readable" and not n.args:
                    kw = {k.arg: k.value for k in n.keywords}
                    if set(kw) == {"mode", "very_readable"} and self.ty(name_of(kw["mode"])) == "MODE" and self.ty(name_of(kw["very_readable"])) == "PREMIUM":
                        return "", "TUNEPAIR"
                    raise Unsupported("make_readable is not called as (mode=mode, very_readable=premium)")
        raise Unsupported("call " + ast.unparse(n)[:60])

    # ------------------------------------------------------------------ statements
    def finish(self):
        if self.kind == "rule":
            items = self.field("items")
            if self.decls is not None and self.ty(self.decls) == "ITEMS":
                return ".ok ((match top with | some _ => %s | none => %s), st)" % (self.env[self.decls][0], items)
            return ".ok (%s, st)" % items
        return ".ok (.at %s %s %s, st)" % (self.field("kw"), self.field("prelude"), self.field("body"))

    def after_try(self, rest):
        for i, s in enumerate(rest):
            if isinstance(s, EndTry):
                return list(rest[i + 1:])
        raise Unsupported("internal: no end of try")

    def handle(self, rest, ind):
        """the handler, then what follows the `try`, on the current state"""
        stmts, exc = self.handler
        s = self.snap()
        self.handler = None
        if exc:
            self.env[exc] = ("", "EXC")
        t = self.block(list(stmts) + self.after_try(rest), ind)
        self.restore(s)
        return t

    def oracle_guard(self, node, what, rest, ind, cont):
        """an absorbed call: a late one gets its own raise test"""
        pad = "  " * ind
        if self.handler is None:
            raise Unsupported("pair logic outside a `try` (its exceptions would leave the function)")
        if not self.dirty:
            return cont(ind)
        self.late_calls[(node.lineno, node.col_offset)] = what
        h = self.handle(rest, ind + 1)
        return "%sif late %s %s then\n%s\n%selse\n%s" % (pad, atom(self.pair[0]), atom(self.pair[1]), h, pad, cont(ind + 1))

    def set_dirty(self):
        if self.handler is not None:
            self.dirty = True

    def two(self, A, B, rest, ind, bind=None):
        s = self.snap()
        if bind:
            self.env[bind[0]] = bind[1]
        a = self.block(list(A) + rest, ind)
        self.restore(s)
        b = self.block(list(B) + rest, ind)
        self.restore(s)
        return a, b

    def conj(self, tests, A, B, rest, ind):
        """`if t1 and t2 and …: A else: B` with narrowing conjuncts"""
        pad = "  " * ind
        if not tests:
            return self.block(list(A) + rest, ind)
        t, more = tests[0], tests[1:]
        s = self.snap()
        if isinstance(t, ast.Name) and self.ty(t.id) in ("ODECL", "OM1"):
            x = t.id
            cur = self.env[x][0]
            self.env[x] = (lname(x), "DECLREF" if self.ty(x) == "ODECL" else "M1")
            a = self.conj(more, A, B, rest, ind + 1)
            self.restore(s)
            b = self.block(list(B) + rest, ind + 1)
            self.restore(s)
            return "%smatch %s with\n%s| some %s =>\n%s\n%s| none =>\n%s" % (pad, cur, pad, lname(x), a, pad, b)
        if isinstance(t, ast.Compare) and len(t.ops) == 1 and isinstance(t.ops[0], ast.In) and isinstance(t.comparators[0], ast.Name) \
                and self.ty(t.comparators[0].id) == "VARS":
            key = self.typed(t.left, "S")
            d = self.fresh("d")
            self.guard[ast.unparse(t.left)] = (d, ("VD", key))
            a = self.conj(more, A, B, rest, ind + 1)
            self.restore(s)
            b = self.block(list(B) + rest, ind + 1)
            self.restore(s)
            return "%smatch lookupVar st.vars %s with\n%s| some %s =>\n%s\n%s| none =>\n%s" % (pad, atom(key), pad, d, a, pad, b)
        c = self.cond(t)
        a = self.conj(more, A, B, rest, ind + 1)
        self.restore(s)
        b = self.block(list(B) + rest, ind + 1)
        self.restore(s)
        return "%sif %s then\n%s\n%selse\n%s" % (pad, c, a, pad, b)

    def if_stmt(self, s, rest, ind):
        pad = "  " * ind
        t = s.test
        # x = <optional>; if x is None: x = E
        if isinstance(t, ast.Compare) and len(t.ops) == 1 and isinstance(t.ops[0], ast.Is) and is_none(t.comparators[0]) and isinstance(t.left, ast.Name):
            x = t.left.id
            body = [b for b in s.body if not noise(b)]
            if self.ty(x) in ("VARS", "RMAP") and not s.orelse and len(body) == 1 and isinstance(body[0], ast.Assign) and len(body[0].targets) == 1 \
                    and name_of(body[0].targets[0]) == x and isinstance(body[0].value, ast.Dict) and not body[0].value.keys:
                return self.block(rest, ind)
            if self.ty(x) == "OITEMS" and not s.orelse and len(body) == 1 and isinstance(body[0], ast.Assign) and len(body[0].targets) == 1 \
                    and name_of(body[0].targets[0]) == x:
                e = self.typed(body[0].value, "ITEMS")
                cur = self.env[x][0]
                self.env[x] = (lname(x), "ITEMS")
                return "%slet %s := match %s with | some v' => v' | none => %s\n" % (pad, lname(x), cur, e) + self.block(rest, ind)
        tests = list(t.values) if isinstance(t, ast.BoolOp) and isinstance(t.op, ast.And) else [t]
        if isinstance(t, ast.UnaryOp) and isinstance(t.op, ast.Not) and isinstance(t.operand, ast.Name) and self.ty(t.operand.id) in ("ODECL", "OM1"):
            return self.conj([t.operand], s.orelse, s.body, rest, ind)
        return self.conj(tests, s.body, s.orelse, rest, ind)

    def details(self, d, which):
        if not (isinstance(d, ast.Dict) and all(isinstance(k, ast.Constant) and isinstance(k.value, str) for k in d.keys)):
            raise Unsupported("appended value is not a dict literal with string keys")
        items = dict(zip([k.value for k in d.keys], d.values))
        if len(items) != len(d.keys):
            raise Unsupported("a key occurs twice in the appended dict")
        out = []
        if which == "failed_details":
            if not {"selector", "text", "bg", "reason"} <= set(items) or not set(items) <= {"selector", "text", "bg", "reason", "file", "contrast"}:
                raise Unsupported("keys %s of a failed_details entry" % sorted(items))
            for k, f in FAILED_KEYS.items():
                out.append("%s := %s" % (f, self.typed(items[k], "S")))
            r, ty = self.expr(items["reason"])
            if ty == "S":
                inv = "Invalid colors" in items["reason"].value if isinstance(items["reason"], ast.Constant) else None
            elif isinstance(ty, tuple) and ty[0] == "FSTR":
                inv = "Invalid colors" in ty[1]
            else:
                inv = None
            if inv is None:
                raise Unsupported("\"reason\" is neither a literal, an f-string nor str(<the exception>)")
            out.append("invalid := %s" % ("true" if inv else "false"))
            if "contrast" in items and self.expr(items["contrast"])[1] != "CONTRAST":
                raise Unsupported("\"contrast\" is not the contrast ratio")
        else:
            if set(items) - {"file"} != set(FIXED_KEYS):
                raise Unsupported("keys %s of a fixed_details entry" % sorted(items))
            for k, (f, ty) in FIXED_KEYS.items():
                out.append("%s := %s" % (f, self.typed(items[k], ty)))
        if "file" in items and self.expr(items["file"])[1] != "IGNORED":
            raise Unsupported("\"file\" is not file_path.name")
        return "{ " + ", ".join(out) + " }"

    def write_through(self, pad):
        """the list may be the shared object of this top-level rule"""
        L = self.env[self.decls][0]
        return "%slet st := match top with | some i' => (match getRoot st i' with | some _ => setRoot st i' %s | none => st) | none => st\n" % (pad, L)

    def block(self, stmts, ind):
        pad = "  " * ind
        if not stmts:
            return pad + self.finish()
        s, rest = stmts[0], list(stmts[1:])
        if isinstance(s, EndTry):
            self.handler = None
            self.dirty = False
            return self.block(rest, ind)
        if noise(s):
            return self.block(rest, ind)
        if isinstance(s, ast.If):
            return self.if_stmt(s, rest, ind)
        if isinstance(s, ast.Try):
            if self.handler is not None:
                raise Unsupported("nested try")
            if s.orelse or s.finalbody or len(s.handlers) != 1 or name_of(s.handlers[0].type) != "Exception":
                raise Unsupported("`try` that is not `try: … except Exception [as e]: …`")
            self.handler = (list(s.handlers[0].body), s.handlers[0].name)
            self.pre_try = set(self.env)
            self.dirty = False
            return self.block(list(s.body) + [EndTry()] + rest, ind)
        if isinstance(s, ast.AugAssign):
            t = s.target
            if isinstance(s.op, ast.Add) and isinstance(t, ast.Subscript) and self.ty(name_of(t.value)) == "STATS" and isinstance(t.slice, ast.Constant) \
                    and t.slice.value in COUNTERS and isinstance(s.value, ast.Constant) and type(s.value.value) is int and s.value.value >= 0:
                self.set_dirty()
                k = t.slice.value
                return "%slet st := { st with %s := st.%s + %d }\n" % (pad, k, k, s.value.value) + self.block(rest, ind)
            raise Unsupported("statement `%s`" % ast.unparse(s)[:60])
        if isinstance(s, ast.Assign) and len(s.targets) == 1:
            return self.assign(s, s.targets[0], rest, ind)
        if isinstance(s, ast.Expr) and isinstance(s.value, ast.Call):
            return self.call_stmt(s.value, rest, ind)
        if isinstance(s, ast.For):
            return self.inner_loop(s, rest, ind)
        raise Unsupported("statement `%s`" % ast.unparse(s).split("\n")[0][:60])

    def assign(self, s, tg, rest, ind):
        pad = "  " * ind
        if isinstance(tg, ast.Tuple):
            if len(tg.elts) == 2 and all(isinstance(e, ast.Name) for e in tg.elts) and self.expr(s.value)[1] == "TUNEPAIR":
                a, b = tg.elts[0].id, tg.elts[1].id

                def cont(i):
                    self.env[a] = (lname(a), "S")
                    self.env[b] = (lname(b), "B")
                    self.tuned = a
                    p = "  " * i
                    return "%slet %s := r'.tuned\n%slet %s := r'.ok\n" % (p, lname(a), p, lname(b)) + self.block(rest, i)
                return self.oracle_guard(s.value, "make_readable", rest, ind, cont)
            raise Unsupported("statement `%s`" % ast.unparse(s)[:60])
        if isinstance(tg, ast.Subscript):
            k = tg.slice
            if isinstance(k, ast.Constant) and k.value == "value":
                t, ty = self.expr(tg.value)
                if isinstance(ty, tuple) and ty[0] == "VD":
                    v = self.typed(s.value, "S")
                    self.set_dirty()
                    return ("%slet st := { st with vars := st.vars.map fun (kv' : Str × VarDef) => if kv'.1 = %s then (%s, { kv'.2 with value := %s }) else kv' }\n"
                            % (pad, ty[1], ty[1], v)) + self.block(rest, ind)
            raise Unsupported("statement `%s`" % ast.unparse(s)[:60])
        if isinstance(tg, ast.Attribute):
            if tg.attr == "content" and name_of(tg.value) == self.node:
                ty = self.expr(s.value)[1]
                if isinstance(ty, tuple) and ty[0] == "PARSED":
                    what = {"ITEMS": "items", "NODES": "body"}[ty[1]]
                    if (what == "items") != (self.kind == "rule"):
                        raise Unsupported("`%s.content` is given a list of the wrong kind" % self.node)
                    key = self.node + "'" + what
                    src = self.env[ty[2]][0]
                    new = self.env[key][0]
                    self.set_dirty()
                    return "%slet %s := %s\n" % (pad, new, src) + self.block(rest, ind)
            raise Unsupported("statement `%s`" % ast.unparse(s)[:60])
        if not isinstance(tg, ast.Name):
            raise Unsupported("statement `%s`" % ast.unparse(s)[:60])
        x = tg.id
        if x in self.roles or x == self.node:
            raise Unsupported("assignment to `%s`" % x)
        if self.handler is not None and x in self.pre_try:
            self.dirty = True
        e, ty = self.expr(s.value)
        if isinstance(ty, tuple) and ty[0] == "NEWORACLE":
            if self.handler is None:
                raise Unsupported("ColorPair(...) outside a `try` (its exceptions would leave the function)")
            self.pair = (ty[1], ty[2])
            self.dirty = False
            h = self.handle(rest, ind + 1)
            self.env[x] = ("", "PAIR")
            return "%slet r' := cfg.pairEval %s %s\n%sif r'.raised then\n%s\n%selse\n%s" % (
                pad, atom(ty[1]), atom(ty[2]), pad, h, pad, self.block(rest, ind + 1))
        if ty in ("CONTRAST", "NEWPAIR") or (ty == "LVL" and isinstance(s.value, ast.Call)):
            def cont(i):
                self.env[x] = (lname(x) if ty == "LVL" else "", ty)
                return ("%slet %s := %s\n" % ("  " * i, lname(x), e) if ty == "LVL" else "") + self.block(rest, i)
            return self.oracle_guard(s.value, {"CONTRAST": "calculate_contrast_ratio", "NEWPAIR": "ColorPair(tuned, bg)", "LVL": "get_wcag_level(tuned, bg)" if e.endswith("newLevel") else "get_wcag_level(text, bg)"}[ty], rest, ind, cont)
        if isinstance(ty, tuple) and ty[0] == "SER":
            if self.handler is not None:
                raise Unsupported("tinycss2.serialize inside a `try`")
            L = self.env[ty[2]][0]
            self.env[x] = ("", ty)
            test = "itemsSerialisable %s" % L if ty[1] == "ITEMS" else "%s.all %s" % (atom(L), ALL_OK)
            return "%sif !(%s) then .error st else\n" % (pad, test) + self.block(rest, ind)
        if ty == "OITEMS" or (ty == "ITEMS" and isinstance(s.value, ast.Call)):
            if self.decls not in (None, x):
                raise Unsupported("two declaration lists (`%s`, `%s`)" % (self.decls, x))
            self.decls = x
        if ty == "NODES0":          # an alias: the recursion must be on the node's own body
            self.env[x] = (e, "NODES")
            return self.block(rest, ind)
        if ty in ("TARGET", "IGNORED") or (isinstance(ty, tuple) and ty[0] in ("DECLS_OF", "PARSED", "FSTR", "VD", "VDDECL")):
            self.env[x] = (e, ty)
            return self.block(rest, ind)
        if ty == "NONE":
            self.env[x] = (lname(x), "ODECL")
            return "%slet %s : Option (Nat × Decl) := none\n" % (pad, lname(x)) + self.block(rest, ind)
        if ty in ("S", "B", "OM1", "OITEMS", "ITEMS", "ODECL", "LVL"):
            self.env[x] = (lname(x), ty)
            return "%slet %s := %s\n" % (pad, lname(x), e) + self.block(rest, ind)
        raise Unsupported("assignment of a value of type %s to `%s`" % (ty if isinstance(ty, str) else ty[0], x))

    def call_stmt(self, c, rest, ind):
        pad = "  " * ind
        f = c.func
        # stats["…_details"].append({...})
        if isinstance(f, ast.Attribute) and f.attr == "append" and isinstance(f.value, ast.Subscript) and self.ty(name_of(f.value.value)) == "STATS" \
                and isinstance(f.value.slice, ast.Constant) and f.value.slice.value in ("failed_details", "fixed_details") and len(c.args) == 1 and not c.keywords:
            which = f.value.slice.value
            fld = "failedDetails" if which == "failed_details" else "fixedDetails"
            rec = self.details(c.args[0], which)
            self.set_dirty()
            return "%slet st := { st with %s := %s :: st.%s }\n" % (pad, fld, rec, fld) + self.block(rest, ind)
        if isinstance(f, ast.Name) and f.id == "update_decl_value" and len(c.args) == 2 and not c.keywords:
            if "update_decl_value" not in self.done:
                raise Unsupported("update_decl_value is not translated")
            v = self.typed(c.args[1], "S")
            t, ty = self.expr(c.args[0])
            self.set_dirty()
            if ty == "DECLREF":
                if self.decls is None or self.ty(self.decls) != "ITEMS" or self.origin.get(name_of(c.args[0])) != self.decls:
                    raise Unsupported("the declaration does not come from the rule's list")
                L = self.env[self.decls][0]
                out = "%slet %s := setDeclValue %s %s.1 %s\n" % (pad, lname(self.decls), L, atom(t), atom(v))
                self.env[self.decls] = (lname(self.decls), "ITEMS")
                return out + self.write_through(pad) + self.block(rest, ind)
            if isinstance(ty, tuple) and ty[0] == "VDDECL":
                d = ty[1]
                out = "%slet st := match getRoot st %s.rule with | some its' => setRoot st %s.rule (setDeclValue its' %s.item %s) | none => st\n" % (pad, d, d, d, atom(v))
                if self.decls is not None and self.ty(self.decls) == "ITEMS":
                    L = self.env[self.decls][0]
                    out += "%slet %s := match top with | some i' => (getRoot st i').getD %s | none => %s\n" % (pad, lname(self.decls), L, L)
                    self.env[self.decls] = (lname(self.decls), "ITEMS")
                return out + self.block(rest, ind)
            raise Unsupported("update_decl_value of " + ast.unparse(c.args[0])[:40])
        if isinstance(f, ast.Name) and f.id == self.fn.name:
            return self.rec_call(c, rest, ind)
        raise Unsupported("statement `%s`" % ast.unparse(c)[:60])

    def rec_call(self, c, rest, ind):
        pad = "  " * ind
        if self.kind != "at" or self.handler is not None:
            raise Unsupported("recursive call outside the at-rule branch")
        params = [a.arg for a in self.fn.args.args]
        if len(c.args) > len(params):
            raise Unsupported("too many arguments in the recursive call")
        given = dict(zip(params, c.args))
        for k in c.keywords:
            if k.arg is None or k.arg not in params or k.arg in given:
                raise Unsupported("keyword argument in the recursive call")
            given[k.arg] = k.value
        for p in params[1:]:
            if p not in given or name_of(given[p]) != p:
                raise Unsupported("the recursive call does not pass `%s` through" % p)
        a0 = given.get(params[0])
        if not (isinstance(a0, ast.Name) and self.ty(a0.id) == "NODES" and self.env[a0.id][0] == self.field("body")):
            raise Unsupported("the recursive call is not on the list parsed from the at-rule's content")
        x = a0.id
        body = self.env[x][0]
        self.env[x] = (lname(x), "NODES")
        return "%smatch process_nodes env cfg late st %s with\n%s| .error e' => .error e'\n%s| .ok (%s, st) =>\n" % (pad, body, pad, pad, lname(x)) + self.block(rest, ind + 1)

    def inner_loop(self, s, rest, ind):
        pad = "  " * ind
        if s.orelse or not isinstance(s.target, ast.Name) or not isinstance(s.iter, ast.Name):
            raise Unsupported("loop `%s`" % ast.unparse(s).split("\n")[0][:60])
        ty = self.ty(s.iter.id)
        if not (isinstance(ty, tuple) and ty[0] == "DECLS_OF"):
            raise Unsupported("loop over `%s`" % s.iter.id)
        src = ty[1]
        if src != self.decls:
            raise Unsupported("loop over the declarations of another list")
        v = s.target.id
        assigned = []
        for x in ast.walk(s):
            if isinstance(x, ast.Name) and isinstance(x.ctx, ast.Store) and x.id != v and x.id not in assigned:
                assigned.append(x.id)
        for x in assigned:
            if self.ty(x) != "ODECL":
                raise Unsupported("the loop assigns `%s`, which is not an optional declaration before it" % x)
        if not assigned:
            raise Unsupported("a loop that assigns nothing")
        sub = Loop(self.tree, self.fn, self.roles)
        sub.env = {x: (lname(x), "ODECL") for x in assigned}
        sub.env[v] = (lname(v), "DECL")
        sub.state = assigned
        sub.elem = v
        body = sub.block(list(s.body), 4)
        tup = "(" + ", ".join(lname(x) for x in assigned) + ")" if len(assigned) > 1 else lname(assigned[0])
        sty = " × ".join("Option (Nat × Decl)" for _ in assigned)
        self.aux.append("/-- `%s` of `process_nodes_recursive` (over the list the declarations were filtered from; `j'` = index in it) -/\n"
                        "def select_loop : List Item → Nat → %s → %s\n  | [], _, s' => s'\n  | d' :: rest', j', %s =>\n    select_loop rest' (j' + 1) (\n"
                        "      match d' with\n      | .decl %s =>\n%s\n      | .other _ _ => %s)\n"
                        % (" ".join(ast.unparse(s).split("\n")[0].split()), sty, sty, tup, lname(v), body, tup))
        out = "%slet s' := select_loop %s 0 %s\n" % (pad, self.env[src][0], tup)
        for i, x in enumerate(assigned):
            proj = "s'" if len(assigned) == 1 else "s'" + ".2" * i + (".1" if i < len(assigned) - 1 else "")
            out += "%slet %s := %s\n" % (pad, lname(x), proj)
            self.env[x] = (lname(x), "ODECL")
            self.origin[x] = src
        return out + self.block(rest, ind)

    done = ()


class Loop(Body):
    """body of the declaration loop: a term of the type of the carried names"""

    def finish(self):
        return "(" + ", ".join(lname(x) for x in self.state) + ")" if len(self.state) > 1 else lname(self.state[0])

    def assign(self, s, tg, rest, ind):
        pad = "  " * ind
        if isinstance(tg, ast.Name) and tg.id in self.state and name_of(s.value) == self.elem:
            return "%slet %s := some (j', %s)\n" % (pad, lname(tg.id), lname(self.elem)) + self.block(rest, ind)
        raise Unsupported("statement `%s` in the declaration loop" % ast.unparse(s)[:60])

    def call_stmt(self, c, rest, ind):
        raise Unsupported("statement `%s` in the declaration loop" % ast.unparse(c)[:60])

    def inner_loop(self, s, rest, ind):
        raise Unsupported("nested loop in the declaration loop")

    def if_stmt(self, s, rest, ind):
        pad = "  " * ind
        t = s.test
        if isinstance(t, ast.Compare) and len(t.ops) == 1 and isinstance(t.ops[0], ast.Eq):
            c = "%s = %s" % (self.typed(t.left, "S"), self.typed(t.comparators[0], "S"))
        else:
            c = self.cond(t)
        a, b = self.two(s.body, s.orelse, rest, ind + 1)
        return "%sif %s then\n%s\n%selse\n%s" % (pad, c, a, pad, b)


# ---------------------------------------------------------------------- update_decl_value
def gen_update(tree, done=()):
    node = find_fn(tree, "update_decl_value")
    a = node.args
    if a.vararg or a.kwarg or a.kwonlyargs or a.posonlyargs or len(a.args) != 2 or a.defaults:
        raise Unsupported("signature is not (decl, new_value_str)")
    d, v = [x.arg for x in a.args]
    env = {v: "TOKS"}
    lines = []

    def ex(n):
        if isinstance(n, ast.Name) and env.get(n.id) == "TOKS":
            return lname(n.id)
        if isinstance(n, ast.BinOp) and isinstance(n.op, ast.Add):
            return "%s ++ %s" % (atom(ex(n.left)), atom(ex(n.right)))
        if isinstance(n, ast.Call) and isinstance(n.func, ast.Attribute) and n.func.attr == "parse_component_value_list" and name_of(n.func.value) == "tinycss2" \
                and len(n.args) == 1 and not n.keywords:
            return ex(n.args[0])
        if isinstance(n, ast.ListComp) and len(n.generators) == 1 and isinstance(n.generators[0].target, ast.Name) and len(n.generators[0].ifs) == 1:
            g = n.generators[0]
            t = g.target.id
            c = g.ifs[0]
            if name_of(n.elt) == t and isinstance(g.iter, ast.Attribute) and g.iter.attr == "value" and name_of(g.iter.value) == d \
                    and isinstance(c, ast.Compare) and len(c.ops) == 1 and isinstance(c.ops[0], ast.Eq) and isinstance(c.left, ast.Attribute) \
                    and c.left.attr == "type" and name_of(c.left.value) == t and isinstance(c.comparators[0], ast.Constant) and c.comparators[0].value == "comment":
                return "%s.comments" % lname(d)
        raise Unsupported("expression " + ast.unparse(n)[:60])

    for s in node.body:
        if noise(s):
            continue
        if isinstance(s, ast.Assign) and len(s.targets) == 1 and isinstance(s.targets[0], ast.Name) and s.targets[0].id not in (d,):
            lines.append("  let %s := %s" % (lname(s.targets[0].id), ex(s.value)))
            env[s.targets[0].id] = "TOKS"
            continue
        if isinstance(s, ast.Assign) and len(s.targets) == 1 and isinstance(s.targets[0], ast.Attribute) and s.targets[0].attr == "value" \
                and name_of(s.targets[0].value) == d:
            lines.append("  let %s : Decl := { %s with value := %s }" % (lname(d), lname(d), ex(s.value)))
            continue
        raise Unsupported("statement `%s`" % ast.unparse(s).split("\n")[0][:60])
    return ("/-- `update_decl_value(%s, %s)`: the declaration object after the call -/\ndef update_decl_value (%s : Decl) (%s : Str) : Decl :=\n%s\n  %s\n"
            % (d, v, lname(d), lname(v), "\n".join(lines), lname(d))), 1


# ---------------------------------------------------------------------- process_nodes_recursive
ROLES = ["NODES", "DEFBG", "STATS", "FILE", "VARS", "MODE", "PREMIUM", "RMAP"]


def isinstance_of(t, var):
    if isinstance(t, ast.Call) and name_of(t.func) == "isinstance" and len(t.args) == 2 and not t.keywords and name_of(t.args[0]) == var \
            and isinstance(t.args[1], ast.Name):
        return t.args[1].id
    return None


def gen_rules(tree, done=()):
    fn = find_fn(tree, "process_nodes_recursive")
    a = fn.args
    if a.vararg or a.kwarg or a.kwonlyargs or a.posonlyargs or len(a.args) != len(ROLES):
        raise Unsupported("signature has not the 8 parameters (node_list, default_bg, stats, file_path, variables, mode, premium, rule_declarations)")
    params = [x.arg for x in a.args]
    roles = dict(zip(params, ROLES))
    defaults = dict(zip(params[len(params) - len(a.defaults):], a.defaults))
    base_env = {}
    for p, r in roles.items():
        base_env[p] = ("cfg.defaultBg", "S") if r == "DEFBG" else ("", r)
    stmts = [s for s in fn.body if not noise(s)]
    # the `if p is None: p = {}` idioms, then the loop
    loop = None
    for s in stmts:
        if isinstance(s, ast.If) and isinstance(s.test, ast.Compare) and len(s.test.ops) == 1 and isinstance(s.test.ops[0], ast.Is) \
                and is_none(s.test.comparators[0]) and roles.get(name_of(s.test.left)) in ("VARS", "RMAP") and not s.orelse and loop is None:
            body = [b for b in s.body if not noise(b)]
            p = name_of(s.test.left)
            if len(body) == 1 and isinstance(body[0], ast.Assign) and len(body[0].targets) == 1 and name_of(body[0].targets[0]) == p \
                    and isinstance(body[0].value, ast.Dict) and not body[0].value.keys and p in defaults and is_none(defaults[p]):
                continue
        if isinstance(s, ast.For) and loop is None and not s.orelse and isinstance(s.target, ast.Name) and name_of(s.iter) == params[0]:
            loop = s
            continue
        raise Unsupported("statement `%s` at the top of the function" % ast.unparse(s).split("\n")[0][:60])
    if loop is None:
        raise Unsupported("no loop over `%s`" % params[0])
    node = loop.target.id
    if node in roles:
        raise Unsupported("the loop variable shadows a parameter")
    body = [s for s in loop.body if not noise(s)]
    if len(body) != 1 or not isinstance(body[0], ast.If):
        raise Unsupported("the loop body is not one `if isinstance(...)` chain")
    branches = {}
    cur = body[0]
    while True:
        cls = isinstance_of(cur.test, node)
        if cls not in ("QualifiedRule", "AtRule") or cls in branches:
            raise Unsupported("branch `if %s` of the loop body" % ast.unparse(cur.test)[:60])
        branches[cls] = cur.body
        rest = [s for s in cur.orelse if not noise(s)]
        if not rest:
            break
        if len(rest) == 1 and isinstance(rest[0], ast.If):
            cur = rest[0]
            continue
        raise Unsupported("an `else` branch in the loop body")
    N = lname(node)
    texts, n = [], 0
    late = {}
    # --- the rule branch
    rb = Body(tree, fn, roles)
    rb.done = done
    rb.env = dict(base_env)
    rb.env[node] = ("", "RULE")
    rb.env[node + "'sel"] = (N + "'sel", "S")
    rb.env[node + "'items"] = (N + "'items", "ITEMS")
    rb.node, rb.kind = node, "rule"
    if "QualifiedRule" in branches:
        text = rb.block(list(branches["QualifiedRule"]), 1)
        texts += rb.aux
        n += len(rb.aux)
        texts.append("/-- the `isinstance(%s, QualifiedRule)` branch of the loop of `process_nodes_recursive` -/\n"
                     "def rule_body (env : CliEnv) (cfg : Cfg) (late : Str → Str → Bool) (top : Option Nat) (%s'sel : Str) (%s'items : List Item) (st : St) :\n"
                     "    Except St (List Item × St) :=\n%s\n" % (node, N, N, text))
        n += 1
        late.update(rb.late_calls)
        rule_arm = ("    match rule_body env cfg late top %s'sel %s'items st with\n    | .error e' => .error e'\n    | .ok (%s'items, st) => .ok (.rule %s'sel %s'items, st)"
                    % (N, N, N, N, N))
    else:
        rule_arm = "    .ok (.rule %s'sel %s'items, st)" % (N, N)
    # --- the at-rule branch
    ab = Body(tree, fn, roles)
    ab.done = done
    ab.env = dict(base_env)
    ab.env[node] = ("", "ATRULE")
    for fld in ("kw", "prelude", "body"):
        ab.env[node + "'" + fld] = (N + "'" + fld, "S" if fld != "body" else "NODES")
    ab.node, ab.kind = node, "at"
    at_text = ab.block(list(branches["AtRule"]), 2) if "AtRule" in branches else "    " + ab.finish()
    late.update(ab.late_calls)
    texts.append("mutual\n/-- the body of `for %s in %s:` (`top`: see the translator's docstring) -/\n"
                 "def process_node (env : CliEnv) (cfg : Cfg) (late : Str → Str → Bool) (top : Option Nat) (st : St) : Node → Except St (Node × St)\n"
                 "  | .rule %s'sel %s'items =>\n%s\n  | .at %s'kw %s'prelude %s'body =>\n%s\n  | .other t' ok' => .ok (.other t' ok', st)\n"
                 "/-- `for %s in %s:` over a nested list -/\n"
                 "def process_nodes (env : CliEnv) (cfg : Cfg) (late : Str → Str → Bool) (st : St) : List Node → Except St (List Node × St)\n"
                 "  | [] => .ok ([], st)\n  | %s :: rest' =>\n    match process_node env cfg late none st %s with\n    | .error e' => .error e'\n"
                 "    | .ok (%s, st) =>\n      match process_nodes env cfg late st rest' with\n      | .error e' => .error e'\n      | .ok (rest', st) => .ok (%s :: rest', st)\nend\n"
                 % (node, params[0], N, N, rule_arm, N, N, N, at_text, node, params[0], N, N, N, N))
    n += 2
    texts.append("/-- `for %s in %s:` over the stylesheet itself: the same loop, node number i' is `top = some i'` -/\n"
                 "def process_top (env : CliEnv) (cfg : Cfg) (late : Str → Str → Bool) : List Node → Nat → St → Except St (List Node × St)\n"
                 "  | [], _, st => .ok ([], st)\n  | %s :: rest', i', st =>\n    match process_node env cfg late (some i') st %s with\n    | .error e' => .error e'\n"
                 "    | .ok (%s, st) =>\n      match process_top env cfg late rest' (i' + 1) st with\n      | .error e' => .error e'\n      | .ok (rest', st) => .ok (%s :: rest', st)\n"
                 % (node, params[0], N, N, N, N))
    n += 1
    texts.append("/-- the pair-logic calls made after a state update inside the `try` (each is guarded by `late`) -/\ndef late_calls : List String := [%s]\n"
                 % ", ".join(lean_str(late[k]) for k in sorted(late)))
    n += 1
    return "\n".join(texts), n


GENERATORS = [("update_decl_value", gen_update), ("process_nodes_recursive", gen_rules)]


def generate():
    texts, n = [], 0
    try:
        src = open(os.path.join(REPO, SRC), encoding="utf-8").read()
        tree = ast.parse(src)
    except Exception as e:  # noqa
        tree = None
        texts.append("-- main.py: outside the translated subset (%s)\n" % str(e).replace("\n", " ")[:300])
    done = []
    if tree is not None:
        for fn, g in GENERATORS:
            try:
                t, k = g(tree, tuple(done))
                texts.append(t)
                n += k
                done.append(fn)
            except Exception as e:  # noqa
                texts.append("-- %s: outside the translated subset (%s)\n" % (fn, (type(e).__name__ + ": " if not isinstance(e, Unsupported) else "")
                                                                             + str(e).replace("\n", " ")[:300]))
    out = ("import CmModel.Cli\n/-! GENERATED by harness/translate/clirules.py from src/cm_colors/cli/main.py — do not edit. -/\n"
           "set_option linter.unusedVariables false\nnamespace CmGen.CliRules\nopen Cm Cm.Cli\n\n" + "\n".join(texts) + "\nend CmGen.CliRules\n")
    old = open(OUT, encoding="utf-8").read() if os.path.exists(OUT) else None
    if old != out:
        with open(OUT, "w", encoding="utf-8") as fh:
            fh.write(out)
    return n


def summary():
    text = open(OUT, encoding="utf-8").read() if os.path.exists(OUT) else ""
    return {"generated_definitions": _re.findall(r"^(?:partial )?def (\S+)", text, _re.M), "not_translated": _re.findall(r"^-- (.*)$", text, _re.M),
            "file": "lean/CmGen/CliRules.lean", "translator": "harness/translate/clirules.py"}


if __name__ == "__main__":
    print(generate())
