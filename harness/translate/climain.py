"""Translator: the per-file loop of `main()` in cli/main.py  ->  lean/CmGen/CliMain.lean

Translated, from the syntax tree of `src/cm_colors/cli/main.py`, on every run:

  * the order of the effect steps of the `try` body of `for file_path in files:`        -> `per_file_steps`, `per_file_io`
  * where the dictionaries handed to `process_nodes_recursive` are created               -> `binding_scopes`
  * how `process_nodes_recursive` is called                                              -> `process_call`
  * the post-pass loop (`for rule in rules: if id(rule) in rule_declarations_map: …`)    -> `postpass_rules`
  * the `try` body together with its `except Exception` handler, for one file            -> `per_file`
  * the `for file_path in files:` loop                                                   -> `main_loop`
  * the initial `stats` and the loop, i.e. `main()` up to the report section             -> `main_stats`, `main_run`

`CmProps/C18main.lean` proves them equal to the model (`CmModel/Cli.lean`: `processFile`; `CmModel/Fs.lean`: `runFiles`, `run`).
The pre-pass inside the `try` body is NOT translated again: the statements between `rules = parse_stylesheet(…)` and the call
of `process_nodes_recursive` are handed to `cliresolve.gen_prepass` (which validates and translates exactly that segment into
`CmGen.CliResolve.prepass`, tied by `source_prepass`); this translator emits a call of that definition.  Path expressions are
translated with `clisrc.PathExpr` (rules: see clisrc.py).

The rules below are the trusted part of this tie.

Abstraction (as in cliresolve.py / CmModel): tinycss2 nodes are the model's `Node` / `Item`; `id(rule)` is the rule's index in the
stylesheet; a `pathlib.Path` is its final component `name : Str` (the output goes into the input's own directory); the three
mutable Python objects `stats`, `variables`, `rule_declarations_map` together are one model state `St`: `stats` is an `St` whose
`vars` / `rootDecls` fields are empty, the other two are those fields.  `default_bg`, `mode`, `premium` (parameters of `main`,
i.e. the command line) are the model's `cfg` (`cfg.defaultBg`; `mode` / `premium` select the oracle `cfg.pairEval`).

Locating
  the loop       the only `for X in F:` statement directly in the body of `main` that contains the call of `process_nodes_recursive`;
                 F must be a name assigned exactly once before it.  Its body must be one `try:` (plus ignored statements) with
                 exactly one handler `except Exception [as e]`, no `else` / `finally`.
  roles          the names passed to `process_nodes_recursive` as `node_list`, `stats`, `variables`, `rule_declarations` (bound to
                 the callee's parameter list as Python binds them) are R, STATS, V, M.
  binding scope  every assignment `N = …` in `main` to STATS, V, M is classified by its position in the tree: `file` if it is
                 inside the loop body, `run` if it is a statement of `main` before the loop (anything else: `other`);
                 `binding_scopes` lists (callee parameter, scope) — several assignments are joined with `+`.  The functional image
                 needs STATS : run (threaded through the fold) and V, M : file (created by the pre-pass segment, see below).

Statements of the `try` body, in program order (each contributes its step names to `per_file_steps`; a statement not listed
here contributes `?<first 40 characters>` to the step list and makes `per_file` "outside the translated subset").  The image of
the body is a term of type `Option (Str × List Node) × Bool × St`: (what this iteration left in the file system, did the handler
run, `stats` afterwards).  `w'` is the file written so far (`none` at the start).  HANDLER = `(w', true, stats)` with the
current bindings: an exception leaves the counters as they are and whatever was already written stays written.
  with open(X, "r", encoding="utf-8") as f: c = f.read()         steps read, parse
  R = tinycss2.parse_stylesheet(c, skip_whitespace=False, skip_comments=False)
        (the two statements must follow one another; X the loop variable)  ↦  `match fi' with | .unreadable => HANDLER | .css R => …`
        (`FileIn`: `.unreadable` = open / read / decode raised; `.css nodes` = what tinycss2 parsed.)  Other keyword values,
        another encoding: outside the subset.
  the statements up to the call of process_nodes_recursive         step prepass
        ↦ `let p' := CmGen.CliResolve.prepass env R;  let V := p'.1;  let M := p'.2`   (requires cliresolve.gen_prepass to accept
        the segment: `V = {}`, `M = {}`, one loop over R — so V and M are per-file bindings by construction)
  process_nodes_recursive(R, default_bg, STATS, X, V, mode=mode, premium=premium, rule_declarations=M)      step process
        ↦ `match processTop env cfg R 0 { STATS with vars := V, rootDecls := M } with
            | .error s' => let STATS := { s' with vars := [], rootDecls := [] }; HANDLER
            | .ok (R, s') => let STATS := { s' with vars := [], rootDecls := [] }; let V := s'.vars; let M := s'.rootDecls; …`
        (the callee mutates its arguments in place: afterwards the names denote the components of the result state; `processTop`
        is the model of `process_nodes_recursive` — its own tie is not part of this file).  `default_bg`, `mode`, `premium` must be
        the unassigned parameters of `main` of those names, the fourth argument the loop variable; anything else (an omitted
        `rule_declarations=`, a fresh `{}`, a constant mode) is outside the subset.  The binding is emitted as `process_call`.
  for r in R: BODY      (after the call)                            step postpass
        ↦ `match postpass_rules M R 0 with | .error _ => HANDLER | .ok R => …`, where `postpass_rules` is a structural recursion
        over `List Node` carrying the index; BODY is a term of type `Except Unit Node` (the possibly updated node):
          if id(r) in M: A          ↦ `match (M.find? (·.1 = i')).map (·.2) with | some e => A | none => .ok r`; `M[id(r)]` in A is `e`
          t = M[id(r)]              ↦ `let t := e`
          t = tinycss2.serialize(d) ↦ `if itemsSerialisable d then … else .error ()`   (d a declaration list; t = "the text of d")
          r.content = tinycss2.parse_component_value_list(t)   (t the text of d)
                                    ↦ `let r := match r with | .rule s' _ => .rule s' d | n' => n'`   (a qualified rule's content is its
                                      declaration list; the keys of M are ids of qualified rules, other nodes are kept)
          end of BODY               ↦ `.ok r`
  T = <string expression over X.stem / X.suffix / X.name / literals / earlier such names>   ↦ `let T : Str := …`  (clisrc.PathExpr)
  T = X.parent / e                  ↦ `let T : Str := e`     (a path beside the input: its final component)
  T = tinycss2.serialize(R)         step serialize
        ↦ `if R.all (fun n' => match n' with | .other _ ok' => ok' | _ => true) then … else HANDLER`  (T = "the text of R")
  with open(P, "w", encoding="utf-8") as f: BODY                    step open_w
        P a path beside the input  ↦ `let w' := some (P, [])` (opening for writing creates / truncates the file: an empty
        stylesheet), then the statements of BODY in program order, then the statements after the `with` (closing has no effect
        that is modelled).  So a raising step *after* this statement reaches HANDLER with the empty file in `w'`.
        Mode "a", "x", "r+", another encoding, a target that is not such a path: outside the subset.
  f.write(T)                                                        step write
        f such an opened file, T the text of a stylesheet R'  ↦ `let w' := some (P, R')`.
        Failures of opening / writing themselves (permissions, disk) are not modelled.
  end of the body                   ↦ `(w', false, STATS)`
`per_file_io` lists (step, role of the path, mode, encoding) of the two `open` calls, roles `input` / `beside_input`.

Handler  `except Exception [as e]: BODY` — BODY may contain only ignored statements (below); `raise`, `break`, `return`,
  `continue`, `sys.exit`, assignments … are outside the subset.  The file counts as *reported* iff BODY contains
  `click.echo(<f-string mentioning the loop variable>, err=True)`.
Loop  `for X in F: try … except …` ↦ structural recursion over `List (Str × FileIn)` threading `RunResult`:
        `writes := r'.writes ++ o'.1.toList`, `errors := r'.errors ++ (if o'.2.1 then [X] else [])` (`[]` if not reported),
        `st := o'.2.2` where `o' := per_file env cfg X fi' r'.st`; the loop always continues with the next file.
`main_run`: the statements of `main` before the loop must be: STATS = { "accessible": 0, … } (a dict literal with the keys
  accessible, tuned, failed ↦ Nat literals and failed_details, fixed_details ↦ `[]`, rendered as an `St` literal `main_stats`),
  F = list(get_css_files(path)) (discovery: tied in C18src; here the parameter `files`), `if not F: <ignored>; return` (an early
  return on an empty list = running the loop zero times) and ignored statements.

Ignored everywhere: docstrings, comments, `pass`, print / logging / click.echo / click.secho / traceback.* calls whose value is
discarded, `import re`, `import traceback`.  Exception messages are not modelled.
Anything else: `-- <definition>: outside the translated subset (<reason>)`.
"""
import ast
import os
import re as _re

from common import LEAN, REPO
from translate.leaves import Unsupported
from translate import cliresolve, clisrc
from translate.cliresolve import lname, lean_str, name_of, find_fn

SRC = os.path.join("src", "cm_colors", "cli", "main.py")
OUT = os.path.join(LEAN, "CmGen", "CliMain.lean")
CALLEE = "process_nodes_recursive"
RESULT = "Option (Str × List Node) × Bool × St"
STATS_KEYS = {"accessible": ("accessible", "N"), "tuned": ("tuned", "N"), "failed": ("failed", "N"),
              "failed_details": ("failedDetails", "L"), "fixed_details": ("fixedDetails", "L")}


def noise(s):
    if cliresolve.noise(s):
        return True
    if isinstance(s, ast.Import) and all(a.name in ("re", "traceback") and a.asname is None for a in s.names):
        return True
    if isinstance(s, ast.Expr) and isinstance(s.value, ast.Call):
        root = s.value.func
        while isinstance(root, ast.Attribute):
            root = root.value
        if isinstance(root, ast.Name) and root.id == "traceback":
            return True
    return False


def first_line(s):
    return " ".join(ast.unparse(s).split("\n")[0].split())


def contains_call(node, fname):
    return any(isinstance(c, ast.Call) and name_of(c.func) == fname for c in ast.walk(node))


def tinycss_call(n, attr):
    return isinstance(n, ast.Call) and isinstance(n.func, ast.Attribute) and n.func.attr == attr and name_of(n.func.value) == "tinycss2"


def open_call(w):
    """a `with open(P, mode, encoding=…) as f:` statement -> (P node, mode, encoding, f) or None"""
    if not (isinstance(w, ast.With) and len(w.items) == 1):
        return None
    it = w.items[0]
    c = it.context_expr
    if not (isinstance(c, ast.Call) and name_of(c.func) == "open" and c.args and isinstance(it.optional_vars, ast.Name)):
        return None
    mode, enc = "r", None
    if len(c.args) > 2:
        return None
    if len(c.args) == 2:
        if not (isinstance(c.args[1], ast.Constant) and isinstance(c.args[1].value, str)):
            return None
        mode = c.args[1].value
    for k in c.keywords:
        if k.arg == "mode" and isinstance(k.value, ast.Constant) and isinstance(k.value.value, str) and len(c.args) == 1:
            mode = k.value.value
        elif k.arg == "encoding" and isinstance(k.value, ast.Constant) and isinstance(k.value.value, str):
            enc = k.value.value
        else:
            return None
    return c.args[0], mode, enc, it.optional_vars.id


# ---------------------------------------------------------------------- locating
class Loc:
    """the per-file loop of main() and the roles of the names in it"""

    def __init__(self, tree):
        self.tree = tree
        self.main = find_fn(tree, "main")
        self.callee = find_fn(tree, CALLEE)
        loops = [(i, s) for i, s in enumerate(self.main.body) if isinstance(s, ast.For) and contains_call(s, CALLEE)]
        if len(loops) != 1:
            raise Unsupported("%d loops directly in main contain the call of %s" % (len(loops), CALLEE))
        self.loop_idx, self.loop = loops[0]
        if not (isinstance(self.loop.target, ast.Name) and isinstance(self.loop.iter, ast.Name)) or self.loop.orelse:
            raise Unsupported("the loop is not `for <name> in <name>:` without else")
        self.X, self.F = self.loop.target.id, self.loop.iter.id
        calls = [c for c in ast.walk(self.main) if isinstance(c, ast.Call) and name_of(c.func) == CALLEE]
        if len(calls) != 1:
            raise Unsupported("%s is called %d times in main" % (CALLEE, len(calls)))
        self.call = calls[0]
        a = self.callee.args
        if a.vararg or a.kwarg or a.kwonlyargs or a.posonlyargs:
            raise Unsupported("signature of %s" % CALLEE)
        self.pnames = [x.arg for x in a.args]
        if len(self.call.args) > len(self.pnames) or any(isinstance(x, ast.Starred) for x in self.call.args):
            raise Unsupported("positional arguments of the call of %s" % CALLEE)
        self.given = dict(zip(self.pnames, self.call.args))
        for k in self.call.keywords:
            if k.arg is None or k.arg not in self.pnames or k.arg in self.given:
                raise Unsupported("keyword argument `%s` of the call of %s" % (k.arg, CALLEE))
            self.given[k.arg] = k.value
        self.params = [x.arg for x in self.main.args.args]

    def role(self, p):
        return name_of(self.given[p]) if p in self.given else None

    def scope_of(self, name):
        """positions of the assignments to `name` in main"""
        inside = {id(x) for x in ast.walk(self.loop)}
        before = {id(s) for s in self.main.body[:self.loop_idx]}
        out = []
        for x in sorted((x for x in ast.walk(self.main) if isinstance(x, (ast.Assign, ast.AnnAssign, ast.AugAssign))), key=lambda x: (x.lineno, x.col_offset)):
            targets = x.targets if isinstance(x, ast.Assign) else [x.target]
            if any(name_of(t) == name for t in targets):
                out.append("file" if id(x) in inside else "run" if id(x) in before else "other")
        return "+".join(out) if out else "unbound"

    def try_stmt(self):
        body = [s for s in self.loop.body if not noise(s)]
        if len(body) != 1 or not isinstance(body[0], ast.Try):
            raise Unsupported("the loop body is not a single try statement")
        t = body[0]
        if t.orelse or t.finalbody or len(t.handlers) != 1:
            raise Unsupported("the try statement has else / finally / several handlers")
        h = t.handlers[0]
        if name_of(h.type) != "Exception":
            raise Unsupported("the handler is not `except Exception`")
        return t, h


def slist(xs):
    return "[%s]" % ", ".join(lean_str(x) for x in xs)


def gen_scopes(loc):
    rows = []
    for p in ("stats", "variables", "rule_declarations"):
        nm = loc.role(p)
        rows.append((p, loc.scope_of(nm) if nm else "not a name"))
    return ("/-- where `main` creates the objects it hands to `%s` (callee parameter, position of the assignment): `run` = once, before the\n"
            "    per-file loop; `file` = inside the loop body, i.e. anew for every file -/\ndef binding_scopes : List (String × String) :=\n  [%s]\n"
            % (CALLEE, ", ".join("(%s, %s)" % (lean_str(a), lean_str(b)) for a, b in rows))), 1


def describe_arg(loc, n, roles):
    nm = name_of(n)
    if nm is not None:
        if nm in roles:
            return roles[nm]
        if nm in loc.params and loc.scope_of(nm) == "unbound":
            return "param " + nm
        return "name"
    if isinstance(n, ast.Constant):
        return "const " + repr(n.value)
    return "expr " + " ".join(ast.unparse(n).split())[:40]


def gen_call(loc):
    roles = {}
    for p, r in (("node_list", "stylesheet"), ("stats", "stats"), ("variables", "variables"), ("rule_declarations", "declaration_lists")):
        if loc.role(p):
            roles.setdefault(loc.role(p), r)
    roles.setdefault(loc.X, "input")
    rows = [(p, describe_arg(loc, loc.given[p], roles) if p in loc.given else "default") for p in loc.pnames]
    return ("/-- how `main` calls `%s`: (callee parameter, what is passed) -/\ndef process_call : List (String × String) :=\n  [%s]\n"
            % (CALLEE, ",\n   ".join("(%s, %s)" % (lean_str(a), lean_str(b)) for a, b in rows))), 1, rows


EXPECTED_CALL = {"node_list": "stylesheet", "default_bg": "param default_bg", "stats": "stats", "file_path": "input", "variables": "variables",
                 "mode": "param mode", "premium": "param premium", "rule_declarations": "declaration_lists"}


# ---------------------------------------------------------------------- the try body
class Body:
    def __init__(self, loc):
        self.loc = loc
        self.X = loc.X
        self.R, self.S, self.V, self.M = (loc.role(p) for p in ("node_list", "stats", "variables", "rule_declarations"))
        self.env = {self.X: "IN"}
        self.px = clisrc.PathExpr({self.X: lname(self.X)})
        self.steps = []
        self.io = []
        self.aux = []
        self.reason = None
        self.post_reason = None
        t, h = loc.try_stmt()
        self.stmts = [s for s in t.body if not noise(s)]

    def fail(self, msg, s=None):
        if self.reason is None:
            self.reason = msg
        if s is not None:
            self.steps.append("?" + first_line(s)[:40])
        return None

    def handler(self, pad):
        return "%s(w', true, %s)" % (pad, lname(self.S))

    # -- statement classification + translation in one pass; on a failure the text is dropped but the step list continues
    def block(self, i, ind):
        pad = "  " * ind
        if i >= len(self.stmts):
            return "%s(w', false, %s)" % (pad, lname(self.S))
        s = self.stmts[i]
        oc = open_call(s)
        # read + parse
        if oc is not None and oc[1] in ("r", "rt"):
            p, mode, enc, f = oc
            self.steps.append("read")
            self.io.append(("read", "input" if name_of(p) == self.X else "other", mode, enc or "default"))
            body = [x for x in s.body if not noise(x)]
            ok = (name_of(p) == self.X and enc == "utf-8" and len(body) == 1 and isinstance(body[0], ast.Assign) and len(body[0].targets) == 1
                  and isinstance(body[0].targets[0], ast.Name) and isinstance(body[0].value, ast.Call) and isinstance(body[0].value.func, ast.Attribute)
                  and body[0].value.func.attr == "read" and name_of(body[0].value.func.value) == f and not body[0].value.args and not body[0].value.keywords)
            if not ok:
                self.fail("the input is not read as `with open(%s, \"r\", encoding=\"utf-8\") as f: c = f.read()`" % self.X)
                return self.skip(i + 1, ind)
            c = body[0].targets[0].id
            nxt = self.stmts[i + 1] if i + 1 < len(self.stmts) else None
            if not (isinstance(nxt, ast.Assign) and len(nxt.targets) == 1 and isinstance(nxt.targets[0], ast.Name) and tinycss_call(nxt.value, "parse_stylesheet")):
                self.fail("reading the file is not followed by `… = tinycss2.parse_stylesheet(…)`")
                return self.skip(i + 1, ind)
            self.steps.append("parse")
            v = nxt.value
            kw = {k.arg: k.value for k in v.keywords}
            if not (len(v.args) == 1 and name_of(v.args[0]) == c and set(kw) == {"skip_whitespace", "skip_comments"}
                    and all(isinstance(x, ast.Constant) and x.value is False for x in kw.values())):
                self.fail("parse_stylesheet is not called as (<content read>, skip_whitespace=False, skip_comments=False)")
                return self.skip(i + 2, ind)
            r = nxt.targets[0].id
            if r != self.R:
                self.fail("the parsed stylesheet `%s` is not what %s receives" % (r, CALLEE))
                return self.skip(i + 2, ind)
            if "fi" in self.env:
                self.fail("the input is read twice")
                return self.skip(i + 2, ind)
            self.env["fi"] = True
            self.env[r] = "NODES"
            # the pre-pass segment: everything up to the call
            call_idx = [k for k, x in enumerate(self.stmts) if isinstance(x, ast.Expr) and x.value is self.loc.call]
            if len(call_idx) != 1 or call_idx[0] <= i + 1:
                self.fail("the call of %s is not a statement of the try body after parsing" % CALLEE)
                return self.skip(i + 2, ind)
            j = call_idx[0]
            self.steps.append("prepass")
            try:
                cliresolve.gen_prepass(self.loc.tree)
            except Unsupported as e:
                self.fail("pre-pass: %s" % e)
                return self.skip(j, ind)
            if not (self.V and self.M and self.S) or len({self.R, self.V, self.M, self.S, self.X}) != 5:
                self.fail("the arguments of %s are not distinct names" % CALLEE)
                return self.skip(j, ind)
            self.env[self.V], self.env[self.M] = "VARS", "RMAP"
            rest = self.block(j, ind + 1)
            if rest is None:
                return None
            return ("%smatch fi' with\n%s| .unreadable =>\n%s\n%s| .css %s =>\n%s  let p' := CmGen.CliResolve.prepass env %s\n%s  let %s := p'.1\n%s  let %s := p'.2\n%s"
                    % (pad, pad, self.handler(pad + "  "), pad, lname(r), pad, lname(r), pad, lname(self.V), pad, lname(self.M), rest))
        # open for writing: the file exists (empty) from here on; the statements of the `with` body follow in program order
        if oc is not None:
            p, mode, enc, f = oc
            self.steps.append("open_w" if mode == "w" else "open_" + mode)
            ty = self.env.get(name_of(p))
            self.io.append(("open_w" if mode == "w" else "open_" + mode, "beside_input" if ty == "OUTPATH" else "input" if ty == "IN" else "other", mode, enc or "default"))
            if not (mode == "w" and enc == "utf-8" and ty == "OUTPATH") or f in self.env:
                self.fail("the output is not opened as `with open(<path beside the input>, \"w\", encoding=\"utf-8\") as f:`")
                self.stmts[i + 1:i + 1] = [x for x in s.body if not noise(x)]
                return self.skip(i + 1, ind)
            self.env[f] = ("WFILE", lname(name_of(p)))
            self.stmts[i + 1:i + 1] = [x for x in s.body if not noise(x)]
            rest = self.block(i + 1, ind)
            if rest is None:
                return None
            return "%slet w' : Option (Str × List Node) := some (%s, [])\n%s" % (pad, lname(name_of(p)), rest)
        # f.write(T)
        if isinstance(s, ast.Expr) and isinstance(s.value, ast.Call) and isinstance(s.value.func, ast.Attribute) and s.value.func.attr == "write" \
                and isinstance(s.value.func.value, ast.Name):
            self.steps.append("write")
            ft = self.env.get(s.value.func.value.id)
            t = self.env.get(name_of(s.value.args[0])) if len(s.value.args) == 1 and not s.value.keywords else None
            if not (isinstance(ft, tuple) and ft[0] == "WFILE" and isinstance(t, tuple) and t[0] == "SERN"):
                self.fail("`%s` does not write the text of the stylesheet to the opened output" % first_line(s)[:60])
                return self.skip(i + 1, ind)
            rest = self.block(i + 1, ind)
            if rest is None:
                return None
            return "%slet w' : Option (Str × List Node) := some (%s, %s)\n%s" % (pad, ft[1], t[1], rest)
        # the call
        if isinstance(s, ast.Expr) and s.value is self.loc.call:
            self.steps.append("process")
            _, _, rows = gen_call(self.loc)
            bad = [(a, b) for a, b in rows if EXPECTED_CALL.get(a) != b]
            if bad or self.env.get(self.R) != "NODES" or self.env.get(self.V) != "VARS":
                self.fail("%s is not called on the per-file objects: %s" % (CALLEE, ", ".join("%s=%s" % ab for ab in bad) or "before the pre-pass"))
                return self.skip(i + 1, ind)
            if self.loc.scope_of(self.S) != "run":
                self.fail("`%s` is not created once before the loop (%s)" % (self.S, self.loc.scope_of(self.S)))
                return self.skip(i + 1, ind)
            S, V, M, R = (lname(x) for x in (self.S, self.V, self.M, self.R))
            h = self.handler(pad + "  ")
            rest = self.block(i + 1, ind + 1)
            if rest is None:
                return None
            return ("%smatch processTop env cfg %s 0 { %s with vars := %s, rootDecls := %s } with\n"
                    "%s| .error s' =>\n%s  let %s : St := { s' with vars := [], rootDecls := [] }\n%s\n"
                    "%s| .ok (%s, s') =>\n%s  let %s : St := { s' with vars := [], rootDecls := [] }\n%s  let %s := s'.vars\n%s  let %s := s'.rootDecls\n%s"
                    % (pad, R, S, V, M, pad, pad, S, h, pad, R, pad, S, pad, V, pad, M, rest))
        # the post-pass
        if isinstance(s, ast.For) and name_of(s.iter) == self.R and self.env.get(self.R) == "NODES" and isinstance(s.target, ast.Name) and not s.orelse \
                and "process" in self.steps:
            self.steps.append("postpass")
            if any(a.startswith("def postpass_rules") or "\ndef postpass_rules" in a for a in self.aux):
                self.fail("two loops over the stylesheet after the call")
                return self.skip(i + 1, ind)
            try:
                self.aux.append(gen_postpass(s, self.M))
            except Unsupported as e:
                self.post_reason = str(e)
                self.fail("post-pass: %s" % e)
                return self.skip(i + 1, ind)
            rest = self.block(i + 1, ind + 1)
            if rest is None:
                return None
            return ("%smatch postpass_rules %s %s 0 with\n%s| .error _ =>\n%s\n%s| .ok %s =>\n%s"
                    % (pad, lname(self.M), lname(self.R), pad, self.handler(pad + "  "), pad, lname(self.R), rest))
        if isinstance(s, ast.Assign) and len(s.targets) == 1 and isinstance(s.targets[0], ast.Name):
            t, v = s.targets[0].id, s.value
            if t in (self.X, self.R, self.S, self.V, self.M):
                return self.fail("assignment to `%s` in the try body" % t, s) or self.skip(i + 1, ind)
            # serialisation of the stylesheet
            if tinycss_call(v, "serialize"):
                self.steps.append("serialize")
                if not (len(v.args) == 1 and not v.keywords and name_of(v.args[0]) == self.R and self.env.get(self.R) == "NODES"):
                    self.fail("tinycss2.serialize of something other than the stylesheet")
                    return self.skip(i + 1, ind)
                self.env[t] = ("SERN", lname(self.R))
                rest = self.block(i + 1, ind + 1)
                if rest is None:
                    return None
                return ("%sif %s.all (fun n' => match n' with | .other _ ok' => ok' | _ => true) then\n%s\n%selse\n%s"
                        % (pad, lname(self.R), rest, pad, self.handler(pad + "  ")))
            # a path beside the input
            if isinstance(v, ast.BinOp) and isinstance(v.op, ast.Div) and isinstance(v.left, ast.Attribute) and v.left.attr == "parent" \
                    and name_of(v.left.value) == self.X:
                try:
                    e = self.px.s(v.right)
                except Unsupported as ex:
                    return self.fail(str(ex), s) or self.skip(i + 1, ind)
                self.env[t] = "OUTPATH"
                rest = self.block(i + 1, ind)
                return None if rest is None else "%slet %s : Str := %s\n%s" % (pad, lname(t), e, rest)
            try:
                e = self.px.s(v)
            except Unsupported as ex:
                return self.fail("statement `%s` (%s)" % (first_line(s)[:60], ex), s) or self.skip(i + 1, ind)
            self.env[t] = "S"
            self.px.paths[t] = "str:" + lname(t)
            rest = self.block(i + 1, ind)
            return None if rest is None else "%slet %s : Str := %s\n%s" % (pad, lname(t), e, rest)
        self.fail("statement `%s` in the try body" % first_line(s)[:60], s)
        return self.skip(i + 1, ind)

    def skip(self, i, ind):
        """after a failure: keep classifying the remaining statements for the step list"""
        self.block(i, ind)
        return None


# ---------------------------------------------------------------------- the post-pass loop
def gen_postpass(loop, M):
    r = loop.target.id
    R = lname(r)
    st = {"guard": None, "env": {}}

    def is_id_of_rule(n):
        return isinstance(n, ast.Call) and name_of(n.func) == "id" and len(n.args) == 1 and not n.keywords and name_of(n.args[0]) == r

    def is_lookup(n):
        return isinstance(n, ast.Subscript) and name_of(n.value) == M and is_id_of_rule(n.slice)

    def items_expr(n):
        """a declaration list: (lean text)"""
        if is_lookup(n):
            if st["guard"] is None:
                raise Unsupported("`%s[id(%s)]` outside `if id(%s) in %s:` (may raise KeyError)" % (M, r, r, M))
            return st["guard"]
        if isinstance(n, ast.Name) and st["env"].get(n.id, (None,))[0] == "ITEMS":
            return st["env"][n.id][1]
        raise Unsupported("`%s` is not a declaration list of the map" % " ".join(ast.unparse(n).split())[:50])

    def text_expr(n):
        """the text of a declaration list: that list's lean text; the caller has emitted the serialisability test"""
        if isinstance(n, ast.Name) and st["env"].get(n.id, (None,))[0] == "SER":
            return st["env"][n.id][1]
        raise Unsupported("`%s` is not the serialisation of a declaration list" % " ".join(ast.unparse(n).split())[:50])

    def block(stmts, ind):
        pad = "  " * ind
        stmts = [s for s in stmts if not noise(s)]
        if not stmts:
            return "%s.ok %s" % (pad, R)
        s, rest = stmts[0], stmts[1:]
        if isinstance(s, ast.If):
            t = s.test
            if not (isinstance(t, ast.Compare) and len(t.ops) == 1 and isinstance(t.ops[0], ast.In) and is_id_of_rule(t.left)
                    and name_of(t.comparators[0]) == M):
                raise Unsupported("condition `%s`" % " ".join(ast.unparse(t).split())[:60])
            if st["guard"] is not None:
                raise Unsupported("nested `if id(%s) in %s`" % (r, M))
            saved = dict(st["env"])
            st["guard"] = "e'"
            a = block(list(s.body) + rest, ind + 1)
            st["guard"], st["env"] = None, dict(saved)
            b = block(list(s.orelse) + rest, ind + 1)
            st["env"] = saved
            return "%smatch (%s.find? (·.1 = i')).map (·.2) with\n%s| some e' =>\n%s\n%s| none =>\n%s" % (pad, lname(M), pad, a, pad, b)
        if isinstance(s, ast.Assign) and len(s.targets) == 1 and isinstance(s.targets[0], ast.Name):
            t, v = s.targets[0].id, s.value
            if t in (r, M):
                raise Unsupported("assignment to `%s` in the post-pass" % t)
            if tinycss_call(v, "serialize") and len(v.args) == 1 and not v.keywords:
                d = items_expr(v.args[0])
                st["env"][t] = ("SER", d)
                return "%sif itemsSerialisable %s then\n%s\n%selse\n%s  .error ()" % (pad, d, block(rest, ind + 1), pad, pad)
            d = items_expr(v)
            st["env"][t] = ("ITEMS", lname(t))
            return "%slet %s : List Item := %s\n%s" % (pad, lname(t), d, block(rest, ind))
        if isinstance(s, ast.Assign) and len(s.targets) == 1 and isinstance(s.targets[0], ast.Attribute) and s.targets[0].attr == "content" \
                and name_of(s.targets[0].value) == r:
            v = s.value
            if not (tinycss_call(v, "parse_component_value_list") and len(v.args) == 1 and not v.keywords):
                raise Unsupported("`%s.content` is not assigned tinycss2.parse_component_value_list(<text>)" % r)
            d = text_expr(v.args[0])
            return "%slet %s : Node := match %s with | .rule s' _ => .rule s' %s | n' => n'\n%s" % (pad, R, R, d, block(rest, ind))
        raise Unsupported("statement `%s`" % first_line(s)[:60])

    body = block(list(loop.body), 3)
    return ("/-- `%s` after the call of `%s` (the post-pass): every pre-parsed rule gets the content of its shared declaration list;\n"
            "    `.error ()` = `tinycss2.serialize` of such a list raised -/\n"
            "def postpass_rules (%s : List (Nat × List Item)) : List Node → Nat → Except Unit (List Node)\n"
            "  | [], _ => .ok []\n  | %s :: rest', i' =>\n    match (\n%s : Except Unit Node) with\n"
            "    | .error u' => .error u'\n    | .ok %s => (postpass_rules %s rest' (i' + 1)).map (%s :: ·)\n"
            % (first_line(loop), CALLEE, lname(M), R, body, R, lname(M), R))


# ---------------------------------------------------------------------- definitions
def gen_steps(loc, body):
    return ("/-- the effect steps of the `try` body of the per-file loop, in program order -/\ndef per_file_steps : List String :=\n  %s\n\n"
            "/-- the files the `try` body opens: (step, which path, mode, encoding) -/\ndef per_file_io : List (String × String × String × String) :=\n  [%s]\n"
            % (slist(body.steps), ", ".join("(%s, %s, %s, %s)" % tuple(lean_str(x) for x in row) for row in body.io))), 2


def handler_reports(loc):
    _, h = loc.try_stmt()
    bad = [s for s in h.body if not noise(s)]
    if bad:
        raise Unsupported("the handler contains `%s`" % first_line(bad[0])[:60])
    for s in h.body:
        for c in ast.walk(s):
            if isinstance(c, ast.Call) and isinstance(c.func, ast.Attribute) and c.func.attr == "echo" and name_of(c.func.value) == "click" and c.args \
                    and any(k.arg == "err" and isinstance(k.value, ast.Constant) and k.value.value is True for k in c.keywords) \
                    and isinstance(c.args[0], ast.JoinedStr) and any(isinstance(n, ast.Name) and n.id == loc.X for n in ast.walk(c.args[0])):
                return True
    return False


def gen_postpass_def(body):
    if not body.aux:
        raise Unsupported(body.post_reason or "?")
    return "\n".join(body.aux), len(body.aux)


def gen_per_file(loc, body, text):
    if text is None:
        raise Unsupported(body.reason or "?")
    handler_reports(loc)        # the handler must consist of ignored statements only
    missing = [x for x in ("read", "parse", "prepass", "process") if x not in body.steps]
    if missing:
        raise Unsupported("no %s step in the try body" % missing[0])
    head = ("/-- one iteration of `for %s in %s:` — the `try` body and its `except Exception` handler: (the file this iteration left behind, did the\n"
            "    handler run, `%s` afterwards) -/\ndef per_file (env : CliEnv) (cfg : Cfg) (%s : Str) (fi' : FileIn) (%s : St) : %s :=\n"
            "  let w' : Option (Str × List Node) := none\n" % (loc.X, loc.F, body.S, lname(loc.X), lname(body.S), RESULT))
    return head + text + "\n", 1


def gen_loop(loc, done):
    if "per_file" not in done:
        raise Unsupported("the loop body is not translated")
    rep = handler_reports(loc)
    X = lname(loc.X)
    return ("/-- `for %s in %s:` — every file in turn; the loop goes on after a failure -/\n"
            "def main_loop (env : CliEnv) (cfg : Cfg) : List (Str × FileIn) → RunResult → RunResult\n  | [], r' => r'\n  | (%s, fi') :: rest', r' =>\n"
            "    let o' := per_file env cfg %s fi' r'.st\n"
            "    main_loop env cfg rest' { writes := r'.writes ++ o'.1.toList, errors := r'.errors ++ %s, st := o'.2.2 }\n"
            % (loc.X, loc.F, X, X, ("(if o'.2.1 then [%s] else [])" % X) if rep else "([] : List Str)")), 1


def gen_run(loc, done):
    if "main_loop" not in done:
        raise Unsupported("the loop is not translated")
    S = loc.role("stats")
    stats = None
    files_seen = False
    for s in loc.main.body[:loc.loop_idx]:
        if noise(s):
            continue
        if isinstance(s, ast.Assign) and len(s.targets) == 1 and name_of(s.targets[0]) == S:
            v = s.value
            if stats is not None or not isinstance(v, ast.Dict) or not all(isinstance(k, ast.Constant) and isinstance(k.value, str) for k in v.keys):
                raise Unsupported("`%s` is not assigned one dict literal" % S)
            keys = [k.value for k in v.keys]
            if sorted(keys) != sorted(STATS_KEYS):
                raise Unsupported("keys of `%s`: %s" % (S, keys))
            fields = []
            for k, x in zip(keys, v.values):
                f, ty = STATS_KEYS[k]
                if ty == "N" and isinstance(x, ast.Constant) and isinstance(x.value, int) and not isinstance(x.value, bool) and x.value >= 0:
                    fields.append("%s := %d" % (f, x.value))
                elif ty == "L" and isinstance(x, ast.List) and not x.elts:
                    fields.append("%s := []" % f)
                else:
                    raise Unsupported("initial value of %s[%r]" % (S, k))
            stats = "{ %s, vars := [], rootDecls := [] }" % ", ".join(fields)
            continue
        if isinstance(s, ast.Assign) and len(s.targets) == 1 and name_of(s.targets[0]) == loc.F:
            v = s.value
            if files_seen or not (isinstance(v, ast.Call) and name_of(v.func) == "list" and len(v.args) == 1 and isinstance(v.args[0], ast.Call)
                                  and name_of(v.args[0].func) == "get_css_files"):
                raise Unsupported("`%s` is not list(get_css_files(…))" % loc.F)
            files_seen = True
            continue
        if isinstance(s, ast.If) and not s.orelse and isinstance(s.test, ast.UnaryOp) and isinstance(s.test.op, ast.Not) and name_of(s.test.operand) == loc.F \
                and files_seen:
            inner = [x for x in s.body if not noise(x)]
            if len(inner) == 1 and isinstance(inner[0], ast.Return) and inner[0].value is None:
                continue
        raise Unsupported("statement `%s` before the loop" % first_line(s)[:60])
    if stats is None or not files_seen:
        raise Unsupported("`%s` or `%s` is not assigned before the loop" % (S, loc.F))
    return ("/-- `%s` as `main` creates it -/\ndef main_stats : St :=\n  %s\n\n"
            "/-- `main` up to the report section, on the discovered files -/\ndef main_run (env : CliEnv) (cfg : Cfg) (%s : List (Str × FileIn)) : RunResult :=\n"
            "  main_loop env cfg %s { writes := [], errors := [], st := main_stats }\n" % (S, stats, lname(loc.F), lname(loc.F))), 2


def generate():
    texts, n = [], 0
    done = []

    def attempt(label, thunk):
        nonlocal n
        try:
            t, k = thunk()[:2]
            texts.append(t)
            n += k
            done.append(label)
        except Exception as e:  # noqa
            texts.append("-- %s: outside the translated subset (%s)\n" % (label, (type(e).__name__ + ": " if not isinstance(e, Unsupported) else "")
                                                                         + str(e).replace("\n", " ")[:300]))

    loc = body = text = None
    try:
        src = open(os.path.join(REPO, SRC), encoding="utf-8").read()
        tree = ast.parse(src)
        loc = Loc(tree)
    except Exception as e:  # noqa
        texts.append("-- main: outside the translated subset (%s)\n" % str(e).replace("\n", " ")[:300])
    if loc is not None:
        attempt("binding_scopes", lambda: gen_scopes(loc))
        attempt("process_call", lambda: gen_call(loc))
        try:
            body = Body(loc)
            text = body.block(0, 1)
        except Exception as e:  # noqa
            body = None
            texts.append("-- per_file_steps: outside the translated subset (%s)\n" % str(e).replace("\n", " ")[:300])
        if body is not None:
            attempt("per_file_steps", lambda: gen_steps(loc, body))
            if body.aux or "postpass" in body.steps:
                attempt("postpass_rules", lambda: gen_postpass_def(body))
            attempt("per_file", lambda: gen_per_file(loc, body, text))
            attempt("main_loop", lambda: gen_loop(loc, done))
            attempt("main_run", lambda: gen_run(loc, done))
    out = ("import CmModel.Fs\nimport CmGen.CliResolve\n/-! GENERATED by harness/translate/climain.py from src/cm_colors/cli/main.py — do not edit. -/\n"
           "set_option linter.unusedVariables false\nnamespace CmGen.CliMain\nopen Cm Cm.Cli Cm.Fs\n\n" + "\n".join(texts) + "\nend CmGen.CliMain\n")
    old = open(OUT, encoding="utf-8").read() if os.path.exists(OUT) else None
    if old != out:
        with open(OUT, "w", encoding="utf-8") as fh:
            fh.write(out)
    return n


def summary():
    text = open(OUT, encoding="utf-8").read() if os.path.exists(OUT) else ""
    return {"generated_definitions": _re.findall(r"^(?:partial )?def (\S+)", text, _re.M), "not_translated": _re.findall(r"^-- (.*)$", text, _re.M),
            "file": "lean/CmGen/CliMain.lean", "translator": "harness/translate/climain.py"}


if __name__ == "__main__":
    print(generate())
