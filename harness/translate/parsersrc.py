"""Translator: the dispatching functions of core/color_parser.py  ->  lean/CmGen/ParserSrc.lean

  detect_color_format(color)                    -> `detect_color_format (E : PEnv) (color : PyVal α) : Fmt`
  format_color(rgb, format_type)                -> `format_color (rgb : RGB) (format_type : Fmt) : OutVal α`
  parse_color_to_rgb(color, background), the body of its top-level `if isinstance(color, str):` statement
                                                -> `parse_color_string (E : PEnv) (color : Str) (background : Option RGB) : Except PyErr RGB`

`CmProps/C06fmt.lean` proves the first two equal to the model's `detectFormat` / `formatColor`, `CmProps/C07parse.lean`
proves the third equal to `parseStr`, for every carrier and every environment (character classes, keyword table).

Abstractions (what the images are functions of; stated again in the theorem files):
  * a format name (the `str` that `detect_color_format` returns and `format_color` receives) is a `Fmt`; a string literal in
    that position is the constructor whose `Fmt.toString` is the literal (the generated file re-checks every literal used
    by an `example … := rfl`); a literal that names no constructor is outside the subset.
  * `format_color` returns a `str` or a tuple: `OutVal`. A returned str is `OutVal.text`, a returned RGB triple `OutVal.tuple`.
  * `background` is what `Color._parse` passes: `None` or an already parsed triple of ints, `Option RGB`.
       background is None / is not None                 -> `background.isNone` / `background.isSome`
       isinstance(background, (tuple, list))            -> `background.isSome`      (a triple is a tuple; None is not)
       len(background)                                  -> `3`
       tuple(background)                                -> `background`
       parse_color_to_rgb(background)                   -> `← bgParsed background` (validates the triple; white for None)
       None                                             -> `(none : Option RGB)`
       an RGB triple where None-or-triple is expected   -> `some t`
  * the tuple/list branch of `parse_color_to_rgb` (the statement before the string branch) is not translated here.

Rules in addition to translate/leaves.py and translate/strhelpers.py (the trusted part of this tie):
  if isinstance(v, T): A  elif isinstance(v, U): B  [else: C];  rest     (v a Python value)
        -> `match v with | .str v => A; rest | .tuple v => B; rest | .list v => B; rest | _ => C; rest`
           (T, U among str, tuple, list; the first test that names a constructor wins; inside an arm `v` is the payload)
  if c: A [else: B]; rest     -> `if c then (A; rest) else (B; rest)`   (rest is not repeated after a branch that always returns/raises)
  v = e                       -> `let v := e` (a reassignment shadows);  v = <call that may raise> -> `let v ← …`
  return e / raise ValueError -> `pure e` (`e` itself in a function that cannot raise) / `vErr`;  return <call that may raise> -> the call
  a call that may raise, nested in an expression -> bound first (`let t ← …`), left to right; not allowed under and/or/if-else
  try: v1 = e1; …; vn = en  except ValueError [as e]: H;  rest
        -> `let t : Except PyErr _ := do …; pure (v1, …, vn)`
           `match t with | .ok (v1, …, vn) => rest | .error .valueError => H | .error e => .error e`
  s.strip() / s.lower()       -> `Str.strip E.cls s` / `Str.lower E.cls s`
  s.startswith("lit")         -> `Str.startsWith s "lit".toList`;   "lit" + s -> `"lit".toList ++ s`
  "c" in s  (one character)   -> `s.contains 'c'`
  s in CSS_NAMED_COLORS       -> `(lookupNamed E s).isSome`
  CSS_NAMED_COLORS[s]         -> `(lookupNamed E s).getD []`, accepted only under a dominating `if s in CSS_NAMED_COLORS` (KeyError is not modelled)
  re.fullmatch(r"[0-9a-f]{3}|[0-9a-f]{6}", s)        -> `isBareHexLower s`      (the exact pattern text; any other pattern is outside the subset)
  re.fullmatch(r"[0-9a-fA-F]{3}|[0-9a-fA-F]{6}", s)  -> `isBareHex s`
  len(xs) (list/tuple)        -> `xs.length`;  == >= … on lengths -> `decide (…)`;  `not xs` -> `xs.isEmpty`
  xs[i]                       -> `xs.getD i []`, accepted only under a dominating `len(xs) >= k` / `== k` with k > i (IndexError is not modelled)
  format_type == "lit"        -> `decide (format_type = Fmt.<c>)`
  max / min / int(round(x)) on ints -> `max` / `min` / `Num.roundHE x`  (leaves.py)
  local `from … import …`     -> nothing
  callees (leaf names; their own ties are elsewhere):
     hex_to_rgb(x) -> `hexToRgb E x`;  hsl_to_rgb(s) -> `hslStrToRgb E s`;  hsla_to_rgb(s, bg) -> `hslaStrToRgb E s bg`;
     _extract_number_tokens(x) -> `NumRe.findAll E.cls x`;  _parse_number_token(t, component=b) -> `numberToken E t b`;
     rgba_to_rgb((r, g, b, a), background=bg) -> `rgbaToRgb r g b a bg`;  is_valid_rgb(c) -> `validRgb c`;
     rgb_to_hex(c) -> `fmtHex c`;  rgbint_to_string(c) -> `fmtRgbFn c`;  rgb_to_hsl(c) -> `OutVal.hsl` of `rgbToHslText c`
     (keyword arguments are placed by the callee's parameter names; every parameter must be given)
"""
import ast
import os
import re as _re

from common import LEAN, REPO
from translate.leaves import Unsupported, is_noise, lname
from translate.strhelpers import SFn

CORE = os.path.join("src", "cm_colors", "core")
SRC = "color_parser.py"

FMT = {"hex": "hex", "rgb": "rgb", "hsl": "hsl", "named": "named", "rgba": "rgba", "hsla": "hsla",
       "rgb_tuple": "rgbTuple", "rgba_tuple": "rgbaTuple", "unknown": "unknown"}
REGEX = {r"[0-9a-f]{3}|[0-9a-f]{6}": "isBareHexLower", r"[0-9a-fA-F]{3}|[0-9a-fA-F]{6}": "isBareHex"}
LEAN_TYPE = {"F": "α", "B": "Bool", "RGB": "RGB", "I": "Int", "S": "Str", "LS": "List Str", "ORGB": "Option RGB",
             "PV": "PyVal α", "FMT": "Fmt", "OUT": "OutVal α", "N": "Nat"}
# python name -> (lean head, parameter names, parameter types, result type, may raise)
CALLEES = {
    "hex_to_rgb": ("hexToRgb E", ["hex_str"], ["S"], "RGB", True),
    "hsl_to_rgb": ("hslStrToRgb (α := α) E", ["hsl"], ["S"], "RGB", True),
    "hsla_to_rgb": ("hslaStrToRgb (α := α) E", ["hsla", "background"], ["S", "ORGB"], "RGB", True),
    "_extract_number_tokens": ("NumRe.findAll E.cls", ["s"], ["S"], "LS", False),
    "_parse_number_token": ("numberToken (α := α) E", ["tok", "component"], ["S", "B"], "F", True),
    "rgba_to_rgb": ("rgbaToRgb", ["rgba", "background"], ["RGBA", "RGB"], "RGB", True),
    "is_valid_rgb": ("validRgb", ["rgb"], ["RGB"], "B", False),
    "rgb_to_hex": ("fmtHex", ["rgb"], ["RGB"], "S", False),
    "rgbint_to_string": ("fmtRgbFn", ["rgb"], ["RGB"], "S", False),
}


def lean_char(c):
    if c == "'" or c == "\\":
        return "'\\%s'" % c
    if not (32 <= ord(c) < 127):
        return "(Char.ofNat %d)" % ord(c)
    return "'%s'" % c


def lean_str(v):
    out = []
    for c in v:
        if c in '"\\':
            out.append("\\" + c)
        elif 32 <= ord(c) < 127:
            out.append(c)
        else:
            out.append("\\u{%x}" % ord(c))
    return '"%s"' % "".join(out)


def is_call(n, name):
    return isinstance(n, ast.Call) and isinstance(n.func, ast.Name) and n.func.id == name


def isinstance_test(n):
    """`isinstance(<name>, T)` -> (name, [type names]) or None"""
    if not (is_call(n, "isinstance") and len(n.args) == 2 and not n.keywords and isinstance(n.args[0], ast.Name)):
        return None
    t = n.args[1]
    ts = t.elts if isinstance(t, ast.Tuple) else [t]
    if not all(isinstance(x, ast.Name) for x in ts):
        return None
    return n.args[0].id, [x.id for x in ts]


class PFn(SFn):
    def __init__(self, src, node, monadic, ret):
        super().__init__(src, node, {})
        self.monadic, self.ret = monadic, ret
        self.binds = None        # pending `let t ← …` of the statement being translated
        self.fresh = 0
        self.lb = {}             # list name -> proven lower bound of its length
        self.member = set()      # names known to be keys of CSS_NAMED_COLORS
        self.fmt_used = []

    # ---------------------------------------------------------------- expressions
    def fmt_lit(self, v):
        if v not in FMT:
            raise Unsupported("format name %r" % v)
        if v not in self.fmt_used:
            self.fmt_used.append(v)
        return "Fmt.%s" % FMT[v]

    def str_expr(self, n):
        e = self.expr(n)
        if e[1] != "S":
            raise Unsupported("not a string: %s" % e[0])
        return e[0]

    def bind(self, call, t):
        if self.binds is None:
            raise Unsupported("a call that may raise in this position")
        nm = "t%d'" % self.fresh
        self.fresh += 1
        self.binds.append((nm, call))
        return (nm, t)

    def pure_expr(self, n):
        """an operand of and/or/if-else: evaluated conditionally, so nothing may be bound out of it"""
        saved, self.binds = self.binds, None
        try:
            return self.expr(n)
        finally:
            self.binds = saved

    def expr(self, n):
        if isinstance(n, ast.Constant) and n.value is None:
            return ("(none : Option RGB)", "ORGB")
        if isinstance(n, ast.Constant) and isinstance(n.value, str):
            return ("%s.toList" % lean_str(n.value), "S")
        if isinstance(n, ast.Name):
            if n.id not in self.env:
                raise Unsupported("free name " + n.id)
            return (lname(n.id), self.env[n.id])
        if isinstance(n, ast.UnaryOp) and isinstance(n.op, ast.Not):
            a = self.expr(n.operand)
            if a[1] in ("LS", "LPV", "S"):
                return ("%s.isEmpty" % self.atom(a[0]), "B")
            return ("!%s" % self.atom(self.toB(a)), "B")
        if isinstance(n, ast.BoolOp):
            op = " && " if isinstance(n.op, ast.And) else " || "
            parts = [self.expr(n.values[0])] + [self.pure_expr(v) for v in n.values[1:]]
            return ("(" + op.join(self.toB(p) for p in parts) + ")", "B")
        if isinstance(n, ast.IfExp):
            raise Unsupported("conditional expression")
        if isinstance(n, ast.BinOp) and isinstance(n.op, ast.Add):
            a, b = self.expr(n.left), self.expr(n.right)
            if a[1] == "S" and b[1] == "S":
                return ("(%s ++ %s)" % (a[0], b[0]), "S")
            if self.is_int(a[1]) and self.is_int(b[1]):
                return ("(%s + %s)" % (self.toI(a), self.toI(b)), "I")
            raise Unsupported("+ on %s, %s" % (a[1], b[1]))
        if isinstance(n, ast.BinOp):
            raise Unsupported("operator " + type(n.op).__name__)
        if isinstance(n, ast.Subscript):
            if isinstance(n.value, ast.Name) and n.value.id == "CSS_NAMED_COLORS" and "CSS_NAMED_COLORS" not in self.env:
                k = n.slice
                if not (isinstance(k, ast.Name) and self.env.get(k.id) == "S"):
                    raise Unsupported("key of CSS_NAMED_COLORS[...]")
                if k.id not in self.member:
                    raise Unsupported("CSS_NAMED_COLORS[%s] without a dominating membership test" % k.id)
                return ("((lookupNamed E %s).getD [])" % lname(k.id), "S")
            if isinstance(n.value, ast.Name) and self.env.get(n.value.id) == "LS" and isinstance(n.slice, ast.Constant) \
                    and type(n.slice.value) is int and n.slice.value >= 0:
                i = n.slice.value
                if i >= self.lb.get(n.value.id, 0):
                    raise Unsupported("%s[%d] without a dominating length test" % (n.value.id, i))
                return ("(%s.getD %d [])" % (lname(n.value.id), i), "S")
            raise Unsupported("subscript")
        if isinstance(n, ast.Tuple):
            es = [self.expr(e) for e in n.elts]
            if len(es) == 3 and all(self.is_int(t) for _, t in es):
                return ("(%s, %s, %s)" % tuple(self.toI(e) for e in es), "RGB")
            raise Unsupported("tuple of %s" % ",".join(str(t) for _, t in es))
        if isinstance(n, ast.Compare):
            if len(n.ops) != 1:
                raise Unsupported("chained comparison")
            return self.compare1(n.left, n.ops[0], n.comparators[0])
        if isinstance(n, ast.Call):
            return self.call(n)
        if isinstance(n, ast.Constant) and (isinstance(n.value, bool) or type(n.value) is int):
            return super().expr(n)
        raise Unsupported(type(n).__name__)

    def compare1(self, ln, op, rn):
        # membership
        if isinstance(op, (ast.In, ast.NotIn)):
            neg = "!" if isinstance(op, ast.NotIn) else ""
            if isinstance(rn, ast.Name) and rn.id == "CSS_NAMED_COLORS" and rn.id not in self.env:
                return ("%s(lookupNamed E %s).isSome" % (neg, self.atom(self.str_expr(ln))), "B")
            if isinstance(ln, ast.Constant) and isinstance(ln.value, str) and len(ln.value) == 1:
                r = self.expr(rn)
                if r[1] != "S":
                    raise Unsupported("`in` on %s" % r[1])
                return ("%s%s.contains %s" % (neg, self.atom(r[0]), lean_char(ln.value)), "B")
            raise Unsupported("membership test")
        # identity with None
        if isinstance(op, (ast.Is, ast.IsNot)):
            if not (isinstance(rn, ast.Constant) and rn.value is None):
                raise Unsupported("`is` with something else than None")
            a = self.expr(ln)
            if a[1] != "ORGB":
                raise Unsupported("`is None` on %s" % a[1])
            return ("%s.%s" % (self.atom(a[0]), "isNone" if isinstance(op, ast.Is) else "isSome"), "B")
        # format names
        lc = isinstance(ln, ast.Constant) and isinstance(ln.value, str)
        rc = isinstance(rn, ast.Constant) and isinstance(rn.value, str)
        if isinstance(op, (ast.Eq, ast.NotEq)) and (lc != rc):
            other = self.expr(rn if lc else ln)
            if other[1] != "FMT":
                raise Unsupported("comparison of %s with a string literal" % other[1])
            lit = self.fmt_lit((ln if lc else rn).value)
            a, b = (lit, other[0]) if lc else (other[0], lit)
            return ("decide (%s %s %s)" % (a, "=" if isinstance(op, ast.Eq) else "≠", b), "B")
        a, b = self.expr(ln), self.expr(rn)
        rel = {ast.Eq: "=", ast.NotEq: "≠", ast.LtE: "≤", ast.Lt: "<", ast.GtE: "≥", ast.Gt: ">"}.get(type(op))
        if rel is None:
            raise Unsupported("comparison operator")

        def nat(e):
            return e[1] == "N" or (self.is_ilit(e[1]) and e[1][1] >= 0)
        if (nat(a) and nat(b)) or (self.is_int(a[1]) and self.is_int(b[1])):
            return ("decide (%s %s %s)" % (a[0], rel, b[0]), "B")
        raise Unsupported("comparison of %s and %s" % (a[1], b[1]))

    def call(self, n):
        f = n.func
        # methods of str
        if isinstance(f, ast.Attribute) and not (isinstance(f.value, ast.Name) and f.value.id == "re" and "re" not in self.env):
            recv = self.expr(f.value)
            if recv[1] != "S":
                raise Unsupported("method .%s of %s" % (f.attr, recv[1]))
            if n.keywords:
                raise Unsupported("keyword arguments of .%s" % f.attr)
            if f.attr in ("strip", "lower") and not n.args:
                return ("Str.%s E.cls %s" % (f.attr, self.atom(recv[0])), "S")
            if f.attr in ("startswith", "endswith") and len(n.args) == 1 and isinstance(n.args[0], ast.Constant) and isinstance(n.args[0].value, str):
                return ("Str.%s %s %s.toList" % ("startsWith" if f.attr == "startswith" else "endsWith", self.atom(recv[0]), lean_str(n.args[0].value)), "B")
            raise Unsupported("str method ." + f.attr)
        if isinstance(f, ast.Attribute):
            # re.fullmatch(<pattern literal>, s), used for its truth value
            if f.attr != "fullmatch" or len(n.args) != 2 or n.keywords or not (isinstance(n.args[0], ast.Constant) and isinstance(n.args[0].value, str)):
                raise Unsupported("re." + f.attr)
            pat = n.args[0].value
            if pat not in REGEX:
                raise Unsupported("regular expression %r" % pat)
            return ("%s %s" % (REGEX[pat], self.atom(self.str_expr(n.args[1]))), "B")
        if not isinstance(f, ast.Name):
            raise Unsupported("call")
        if f.id == "isinstance":
            t = isinstance_test(n)
            if t and self.env.get(t[0]) == "ORGB" and set(t[1]) == {"tuple", "list"}:
                return ("%s.isSome" % lname(t[0]), "B")
            raise Unsupported("isinstance in this position")
        if f.id == "len" and len(n.args) == 1 and not n.keywords:
            a = self.expr(n.args[0])
            if a[1] in ("LS", "LPV", "S"):
                return ("%s.length" % self.atom(a[0]), "N")
            if a[1] in ("ORGB", "RGB"):
                return ("3", ("ilit", 3))
            raise Unsupported("len of %s" % a[1])
        if f.id == "tuple" and len(n.args) == 1 and not n.keywords:
            a = self.expr(n.args[0])
            if a[1] in ("ORGB", "RGB"):
                return a
            raise Unsupported("tuple() of %s" % a[1])
        if f.id == "parse_color_to_rgb":
            if len(n.args) == 1 and not n.keywords:
                a = self.expr(n.args[0])
                if a[1] == "ORGB":
                    return self.bind("bgParsed %s" % self.atom(a[0]), "RGB")
            raise Unsupported("recursive call on something else than the background")
        if f.id == "rgb_to_hsl" and len(n.args) == 1 and not n.keywords:
            a = self.expr(n.args[0])
            if a[1] != "RGB":
                raise Unsupported("rgb_to_hsl of %s" % a[1])
            return ("(let t' := rgbToHslText (α := α) %s; OutVal.hsl t'.1 t'.2.1 t'.2.2)" % self.atom(a[0]), "OUT")
        if f.id in CALLEES and f.id not in self.env:
            head, pnames, ptypes, rtype, raises = CALLEES[f.id]
            slots = dict(zip(pnames, n.args))
            if len(n.args) > len(pnames):
                raise Unsupported("arity of " + f.id)
            for k in n.keywords:
                if k.arg not in pnames or k.arg in slots:
                    raise Unsupported("keyword %s of %s" % (k.arg, f.id))
                slots[k.arg] = k.value
            if len(slots) != len(pnames):
                raise Unsupported("%s: every parameter must be given" % f.id)
            out = []
            # Python evaluates positional arguments, then keywords, in source order; so do the binds
            order = list(n.args) + [k.value for k in n.keywords]
            done = {}
            for node in order:
                pn = [p for p in pnames if slots[p] is node][0]
                done[pn] = self.arg(node, ptypes[pnames.index(pn)], f.id)
            out = [done[p] for p in pnames]
            text = "%s %s" % (head, " ".join(out))
            if raises:
                return self.bind(text, rtype)
            return (text, rtype)
        if f.id in ("max", "min", "round", "int"):
            if n.keywords:
                raise Unsupported("keyword arguments")
            args = [self.expr(a) for a in n.args]
            if f.id == "round" and len(args) == 1 and args[0][1] == "F":
                return ("Num.roundHE %s" % self.atom(args[0][0]), "I")
            if f.id == "int" and len(args) == 1 and args[0][1] == "I":
                return args[0]
            if f.id in ("max", "min") and len(args) == 2 and all(self.is_int(t) for _, t in args):
                return ("(%s %s %s)" % (f.id, self.atom(self.toI(args[0])), self.atom(self.toI(args[1]))), "I")
            raise Unsupported("%s on %s" % (f.id, ",".join(str(t) for _, t in args)))
        raise Unsupported("call of " + f.id)

    def arg(self, node, pt, fname):
        if pt == "RGBA":
            if not (isinstance(node, ast.Tuple) and len(node.elts) == 4):
                raise Unsupported("%s: the colour must be written as a 4-tuple" % fname)
            es = [self.expr(e) for e in node.elts]
            if not (all(self.is_int(t) for _, t in es[:3]) and es[3][1] == "F"):
                raise Unsupported("%s: component types %s" % (fname, ",".join(str(t) for _, t in es)))
            return " ".join(self.atom(self.toI(e)) for e in es[:3]) + " " + self.atom(es[3][0])
        a = self.expr(node)
        if pt == "ORGB" and a[1] == "RGB":
            return "(some %s)" % a[0]
        if pt == "B" and a[1] == "B":
            return self.atom(a[0]) if " " in a[0] else a[0]
        if a[1] != pt:
            raise Unsupported("%s: argument of type %s where %s is expected" % (fname, a[1], pt))
        return self.atom(a[0]) if (" " in a[0] or a[0].startswith("-")) else a[0]

    # ---------------------------------------------------------------- statements
    def with_binds(self, pad, body_of):
        """translate one statement's expressions with `body_of()`; the calls that may raise found on the way are bound in front"""
        saved, self.binds = self.binds, ([] if self.monadic else None)
        try:
            body = body_of()
            binds = self.binds or []
        finally:
            self.binds = saved
        return binds, body

    def emit(self, pad, binds, text_of_rest):
        """`binds` then the term `text_of_rest(indent)`"""
        if not binds:
            return text_of_rest(pad)
        lines = "".join("%s  let %s ← %s\n" % (pad, nm, c) for nm, c in binds)
        return "%sdo\n%s%s" % (pad, lines, text_of_rest(pad + "  "))

    def ret_value(self, e):
        s, t = e
        if self.ret == "OUT" and t == "S":
            s, t = "OutVal.text %s" % self.atom(s), "OUT"
        elif self.ret == "OUT" and t == "RGB":
            s, t = "OutVal.tuple %s" % self.atom(s), "OUT"
        if t != self.ret:
            raise Unsupported("return of %s where %s is expected" % (t, self.ret))
        return s

    def narrow(self, test, env_then):
        """facts a true test establishes: lower bounds of lengths, membership in the keyword table"""
        if isinstance(test, ast.Compare) and len(test.ops) == 1:
            l, op, r = test.left, test.ops[0], test.comparators[0]
            if is_call(l, "len") and len(l.args) == 1 and isinstance(l.args[0], ast.Name) and isinstance(r, ast.Constant) and type(r.value) is int:
                k = {ast.GtE: r.value, ast.Eq: r.value, ast.Gt: r.value + 1}.get(type(op))
                if k is not None:
                    env_then["lb"][l.args[0].id] = max(k, env_then["lb"].get(l.args[0].id, 0))
            if isinstance(op, ast.In) and isinstance(l, ast.Name) and isinstance(r, ast.Name) and r.id == "CSS_NAMED_COLORS":
                env_then["member"].add(l.id)
        if isinstance(test, ast.BoolOp) and isinstance(test.op, ast.And):
            for v in test.values:
                self.narrow(v, env_then)

    def save(self):
        return (dict(self.env), dict(self.lb), set(self.member))

    def restore(self, st):
        self.env, self.lb, self.member = dict(st[0]), dict(st[1]), set(st[2])

    def assign_name(self, name, t):
        self.env[name] = t
        self.lb.pop(name, None)
        self.member.discard(name)

    def mblock(self, stmts, ind):
        pad = "  " * ind
        if not stmts:
            raise Unsupported("a path without return or raise")
        s, rest = stmts[0], list(stmts[1:])
        if is_noise(s) or (isinstance(s, ast.Expr) and isinstance(s.value, ast.Constant) and isinstance(s.value.value, str)) \
                or isinstance(s, (ast.Import, ast.ImportFrom)):
            return self.mblock(rest, ind)
        if isinstance(s, ast.Raise):
            if not self.monadic:
                raise Unsupported("raise in a function translated as total")
            return super().mblock([s], ind)
        if isinstance(s, ast.Return):
            if s.value is None:
                raise Unsupported("bare return")
            callee = s.value.func.id if isinstance(s.value, ast.Call) and isinstance(s.value.func, ast.Name) else None
            if self.monadic and (callee == "parse_color_to_rgb" or (callee in CALLEES and CALLEES[callee][4])):
                # a call that may raise in tail position: the call itself
                binds, e = self.with_binds(pad, lambda: self.expr(s.value))
                last = binds.pop()
                if e[0] != last[0] or e[1] != self.ret:
                    raise Unsupported("return of %s where %s is expected" % (e[1], self.ret))
                return self.emit(pad, binds, lambda p: p + last[1])
            binds, v = self.with_binds(pad, lambda: self.ret_value(self.fmt_ret(s.value)))
            return self.emit(pad, binds, lambda p: p + ("pure %s" % self.atom(v) if self.monadic else v))
        if isinstance(s, ast.Assign) and len(s.targets) == 1 and isinstance(s.targets[0], ast.Name):
            t = s.targets[0].id
            binds, e = self.with_binds(pad, lambda: self.expr(s.value))
            if self.is_ilit(e[1]):
                e = (e[0], "I")
            if e[1] not in LEAN_TYPE:
                raise Unsupported("assignment of %s" % (e[1],))
            self.assign_name(t, e[1])
            if binds and binds[-1][0] == e[0]:
                # v = <call that may raise>
                last = binds.pop()
                binds.append((lname(t), last[1]))
                return self.emit(pad, binds, lambda p: self.mblock(rest, len(p) // 2))
            return self.emit(pad, binds, lambda p: "%slet %s : %s := %s\n%s" % (p, lname(t), LEAN_TYPE[e[1]], e[0], self.mblock(rest, len(p) // 2)))
        if isinstance(s, ast.Try):
            return self.try_stmt(s, rest, ind)
        if isinstance(s, ast.If):
            it = isinstance_test(s.test)
            if it and self.env.get(it[0]) == "PV":
                return self.match_stmt(s, rest, ind)
            binds, c = self.with_binds(pad, lambda: self.toB(self.expr(s.test)))
            st = self.save()

            def go(p):
                i2 = len(p) // 2
                then_facts = {"lb": dict(self.lb), "member": set(self.member)}
                self.narrow(s.test, then_facts)
                self.lb, self.member = then_facts["lb"], then_facts["member"]
                a = self.mblock(list(s.body) + ([] if self.terminates(s.body) else rest), i2 + 1)
                self.restore(st)
                b = self.mblock(list(s.orelse) + ([] if s.orelse and self.terminates(s.orelse) else rest), i2 + 1)
                self.restore(st)
                return "%sif %s then\n%s\n%selse\n%s" % (p, c, a, p, b)
            return self.emit(pad, binds, go)
        raise Unsupported("statement " + type(s).__name__)

    def fmt_ret(self, v):
        if self.ret == "FMT" and isinstance(v, ast.Constant) and isinstance(v.value, str):
            return (self.fmt_lit(v.value), "FMT")
        return self.expr(v)

    def match_stmt(self, s, rest, ind):
        """if isinstance(v, T): … elif isinstance(v, U): … else: …   on a Python value"""
        pad = "  " * ind
        var = isinstance_test(s.test)[0]
        arms, cur = [], s
        while True:
            arms.append((isinstance_test(cur.test)[1], list(cur.body)))
            if len(cur.orelse) == 1 and isinstance(cur.orelse[0], ast.If) and (isinstance_test(cur.orelse[0].test) or (None,))[0] == var:
                cur = cur.orelse[0]
            else:
                default = list(cur.orelse)
                break
        ctor = {"str": ("str", "S"), "tuple": ("tuple", "LPV"), "list": ("list", "LPV")}
        seen, out = set(), []
        st = self.save()
        for tnames, body in arms:
            for tn in tnames:
                if tn not in ctor:
                    raise Unsupported("isinstance(…, %s)" % tn)
                if tn in seen:
                    continue
                seen.add(tn)
                c, ty = ctor[tn]
                self.restore(st)
                self.assign_name(var, ty)
                a = self.mblock(body + ([] if self.terminates(body) else rest), ind + 2)
                out.append("%s| .%s %s =>\n%s" % (pad, c, lname(var), a))
        self.restore(st)
        d = self.mblock(default + ([] if default and self.terminates(default) else rest), ind + 2)
        self.restore(st)
        out.append("%s| _ =>\n%s" % (pad, d))
        return "%smatch %s with\n%s" % (pad, lname(var), "\n".join(out))

    def try_stmt(self, s, rest, ind):
        pad = "  " * ind
        if not self.monadic:
            raise Unsupported("try in a function translated as total")
        if len(s.handlers) != 1 or s.orelse or s.finalbody:
            raise Unsupported("shape of try statement")
        h = s.handlers[0]
        if not (isinstance(h.type, ast.Name) and h.type.id == "ValueError"):
            raise Unsupported("exception filter of the handler")
        names, lines = [], []
        st = self.save()
        for b in s.body:
            if is_noise(b):
                continue
            if not (isinstance(b, ast.Assign) and len(b.targets) == 1 and isinstance(b.targets[0], ast.Name)):
                raise Unsupported("statement %s inside try" % type(b).__name__)
            binds, e = self.with_binds(pad, lambda: self.expr(b.value))
            if self.is_ilit(e[1]):
                e = (e[0], "I")
            if e[1] not in LEAN_TYPE:
                raise Unsupported("assignment of %s" % (e[1],))
            t = b.targets[0].id
            self.assign_name(t, e[1])
            if t in names:
                names.remove(t)
            names.append(t)
            for nm, c in binds:
                lines.append("%s    let %s ← %s" % (pad, nm, c))
            lines.append("%s    let %s : %s := %s" % (pad, lname(t), LEAN_TYPE[e[1]], e[0]))
        if not names:
            raise Unsupported("try without assignments")
        after = self.save()
        tup = lname(names[0]) if len(names) == 1 else "(%s)" % ", ".join(lname(x) for x in names)
        ty = " × ".join(LEAN_TYPE[self.env[x]] for x in names)
        tv = "try%d'" % self.fresh
        self.fresh += 1
        # the handler runs in the state before the try (names bound inside it may be unbound: not visible to it)
        self.restore(st)
        if h.name:
            self.env.pop(h.name, None)
        hb = self.mblock(list(h.body) + ([] if self.terminates(h.body) else rest), ind + 2)
        self.restore(after)
        ok = self.mblock(rest, ind + 2)
        return ("%slet %s : Except PyErr (%s) := do\n%s\n%s    pure %s\n%smatch %s with\n%s| .ok %s =>\n%s\n%s| .error .valueError =>\n%s\n%s| .error err' => .error err'"
                % (pad, tv, ty, "\n".join(lines), pad, tup, pad, tv, pad, tup, ok, pad, hb, pad))


TARGETS = [
    # python function, generated name, parameters [(python name, type)], result type, may raise, selector of the statements
    ("detect_color_format", "detect_color_format", [("color", "PV")], "FMT", False, None),
    ("format_color", "format_color", [("rgb", "RGB"), ("format_type", "FMT")], "OUT", False, None),
    ("parse_color_to_rgb", "parse_color_string", [("color", "S"), ("background", "ORGB")], "RGB", True, "str_branch"),
]


def str_branch(node):
    """the body of the top-level `if isinstance(color, str):` of the function, continued by what follows that statement"""
    first = node.args.args[0].arg
    idx = [i for i, x in enumerate(node.body) if isinstance(x, ast.If) and isinstance_test(x.test) == (first, ["str"])]
    if len(idx) != 1:
        raise Unsupported("expected one top-level `if isinstance(%s, str):`, found %d" % (first, len(idx)))
    st = node.body[idx[0]]
    # (an `else:` of that statement would not run for a str; what follows the statement does, if the body falls through)
    return list(st.body) + list(node.body[idx[0] + 1:]), st.lineno


def generate():
    texts, n = [], 0
    used = []
    try:
        src = open(os.path.join(REPO, CORE, SRC), encoding="utf-8").read()
        tree = ast.parse(src)
    except Exception as e:  # noqa
        src, tree = "", None
        texts.append("-- %s: outside the translated subset (%s)\n" % (SRC, str(e).replace("\n", " ")[:300]))
    for fn, gname, params, ret, monadic, sel in (TARGETS if tree is not None else []):
        try:
            nodes = [x for x in tree.body if isinstance(x, ast.FunctionDef) and x.name == fn]
            if len(nodes) != 1:
                raise Unsupported("not found (or defined twice)")
            node = nodes[0]
            a = node.args
            if [x.arg for x in a.args] != [p for p, _ in params] or a.vararg or a.kwarg or a.kwonlyargs or a.posonlyargs:
                raise Unsupported("parameter list %s" % [x.arg for x in a.args])
            f = PFn(src, node, monadic, ret)
            for p, t in params:
                f.env[p] = t
            if sel == "str_branch":
                stmts, line = str_branch(node)
                doc = "the string branch of `%s` (line %d)" % (fn, line)
            else:
                stmts, line = list(node.body), node.lineno
                doc = "`%s` (line %d)" % (fn, line)
            body = f.mblock(stmts, 1)
            needs_e = _re.search(r"\bE\b", body) is not None
            sig = ("(E : PEnv) " if needs_e or monadic or fn == "detect_color_format" else "") + " ".join("(%s : %s)" % (lname(p), LEAN_TYPE[t]) for p, t in params)
            rt = ("Except PyErr %s" % LEAN_TYPE[ret]) if monadic else LEAN_TYPE[ret]
            texts.append("/-- %s -/\ndef %s %s : %s :=\n%s\n" % (doc, gname, sig, rt, body))
            for v in f.fmt_used:
                if v not in used:
                    used.append(v)
            n += 1
        except Exception as e:  # noqa: anything the subset does not cover, including surprises in the translator itself
            e = str(e).replace("\n", " ")[:300]
            texts.append("-- %s: outside the translated subset (%s)\n" % (fn, e))
    checks = "".join("example : Fmt.toString %s = %s := rfl\n" % ("Fmt." + FMT[v], lean_str(v)) for v in used)
    out = ("import CmModel.Parser\n/-! GENERATED by harness/translate/parsersrc.py from src/cm_colors/core/color_parser.py — do not edit. -/\n"
           "set_option linter.unusedVariables false\nnamespace CmGen.ParserSrc\nopen Cm Cm.Parse\nvariable {α : Type} [Num α]\n\n"
           + ("/-! the format names used below are the constructors they were translated to -/\n" + checks + "\n" if checks else "")
           + "\n".join(texts) + "\nend CmGen.ParserSrc\n")
    path = os.path.join(LEAN, "CmGen", "ParserSrc.lean")
    old = open(path, encoding="utf-8").read() if os.path.exists(path) else None
    if old != out:
        with open(path, "w", encoding="utf-8") as fh:
            fh.write(out)
    return n


def summary():
    path = os.path.join(LEAN, "CmGen", "ParserSrc.lean")
    text = open(path, encoding="utf-8").read() if os.path.exists(path) else ""
    return {"generated_definitions": _re.findall(r"^def (\S+)", text, _re.M), "not_translated": _re.findall(r"^-- (.*)$", text, _re.M),
            "file": "lean/CmGen/ParserSrc.lean", "translator": "harness/translate/parsersrc.py"}


if __name__ == "__main__":
    print(generate())
