"""Stylesheet -> abstract syntax tree (the shape the Lean CLI model consumes), using the real
tinycss2 exactly as cli/main.py calls it; wire encoding; structural comparison."""
import unicodedata

import tinycss2
from tinycss2.ast import AtRule, Declaration, QualifiedRule

from proto import shex, unhex


def _ser(node):
    try:
        return node.serialize(), True
    except TypeError:
        return "<unserialisable %s %s>" % (node.type, getattr(node, "kind", "")), False


def items_of(content):
    out = []
    for d in tinycss2.parse_declaration_list(content, skip_whitespace=False, skip_comments=False):
        if isinstance(d, Declaration):
            out.append(("D", d.name, d.lower_name, tinycss2.serialize(d.value), bool(d.important),
                        "".join(t.serialize() for t in d.value if t.type == "comment")))
        else:
            t, ok = _ser(d)
            out.append(("X", t, ok))
    return out


def nodes_of(rules):
    out = []
    for n in rules:
        if isinstance(n, QualifiedRule):
            out.append(("R", tinycss2.serialize(n.prelude).strip(), items_of(n.content)))
        elif isinstance(n, AtRule) and n.lower_at_keyword in ("media", "supports") and n.content:
            nested = tinycss2.parse_rule_list(n.content, skip_whitespace=False, skip_comments=False)
            out.append(("A", n.lower_at_keyword, tinycss2.serialize(n.prelude), nodes_of(nested)))
        else:
            t, ok = _ser(n)
            out.append(("O", t, ok))
    return out


def ast_of_css(text):
    return nodes_of(tinycss2.parse_stylesheet(text, skip_whitespace=False, skip_comments=False))


def hx(s):
    return shex(s)


def enc_items(items):
    toks = []
    for it in items:
        if it[0] == "D":
            toks += ["D", hx(it[1]), hx(it[2]), hx(it[3]), "1" if it[4] else "0", hx(it[5])]
        else:
            toks += ["X", hx(it[1]), "1" if it[2] else "0"]
    return toks


def enc_nodes(nodes):
    toks = []
    for n in nodes:
        if n[0] == "R":
            toks += ["R", hx(n[1]), str(len(n[2]))] + enc_items(n[2])
        elif n[0] == "A":
            toks += ["A", hx(n[1]), hx(n[2]), str(len(n[3]))] + enc_nodes(n[3])
        else:
            toks += ["O", hx(n[1]), "1" if n[2] else "0"]
    return toks


def dec_nodes(toks, k):
    """inverse of the driver's encodeNodes: returns (nodes, rest)"""
    out = []
    for _ in range(k):
        t = toks[0]
        if t == "R":
            sel, n = unhex(toks[1]), int(toks[2])
            toks = toks[3:]
            items = []
            for _ in range(n):
                if toks[0] == "D":
                    items.append(("D", unhex(toks[1]), unhex(toks[2]), unhex(toks[3]), toks[4] == "1", unhex(toks[5]))); toks = toks[6:]
                else:
                    items.append(("X", unhex(toks[1]), toks[2] == "1")); toks = toks[3:]
            out.append(("R", sel, items))
        elif t == "A":
            kw, pre, n = unhex(toks[1]), unhex(toks[2]), int(toks[3])
            body, toks = dec_nodes(toks[4:], n)
            out.append(("A", kw, pre, body))
        else:
            out.append(("O", unhex(toks[1]), toks[2] == "1")); toks = toks[3:]
    return out, toks


def strings_of_nodes(nodes):
    for n in nodes:
        if n[0] == "R":
            yield n[1]
            for it in n[2]:
                for x in it[1:]:
                    if isinstance(x, str):
                        yield x
        elif n[0] == "A":
            yield n[1]; yield n[2]
            yield from strings_of_nodes(n[3])
        else:
            yield n[1]


def cls_tokens(strings):
    """cp:space:digit:lowerhex:word for every non-ASCII character"""
    seen = {}
    for s in strings:
        for ch in s:
            if ord(ch) >= 128 and ch not in seen:
                try:
                    d = str(unicodedata.decimal(ch))
                except ValueError:
                    d = "x"
                import re
                w = 1 if re.match(r"\w", ch) else 0
                seen[ch] = "%d:%d:%s:%s:%d" % (ord(ch), 1 if ch.isspace() else 0, d, shex(ch.lower()), w)
    return list(seen.values())
