"""Runs the real cm-colors command in a private directory and observes everything it does."""
import html.parser
import os
import re
import shutil
import sys
import tempfile


class Cards(html.parser.HTMLParser):
    """cards of cm_colors_report.html: selector, file, before/after colour codes, badges, styles"""

    def __init__(self):
        super().__init__(convert_charrefs=True)
        self.cards, self.cur, self.field = [], None, None

    def handle_starttag(self, tag, attrs):
        a = dict(attrs)
        cls = a.get("class", "")
        if tag == "div" and cls == "card":
            self.cur = {"codes": [], "badges": [], "styles": []}
            self.cards.append(self.cur)
        if self.cur is None:
            return
        if cls in ("selector", "file-info", "color-code") or cls.startswith("badge"):
            self.field = cls
            self.cur.setdefault("_buf", "")
            self.cur["_buf"] = ""
        if cls == "color-box":
            self.cur["styles"].append(a.get("style", ""))

    def handle_data(self, data):
        if self.cur is not None and self.field:
            self.cur["_buf"] += data

    def handle_endtag(self, tag):
        if self.cur is not None and self.field and tag == "div":
            v = self.cur.pop("_buf", "")
            if self.field == "selector":
                self.cur["selector"] = v
            elif self.field == "file-info":
                self.cur["file"] = v
            elif self.field == "color-code":
                self.cur["codes"].append(v)
            else:
                self.cur["badges"].append(v)
            self.field = None


def parse_stdout(out):
    st = {"accessible": 0, "tuned": 0, "failed": 0, "failures": [], "errors": []}
    m = re.search(r"(\d+) color pairs already readable", out)
    st["accessible"] = int(m.group(1)) if m else 0
    m = re.search(r"(\d+) color pairs adjusted", out)
    st["tuned"] = int(m.group(1)) if m else 0
    m = re.search(r"(\d+) color pairs need your attention", out)
    st["failed"] = int(m.group(1)) if m else 0
    lines = out.split("\n")
    for i, l in enumerate(lines):
        m = re.match(r"^  (.*?) -> (.*)$", l)
        if m:
            reason = lines[i + 1].strip() if i + 1 < len(lines) and lines[i + 1].startswith("    Reason:") else ""
            st["failures"].append((m.group(1), m.group(2), reason))
    st["report"] = "Report generated" in out
    return st


def snapshot(root):
    snap = {}
    for d, dirs, files in os.walk(root):
        for f in files + [x for x in dirs if os.path.islink(os.path.join(d, x))]:
            p = os.path.join(d, f)
            rel = os.path.relpath(p, root)
            if os.path.islink(p):
                snap[rel] = ("link", os.readlink(p))
            else:
                with open(p, "rb") as fh:
                    snap[rel] = ("file", fh.read())
        for x in dirs:
            if not os.path.islink(os.path.join(d, x)):
                snap[os.path.relpath(os.path.join(d, x), root) + "/"] = ("dir", None)
    return snap


def run_cli(job):
    """job = (files: {relpath: bytes | ('dir',) | ('link', target)}, target relpath, args list)
    runs `cm-colors <target> args` in-process (click runner) with cwd = a private work dir"""
    files, target, args = job
    from common import repo_import
    sys.stdout = sys.__stdout__
    repo_import()
    from click.testing import CliRunner
    from cm_colors.cli.main import main
    root = tempfile.mkdtemp(prefix="cmv_cli_")
    work = os.path.join(root, "work"); src = os.path.join(root, "src")
    os.makedirs(work); os.makedirs(src)
    cwd = os.getcwd()
    try:
        for rel, content in files.items():
            p = os.path.join(src, rel)
            os.makedirs(os.path.dirname(p), exist_ok=True)
            if isinstance(content, tuple) and content[0] == "dir":
                os.makedirs(p, exist_ok=True)
            elif isinstance(content, tuple) and content[0] == "link":
                os.symlink(content[1], p)
            else:
                with open(p, "wb") as f:
                    f.write(content)
        before = snapshot(src)
        from pathlib import Path
        tp = Path(os.path.join(src, target))
        order = [os.path.relpath(str(q), src) for q in tp.rglob("*.css")] if tp.is_dir() else [target]
        os.chdir(work)
        runner = CliRunner()
        res = runner.invoke(main, [os.path.join(src, target)] + list(args))
        os.chdir(cwd)
        after = snapshot(src)
        workfiles = snapshot(work)
        try:
            stdout, stderr = res.stdout, res.stderr
        except Exception:  # noqa
            stdout, stderr = res.output, ""
        out = {"exit": res.exit_code, "stdout": stdout, "stderr": stderr,
               "exception": (type(res.exception).__name__ + ": " + str(res.exception)[:200]) if res.exception and not isinstance(res.exception, SystemExit) else None,
               "before": before, "after": after, "work": workfiles, "order": order}
        rep = workfiles.get("cm_colors_report.html")
        if rep:
            c = Cards(); c.feed(rep[1].decode("utf-8", "replace")); out["cards"] = c.cards
        return out
    finally:
        os.chdir(cwd)
        shutil.rmtree(root, ignore_errors=True)
