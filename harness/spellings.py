"""Spellings of a colour in every input format the library documents."""
import colorsys
from opt_common import css_read, _named

OPAQUE_KINDS = ["hex6", "HEX6", "hex3", "barehex", "rgbfn", "rgbfn_ws", "hsl", "hsl_uc", "named", "tuple", "list"]
TRANSLUCENT_KINDS = ["rgba", "hsla", "rgba_tuple", "rgba_uc", "hsla_uc", "rgb4", "rgb_slash", "bare4"]

# the documented output format for each input spelling kind
OUT_FORMAT = {"hex6": "hex", "HEX6": "hex", "hex3": "hex", "barehex": "hex", "rgbfn": "rgb", "rgbfn_ws": "rgb",
              "hsl": "hsl", "named": "hex", "tuple": "tuple", "list": "tuple",
              "rgba": "hex", "hsla": "hex", "rgba_tuple": "hex", "hsl_uc": "hsl", "rgba_uc": "hex", "hsla_uc": "hex",
              # translucent text written without the `rgba(` prefix: the library accepts it and answers in rgb() notation
              "rgb4": "rgb", "rgb_slash": "rgb", "bare4": "rgb"}


def hsl_string(rgb):
    """an hsl() string that a CSS reader reads back as exactly `rgb` (or None)"""
    r, g, b = [x / 255 for x in rgb]
    h, l, s = colorsys.rgb_to_hls(r, g, b)
    for digits in (4, 6, 9, 12):
        st = "hsl(%s, %s%%, %s%%)" % (round(h * 360, digits), round(s * 100, digits), round(l * 100, digits))
        if css_read(st) == tuple(rgb):
            return st
    return None


def _fn_case(rng, s):
    """function name in upper or mixed case (CSS function names are case-insensitive)"""
    i = s.index("(")
    name = s[:i]
    return rng.choice([name.upper(), name.capitalize(), name[0] + name[1:].upper()]) + s[i:]


def spell(rng, rgb, kind):
    """returns (value, kind_used) — falls back to hex6 when the kind cannot denote this colour"""
    r, g, b = rgb
    if kind in ("hsl_uc", "rgba_uc", "hsla_uc"):
        v, used = spell(rng, rgb, kind[:-3])
        if used == kind[:-3] and isinstance(v, str):
            return _fn_case(rng, v), kind
        return v, used
    if kind == "hex3" and all(x % 17 == 0 for x in rgb):
        return "#%x%x%x" % (r // 17, g // 17, b // 17), kind
    if kind == "HEX6":
        return "#%02X%02X%02X" % rgb, kind
    if kind == "barehex":
        return "%02x%02x%02x" % rgb, kind
    if kind == "rgbfn":
        return "rgb(%d, %d, %d)" % rgb, kind
    if kind == "rgbfn_ws":
        return rng.choice(["RGB(%d,%d,%d)", "rgb( %d , %d , %d )", "  rgb(%d,  %d,%d) "]) % rgb, kind
    if kind == "hsl":
        s = hsl_string(rgb)
        if s:
            return s, kind
    if kind == "named":
        names = [k for k, v in _named() if v == tuple(rgb)]
        if names:
            n = rng.choice(names)
            return (n.upper() if rng.random() < 0.2 else n), kind
    if kind == "tuple":
        return tuple(rgb), kind
    if kind == "list":
        return list(rgb), kind
    if kind == "rgba":
        a = rng.choice([1, 1.0, 0.5, 0.25, 0.9, round(rng.random(), 3)])
        return "rgba(%d, %d, %d, %s)" % (r, g, b, a), kind
    if kind == "hsla":
        s = hsl_string(rgb)
        if s:
            a = rng.choice([1, 0.5, 0.75, round(rng.random(), 3)])
            return s.replace("hsl(", "hsla(")[:-1] + ", %s)" % a, kind
    if kind in ("rgb4", "rgb_slash", "bare4"):
        a = rng.choice([1, 1.0, 0.5, 0.25, 0.9, round(rng.random(), 3), "60%"])
        if kind == "rgb4":
            return "rgb(%d, %d, %d, %s)" % (r, g, b, a), kind
        if kind == "rgb_slash":
            return rng.choice(["rgb(%d %d %d / %s)", "RGB(%d %d %d / %s)"]) % (r, g, b, a), kind
        return rng.choice(["%d, %d, %d, %s", "%d %d %d %s"]) % (r, g, b, a), kind
    if kind == "rgba_tuple":
        a = rng.choice([1.0, 0.5, 0.3, round(rng.random(), 3)])
        return (r, g, b, a), kind
    return "#%02x%02x%02x" % tuple(rgb), "hex6"


def alpha_of(value, kind):
    """the alpha a translucent spelling was written with (1.0 for opaque kinds)"""
    import re
    base = kind[:-3] if kind.endswith("_uc") else kind
    if base not in ("rgba", "hsla", "rgba_tuple", "rgb4", "rgb_slash", "bare4"):
        return 1.0
    if isinstance(value, (tuple, list)):
        return float(value[3])
    tok = re.findall(r"[-+]?\d*\.?\d+%?", value)[-1]
    return float(tok[:-1]) / 100.0 if tok.endswith("%") else float(tok)


def composite(rgb, alpha, bg):
    """the text colour composited over the background, exactly (fractions), rounded half-even per channel"""
    from fractions import Fraction
    a = Fraction(repr(float(alpha))) if not isinstance(alpha, Fraction) else alpha
    out = []
    for c, k in zip(rgb, bg):
        v = Fraction(c) * a + Fraction(k) * (1 - a)
        n = v.numerator // v.denominator
        frac = v - n
        out.append(n + 1 if frac > Fraction(1, 2) or (frac == Fraction(1, 2) and n % 2 == 1) else n)
    return tuple(out)
