"""Line protocol to the Lean model driver (lean/.lake/build/bin/cmmodel)."""
import os, struct, subprocess, sys

VERIF = os.path.dirname(os.path.dirname(os.path.abspath(__file__)))
DRIVER = os.path.join(VERIF, "lean", ".lake", "build", "bin", "cmmodel")


def fbits(x: float) -> str:
    return "%016x" % struct.unpack("<Q", struct.pack("<d", float(x)))[0]


def bitsf(s: str) -> float:
    return struct.unpack("<d", struct.pack("<Q", int(s, 16)))[0]


def shex(s: str) -> str:
    b = s.encode("utf-8", "surrogatepass")
    return b.hex() if b else "-"


def unhex(s: str) -> str:
    return "" if s == "-" else bytes.fromhex(s).decode("utf-8", "surrogatepass")


class DriverError(RuntimeError):
    pass


def run_lines(lines, chunks=None):
    """Send all lines to the driver; return the list of output lines (same length).

    With chunks=N the input is split over N driver processes run in parallel."""
    if not os.path.exists(DRIVER):
        raise DriverError("model driver not built: " + DRIVER)
    lines = list(lines)
    if not lines:
        return []
    if chunks is None:
        chunks = min(16, max(1, len(lines) // 20000))
    if chunks <= 1:
        return _run_one(lines)
    size = (len(lines) + chunks - 1) // chunks
    parts = [lines[i:i + size] for i in range(0, len(lines), size)]
    procs = []
    for part in parts:
        p = subprocess.Popen([DRIVER], stdin=subprocess.PIPE, stdout=subprocess.PIPE)
        procs.append((p, part))
    # feed via threads to avoid pipe deadlocks
    import threading
    outs = [None] * len(procs)

    def work(i, p, part):
        data = ("\n".join(part) + "\n").encode()
        out, _ = p.communicate(data)
        outs[i] = out

    ths = [threading.Thread(target=work, args=(i, p, part)) for i, (p, part) in enumerate(procs)]
    for t in ths:
        t.start()
    for t in ths:
        t.join()
    res = []
    for (p, part), out in zip(procs, outs):
        if p.returncode != 0:
            raise DriverError("driver exited with %s" % p.returncode)
        ol = out.decode().split("\n")
        if ol and ol[-1] == "":
            ol.pop()
        if len(ol) != len(part):
            raise DriverError("driver returned %d lines for %d ops" % (len(ol), len(part)))
        res.extend(ol)
    return res


def _run_one(lines):
    data = ("\n".join(lines) + "\n").encode()
    p = subprocess.run([DRIVER], input=data, stdout=subprocess.PIPE)
    if p.returncode != 0:
        raise DriverError("driver exited with %s" % p.returncode)
    ol = p.stdout.decode().split("\n")
    if ol and ol[-1] == "":
        ol.pop()
    if len(ol) != len(lines):
        raise DriverError("driver returned %d lines for %d ops" % (len(ol), len(lines)))
    return ol


def t3(v, prefix="t:", sep=","):
    """encoding of a 3-sequence of ints; anything else gets an encoding that matches nothing the model prints"""
    try:
        if len(v) == 3 and all(type(x) is int for x in v):
            return prefix + sep.join(str(x) for x in v)
    except TypeError:
        pass
    return "x:" + repr(v)
