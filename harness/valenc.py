"""Wire encoding of Python values and Unicode character classes for the model driver."""
import math
import unicodedata
from proto import fbits, shex


def enc_val(v):
    if isinstance(v, bool):
        return ["B1" if v else "B0"]
    if isinstance(v, int):
        return ["I%d" % v]
    if isinstance(v, float):
        return ["F" + fbits(v)]
    if v is None:
        return ["N"]
    if isinstance(v, str):
        return ["S" + shex(v)]
    if isinstance(v, (tuple, list)):
        out = [("T" if isinstance(v, tuple) else "L") + str(len(v))]
        for x in v:
            out += enc_val(x)
        return out
    raise TypeError("cannot encode %r" % (v,))


def strings_of(v):
    if isinstance(v, str):
        yield v
    elif isinstance(v, (tuple, list)):
        for x in v:
            yield from strings_of(x)


def classes(*vals):
    """class tokens for every non-ASCII character in the strings of the values"""
    seen = {}
    for v in vals:
        for s in strings_of(v):
            for ch in s:
                if ord(ch) >= 128 and ch not in seen:
                    try:
                        d = str(unicodedata.decimal(ch))
                    except ValueError:
                        d = "x"
                    lo = ch.lower()
                    seen[ch] = "%d:%d:%s:%s" % (ord(ch), 1 if ch.isspace() else 0, d, shex(lo))
    return list(seen.values())


def encodable(v):
    """surrogates cannot travel as UTF-8"""
    for s in strings_of(v):
        try:
            s.encode("utf-8")
        except UnicodeEncodeError:
            return False
        if "\x00" in s:
            pass
    return True


def parse_line(v, bg=None):
    cls = classes(v)
    bgs = "-" if bg is None else "%d,%d,%d" % tuple(bg)
    return " ".join(["parse", bgs, str(len(cls))] + cls + enc_val(v))


def pair_line(text, bg, large):
    cls = classes(text, bg)
    return " ".join(["pair", "1" if large else "0", str(len(cls))] + cls + enc_val(text) + enc_val(bg))


def mr_line(text, bg, large, mode, very):
    cls = classes(text, bg)
    return " ".join(["mr", "1" if large else "0", str(int(mode)), "1" if very else "0", str(len(cls))] + cls + enc_val(text) + enc_val(bg))


def bulk_line(items, mode, very):
    cls = classes([x for it in items for x in it[:2]])
    toks = ["bulk", str(int(mode)), "1" if very else "0", str(len(cls))] + cls
    for it in items:
        large = it[2] if len(it) == 3 else False
        toks += ["1" if large else "0"] + enc_val(it[0]) + enc_val(it[1])
    return " ".join(toks)
