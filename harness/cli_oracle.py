"""Independent evaluation of a cm-colors run against the property statements (C08/C09): reads only
the input stylesheet, the tool's observable output (stdout, report cards, written files) and the
public Python API. Shares no code with the Lean model."""
import re

import css_ast
import wcag_ref

VAR_RE = re.compile(r"var\(\s*(--[^\s,)]+)\s*(?:,(.*))?\)\s*$", re.S)


def nocomment(v):
    """a declaration value without the comments written inside it (they are not part of the value)"""
    return re.sub(r"/\*.*?\*/", "", v, flags=re.S).strip()


def css_rules(nodes, depth=0, path=()):
    """(path, selector, items) of every qualified rule at any depth of @media/@supports"""
    for i, n in enumerate(nodes):
        if n[0] == "R":
            yield (path + (i,), n[1], n[2])
        elif n[0] == "A":
            yield from css_rules(n[3], depth + 1, path + (i,))


def last_decl(items, name):
    r = None
    for j, it in enumerate(items):
        if it[0] == "D" and it[2] == name:
            r = (j, it)
    return r


def custom_props(nodes):
    """definitions in top-level :root / html rules, later ones win: name -> (rule index, item index, value)"""
    props = {}
    for i, n in enumerate(nodes):
        if n[0] == "R" and n[1] in (":root", "html"):
            for j, it in enumerate(n[2]):
                if it[0] == "D" and it[1].startswith("--"):
                    props[it[1]] = (i, j, it[3].strip())
    return props


def resolve(value, props, seen=()):
    """CSS semantics of var(--x[, fallback]) for a value that is a single var() or a literal"""
    v = nocomment(value)
    m = VAR_RE.match(v) if v.startswith("var(") else None
    if not m:
        return v
    name, fb = m.group(1), m.group(2)
    if name in props and name not in seen:
        r = resolve(props[name][2], props, seen + (name,))
        if r is not None and r != "":
            return r
    if fb is not None:
        return resolve(fb, props, seen + (name,))
    return None


def has_unserialisable(nodes):
    for n in nodes:
        if n[0] == "R" and any(it[0] == "X" and not it[2] for it in n[2]):
            return True
        if n[0] == "O" and not n[2]:
            return True
        if n[0] == "A" and has_unserialisable(n[3]):
            return True
    return False


def refs(value, props, seen=()):
    """custom properties a value depends on (through chains and fallbacks)"""
    out = set()
    for name in re.findall(r"var\(\s*(--[^\s,)]+)", value or ""):
        if name not in seen:
            out.add(name)
            if name in props:
                out |= refs(props[name][2], props, seen + (name,))
    return out


def find_node(nodes, path):
    n = None
    cur = nodes
    for k in path:
        if not isinstance(cur, list) or k >= len(cur):
            return None         # the output does not have the input's shape here (the callers report that)
        n = cur[k]
        cur = n[3] if n[0] == "A" else None
    return n


def evaluate(css_text, out_bytes, impl, default_bg, mode, premium, api):
    """returns a list of (what, details) property violations for a single-file run.
    api = dict(ColorPair=..., parse=parse_color_to_rgb)"""
    from cli_workers import parse_stdout
    viol = []
    target = 7.0 if premium else 4.5
    ast_in = css_ast.ast_of_css(css_text)
    rules = [r for r in css_rules(ast_in) if last_decl(r[2], "color")]
    so = parse_stdout(impl["stdout"])
    total = so["accessible"] + so["tuned"] + so["failed"]
    if total != len(rules):
        viol.append(("rules with a text colour are not each counted in exactly one category",
                     {"rules_with_text_colour": len(rules), "already_readable": so["accessible"], "adjusted": so["tuned"], "need_attention": so["failed"],
                      "selectors": [r[1] for r in rules][:12]}))
    if len(so["failures"]) != so["failed"]:
        viol.append(("the needs-attention list does not have one entry per counted rule", {"listed": len(so["failures"]), "counted": so["failed"]}))
    cards = impl.get("cards") or []
    if len(cards) != so["tuned"]:
        viol.append(("the report does not have one card per adjusted rule", {"cards": len(cards), "adjusted": so["tuned"]}))
    ast_out = None
    if out_bytes is not None:
        try:
            ast_out = css_ast.ast_of_css(out_bytes.decode("utf-8"))
        except Exception as e:  # noqa
            viol.append(("the written file is not readable CSS", {"error": repr(e)}))
    props_in = custom_props(ast_in)
    props_out = custom_props(ast_out) if ast_out is not None else {}
    # custom properties whose definition was rewritten and that more than one rule depends on (K1)
    usage = {}
    for (_p, _s, its) in rules:
        for nm in ("color", "background-color"):
            d = last_decl(its, nm)
            if d:
                for name in refs(d[1][3], props_in):
                    usage[name] = usage.get(name, 0) + 1
    shared_adjusted = {n for n in props_in if n in props_out and props_in[n][2] != props_out[n][2] and usage.get(n, 0) > 1}

    def k1(items):
        names = set()
        for nm in ("color", "background-color"):
            d = last_decl(items, nm)
            if d:
                names |= refs(d[1][3], props_in)
        return sorted(names & shared_adjusted)

    skipped = out_bytes is None and has_unserialisable(ast_in)
    if skipped and viol and viol[0][0].startswith("rules with a text colour"):
        viol[0][1]["file_skipped_unserialisable"] = True
    # match cards / failures to rules by selector, in document order
    remaining = list(rules)

    def take(selector):
        for k, r in enumerate(remaining):
            if r[1] == selector:
                return remaining.pop(k)
        return None

    for c in cards:
        sel = c.get("selector")
        codes = c.get("codes", [])
        r = take(sel)
        if r is None or len(codes) != 2:
            viol.append(("a report card does not correspond to a rule with a text colour", {"card": {k: v for k, v in c.items() if k != "styles"}}))
            continue
        path, _, items = r
        tuned = codes[1]
        j, decl = last_decl(items, "color")
        raw = decl[3].strip()
        bgd = last_decl(items, "background-color")
        bg_raw = bgd[1][3].strip() if bgd else default_bg
        # (1) reported == written
        if ast_out is None:
            viol.append(("a rule is reported as adjusted but no output file was written",
                         {"selector": sel, "reported": tuned, "unserialisable": has_unserialisable(ast_in)}))
        else:
            on = find_node(ast_out, path)
            written = None
            if on is not None and on[0] == "R":
                od = last_decl(on[2], "color")
                written = nocomment(od[1][3]) if od else None
            via = None
            if written is not None and written.startswith("var(") and written != tuned:
                m = VAR_RE.match(written)
                via = m.group(1) if m else None
                eff = resolve(written, props_out)
            else:
                eff = written
            if eff != tuned:
                users = sum(1 for rr in rules if (lambda d: d and via and via in d[1][3])(last_decl(rr[2], "color")))
                viol.append(("a rule reported as adjusted is not set to the reported colour in the written file",
                             {"selector": sel, "reported": tuned, "written_declaration": written, "custom_property": via,
                              "custom_property_value_in_output": props_out.get(via, (None, None, None))[2] if via else None,
                              "rules_using_that_property": users, "declared_as": raw, "shared_adjusted_properties": k1(items)}))
        # (2) the API agrees on the pair the report states, and the target is met against the rule's background
        #     as it stands in the written stylesheet
        card_bg = None
        for stl in c.get("styles", []):
            m = re.search(r"background-color: (.*?); color:", stl)
            if m:
                card_bg = m.group(1)
                break
        try:
            if card_bg is not None:
                p = api["ColorPair"](codes[0], card_bg)
                got = p.make_readable(mode=mode, very_readable=premium) if p.is_valid else (None, False)
                if got != (tuned, True):
                    viol.append(("the reported colour is not what the Python API returns for the same pair and settings",
                                 {"selector": sel, "pair": [codes[0], card_bg], "reported": tuned, "api": repr(got)}))
            if ast_out is not None:
                on = find_node(ast_out, path)
                obg = last_decl(on[2], "background-color") if on is not None and on[0] == "R" else None
                bg_out = resolve(obg[1][3].strip(), props_out) if obg else default_bg
                bg_rgb = tuple(api["parse"](bg_out))
                t_rgb = api["parse"](tuned, background=bg_rgb)
                if not wcag_ref.meets(tuple(t_rgb), bg_rgb, target):
                    viol.append(("a rule reported as adjusted does not meet the target ratio against its background",
                                 {"selector": sel, "reported": tuned, "bg_in_output": bg_out, "bg_in_report": card_bg, "target": target,
                                  "shared_adjusted_properties": k1(items)}))
        except Exception as e:  # noqa
            viol.append(("the reported colour or its background cannot be evaluated", {"selector": sel, "reported": tuned, "error": repr(e)}))
    for (_f, sel, reason) in so["failures"]:
        r = take(sel)
        if r is None:
            viol.append(("a needs-attention entry does not correspond to a rule with a text colour", {"selector": sel}))
            continue
        if ast_out is not None:
            on = find_node(ast_out, r[0])
            if on is None or on[0] != "R" or [x for x in on[2] if x[0] == "D"] != [x for x in r[2] if x[0] == "D"]:
                # a rule needing attention may still see a *custom property it defines* rewritten on behalf of another rule
                changed = [(a[1], a[3], b[3]) for a, b in zip([x for x in r[2] if x[0] == "D"], [x for x in (on[2] if on and on[0] == "R" else []) if x[0] == "D"]) if a != b]
                if not changed or any(not name.startswith("--") for name, _, _ in changed):
                    viol.append(("a rule needing attention was modified", {"selector": sel, "changed": changed[:4]}))
    # what is left was counted as already readable: judged on the stylesheet as written
    for (path, sel, items) in remaining:
        src_nodes, src_props = (ast_out, props_out) if ast_out is not None else (ast_in, props_in)
        on = find_node(src_nodes, path)
        its = on[2] if on is not None and on[0] == "R" else items
        cd = last_decl(its, "color")
        bgd = last_decl(its, "background-color")
        text_res = resolve(cd[1][3].strip(), src_props) if cd else None
        bg_res = resolve(bgd[1][3].strip() if bgd else default_bg, src_props)
        ok = False
        try:
            if text_res is not None and bg_res is not None:
                p = api["ColorPair"](text_res, bg_res)
                ok = p.is_valid and wcag_ref.meets(tuple(p.text.rgb), tuple(p.bg.rgb), target)
        except Exception:  # noqa
            ok = False
        if total == len(rules) and not ok:
            viol.append(("a rule counted as already readable does not meet the target ratio",
                         {"selector": sel, "text": text_res, "bg": bg_res, "target": target, "shared_adjusted_properties": k1(items)}))
    if skipped:
        for v in viol:
            v[1]["file_skipped_unserialisable"] = True
    return viol
