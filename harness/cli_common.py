"""Model side of the CLI checks and the model/implementation comparison."""
import re

import css_ast
from fmt_workers import HSL_RE
from proto import bitsf, fbits, run_lines, shex, unhex


def model_line(files_css, default_bg, mode, premium):
    """files_css: list of stylesheet texts (or None for an unreadable file), in processing order"""
    asts = [None if t is None else css_ast.ast_of_css(t) for t in files_css]
    strings = [default_bg]
    for a in asts:
        if a is not None:
            strings += list(css_ast.strings_of_nodes(a))
    cls = css_ast.cls_tokens(strings)
    toks = ["cli", shex(default_bg), str(mode), "1" if premium else "0", str(len(cls))] + cls + [str(len(asts))]
    for a in asts:
        if a is None:
            toks.append("E")
        else:
            toks += [str(len(a))] + css_ast.enc_nodes(a)
    return " ".join(toks), asts


def parse_model(out):
    """-> dict(stats, failed, fixed, files=[('written', nodes) | ('error',)])"""
    if out == "bad-op":
        raise ValueError("model rejected the operation")
    parts = out.split(" | ")
    st = parts[0].split()
    res = {"accessible": int(st[1]), "tuned": int(st[2]), "failed": int(st[3]), "failures": [], "fixed": [], "files": []}
    toks = parts[1].split()
    for i in range(0, len(toks), 5):
        res["failures"].append({"selector": unhex(toks[i + 1]), "text": unhex(toks[i + 2]), "bg": unhex(toks[i + 3]), "invalid": toks[i + 4] == "1"})
    toks = parts[2].split()
    for i in range(0, len(toks), 7):
        res["fixed"].append({"selector": unhex(toks[i + 1]), "bg": unhex(toks[i + 2]), "original": unhex(toks[i + 3]), "tuned": unhex(toks[i + 4]),
                             "ol": toks[i + 5], "nl": toks[i + 6]})
    for f in " | ".join(parts[3:]).split(" ;; "):
        f = f.strip()
        if f.startswith("written"):
            toks = f.split()
            nodes, rest = css_ast.dec_nodes(toks[2:], int(toks[1]))
            res["files"].append(("written", nodes))
        else:
            res["files"].append(("error",))
    return res


def same_value(model_val, impl_val):
    """declaration values: equal text, or the model's `~hsl~bits` marker against an hsl() string"""
    if model_val == impl_val:
        return True
    if model_val.startswith("~hsl~"):
        # the comments of the old value follow the new one (model: value ++ comments; tool: tokens + comment tokens)
        k = model_val.find("/*")
        tail = model_val[k:] if k >= 0 else ""
        if tail:
            if not impl_val.endswith(tail):
                return False
            model_val, impl_val = model_val[:k], impl_val[:len(impl_val) - len(tail)]
        m = HSL_RE.match(impl_val.strip())
        if not m or m.end() != len(impl_val.strip()):
            return False
        try:
            a = [bitsf(x) for x in model_val[5:].split(",")]
            b = [float(x) for x in m.groups()]
        except ValueError:
            return False
        return all(abs(x - y) <= 1e-12 * max(1.0, abs(x)) for x, y in zip(a, b))
    return False


def diff_nodes(model_nodes, impl_nodes, path="/"):
    """first structural difference between two abstract trees, or None"""
    if len(model_nodes) != len(impl_nodes):
        return "%s: %d nodes (model) vs %d (output)" % (path, len(model_nodes), len(impl_nodes))
    for i, (a, b) in enumerate(zip(model_nodes, impl_nodes)):
        p = "%s%d" % (path, i)
        if a[0] != b[0]:
            return "%s: node kind %s vs %s" % (p, a[0], b[0])
        if a[0] == "R":
            if a[1] != b[1]:
                return "%s: selector %r vs %r" % (p, a[1], b[1])
            if len(a[2]) != len(b[2]):
                return "%s (%s): %d items vs %d" % (p, a[1], len(a[2]), len(b[2]))
            for j, (x, y) in enumerate(zip(a[2], b[2])):
                if x[0] != y[0]:
                    return "%s (%s) item %d: kind %s vs %s" % (p, a[1], j, x[0], y[0])
                if x[0] == "D":
                    if x[1] != y[1] or x[4] != y[4] or not same_value(x[3].strip(), y[3].strip()):
                        return "%s (%s) declaration %d: %r vs %r" % (p, a[1], j, x[1:], y[1:])
                elif x[1] != y[1]:
                    return "%s (%s) item %d: %r vs %r" % (p, a[1], j, x[1], y[1])
        elif a[0] == "A":
            if a[1] != b[1] or a[2] != b[2]:
                return "%s: at-rule %r %r vs %r %r" % (p, a[1], a[2], b[1], b[2])
            d = diff_nodes(a[3], b[3], p + "/")
            if d:
                return d
        else:
            if a[1] != b[1]:
                return "%s: %r vs %r" % (p, a[1][:80], b[1][:80])
    return None


LEVEL_TEXT = {"AAA": "AAA", "AA": "AA", "FAIL": "FAIL"}


def compare_run(model, impl, names, default_bg="white"):
    """model: parse_model(...) ; impl: run_cli(...) ; names: relative paths of the processed files in
    processing order. Returns a list of difference descriptions (empty = they agree)."""
    from cli_workers import parse_stdout
    diffs = []
    so = parse_stdout(impl["stdout"])
    for k in ("accessible", "tuned", "failed"):
        if so[k] != model[k]:
            diffs.append("counter %s: output says %d, model %d" % (k, so[k], model[k]))
    mf = [(f["selector"], "invalid" if f["invalid"] else "tune") for f in model["failures"]]
    sf = [(sel, "invalid" if "don't look right" in reason else "tune") for (_f, sel, reason) in so["failures"]]
    if mf != sf:
        diffs.append("needs-attention list: output %r, model %r" % (sf[:6], mf[:6]))
    cards = impl.get("cards") or []
    if len(cards) != len(model["fixed"]):
        if not (len(model["fixed"]) == 0 and not cards):
            diffs.append("report cards: %d in the report, %d in the model" % (len(cards), len(model["fixed"])))
    else:
        for c, f in zip(cards, model["fixed"]):
            codes = c.get("codes", [])
            if c.get("selector") != f["selector"] or len(codes) != 2 or not same_value(f["original"], codes[0]) or not same_value(f["tuned"], codes[1]) \
                    or c.get("badges") != [f["ol"], f["nl"]]:
                diffs.append("report card %r: report %r / %r, model %r" % (f["selector"], codes, c.get("badges"), f))
                break
    # written files
    for name, mfile in zip(names, model["files"]):
        stem, dot, suf = name.rpartition(".")
        outname = (stem + "_cm." + suf) if dot and stem and not stem.endswith("/") else name + "_cm"
        got = impl["after"].get(outname)
        if mfile[0] == "error":
            if got is not None and impl["before"].get(outname) != got:
                diffs.append("%s: the model predicts no output (file skipped), the tool wrote %s" % (name, outname))
        else:
            if got is None:
                diffs.append("%s: the model predicts an output file, the tool wrote none" % name)
            else:
                try:
                    out_ast = css_ast.ast_of_css(got[1].decode("utf-8"))
                except Exception as e:  # noqa
                    diffs.append("%s: output is not readable: %r" % (name, e)); continue
                d = diff_nodes(mfile[1], out_ast)
                if d:
                    diffs.append("%s -> %s differs from the model's tree at %s" % (name, outname, d))
    return diffs


def all_diffs(a_nodes, b_nodes, path=()):
    """every difference between two abstract trees: list of (kind, path, selector, detail)"""
    out = []
    if len(a_nodes) != len(b_nodes):
        return [("structure", path, None, "%d nodes vs %d" % (len(a_nodes), len(b_nodes)))]
    for i, (a, b) in enumerate(zip(a_nodes, b_nodes)):
        p = path + (i,)
        if a[0] != b[0]:
            out.append(("structure", p, None, "node kind %s vs %s" % (a[0], b[0]))); continue
        if a[0] == "R":
            if a[1] != b[1]:
                out.append(("selector", p, a[1], b[1]))
            if len(a[2]) != len(b[2]):
                out.append(("structure", p, a[1], "%d items vs %d" % (len(a[2]), len(b[2])))); continue
            for j, (x, y) in enumerate(zip(a[2], b[2])):
                if x[0] != y[0]:
                    out.append(("structure", p, a[1], "item %d kind" % j))
                elif x[0] == "D":
                    if x[1] != y[1] or x[4] != y[4]:
                        out.append(("declaration", p, a[1], (x[1], y[1], x[4], y[4])))
                    elif x[3].strip() != y[3].strip():
                        out.append(("value", p, a[1], (x[2], x[1], x[3].strip(), y[3].strip())))
                elif x[1] != y[1]:
                    out.append(("other", p, a[1], (x[1][:60], y[1][:60])))
        elif a[0] == "A":
            if a[1] != b[1] or a[2].strip() != b[2].strip():
                out.append(("at-rule", p, a[1], (a[2], b[2])))
            out += all_diffs(a[3], b[3], p)
        elif a[1] != b[1]:
            out.append(("other", p, None, (a[1][:60], b[1][:60])))
    return out
