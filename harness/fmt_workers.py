"""Workers for the format round-trip sweeps (C06)."""
import os
import re
import sys

from common import repo_import
from opt_common import css_read
from proto import bitsf, fbits, run_lines, unhex, t3

_m = {}
FORMATS = ["hex", "rgb", "hsl", "rgb_tuple"]
HEX_RE = re.compile(r"^#[0-9a-f]{6}$")
RGB_RE = re.compile(r"^rgb\((\d{1,3}), (\d{1,3}), (\d{1,3})\)$")
HSL_RE = re.compile(r"^hsl\(([^,]+), ([^,]+)%, ([^,]+)%\)$")


def _init():
    sys.stdout = open(os.devnull, "w")
    repo_import()
    from cm_colors.core import color_parser
    _m["cp"] = color_parser


def shape_ok(fmt, out):
    if fmt == "hex":
        return isinstance(out, str) and bool(HEX_RE.match(out))
    if fmt == "rgb":
        return isinstance(out, str) and bool(RGB_RE.match(out))
    if fmt == "hsl":
        return isinstance(out, str) and bool(HSL_RE.match(out))
    return isinstance(out, tuple) and len(out) == 3 and all(type(x) is int for x in out)


def w_fmt(slab):
    """format every colour of the slab in the four formats, read back with both readers, compare
    with the model's formatter and reader"""
    if slab[0] == "r":
        cols = [(slab[1], g, b) for g in range(256) for b in range(256)]
    else:
        cols = [tuple(c) for c in slab[1]]
    cp = _m["cp"]
    lines = ["fmt %s %d %d %d" % ((f,) + c) for c in cols for f in FORMATS]
    mo = run_lines(lines, chunks=1)
    st = {"n": 0, "viol": [], "bad": [], "nviol": 0, "nbad": 0}
    k = 0
    for c in cols:
        for f in FORMATS:
            m = mo[k]; k += 1
            st["n"] += 1
            try:
                out = cp.format_color(c, f)
            except Exception as e:  # noqa
                st["nviol"] += 1; st["viol"].append((c, f, "format_color raised " + type(e).__name__)); continue
            if not shape_ok(f, out):
                st["nviol"] += 1; st["viol"].append((c, f, "malformed output %r" % (out,)))
            try:
                own = tuple(cp.parse_color_to_rgb(out))
            except Exception as e:  # noqa
                own = "rejected (%s)" % type(e).__name__
            if own != c:
                st["nviol"] += 1; st["viol"].append((c, f, "the library's own parser reads %r back as %s" % (out, own)))
            if isinstance(out, str):
                css = css_read(out)
                if css != c:
                    st["nviol"] += 1; st["viol"].append((c, f, "a CSS reader reads %r back as %s" % (out, css)))
            # model
            ms = m.split(" ", 1)
            if f == "hsl" and isinstance(out, str):
                mm = HSL_RE.match(out)
                impl_enc = "h:" + ",".join(fbits(float(x)) for x in mm.groups()) if mm else "?"
            elif isinstance(out, str):
                impl_enc = "s:" + out.encode().hex()
            else:
                impl_enc = t3(out)
            impl_back = t3(own, "ok ", " ") if isinstance(own, tuple) else "err value"
            if ms[0] != impl_enc or ms[1] != impl_back:
                # hsl numbers: accept 1e-12 relative
                okn = False
                if f == "hsl" and ms[0].startswith("h:") and impl_enc.startswith("h:") and ms[1] == impl_back:
                    a = [bitsf(x) for x in ms[0][2:].split(",")]; b = [bitsf(x) for x in impl_enc[2:].split(",")]
                    okn = all(abs(x - y) <= 1e-12 * max(1.0, abs(x)) for x, y in zip(a, b))
                if not okn:
                    st["nbad"] += 1; st["bad"].append((c, f, impl_enc + " " + impl_back, m))
    st["viol"] = st["viol"][:6]
    st["bad"] = st["bad"][:6]
    return st


def pool(n=None):
    import multiprocessing as mp
    return mp.get_context("fork").Pool(n or min(16, os.cpu_count() or 4), initializer=_init)
