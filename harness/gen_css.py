"""Stylesheet generator (grammar-based) for the CLI properties."""
from opt_common import _named

SELECTORS = [".a", ".btn", "#main", "p", "h1 > span", "a:hover", ".card .title", "ul li:nth-child(2n+1)", "input[type=\"text\"]",
             ".x::before", "*", "body", ".é", "div.\\31 23", ".a,.b", "[data-x='}']"]
LITERAL_TEXT = ["#777", "#777777", "#999", "#aaa", "#666", "#595959", "#fff", "#000", "gray", "grey", "silver", "red", "rgb(120, 120, 120)",
                "rgb(150,150,150)", "rgba(0, 0, 0, 0.5)", "hsl(0, 0%, 50%)", "hsl(210, 40%, 55%)", "hsla(0, 0%, 20%, 0.6)", "#8a8", "tomato",
                "#ABC", "RGB(100, 100, 100)", "rgb(50%, 50%, 50%)", "lightgray", "#767676", "#757575", "#6c6c6c", "dimgray",
                # translucent text whose colour over white and over a dark background are on opposite sides of the target
                "rgba(255, 255, 255, 0.4)", "hsla(0, 0%, 100%, 0.35)", "rgba(255,255,255,0.45)", "rgba(200, 220, 255, 0.5)"]
LITERAL_BG = ["#fff", "white", "#000", "#eee", "#222", "rgb(250, 250, 250)", "hsl(0, 0%, 95%)", "#f5f5dc", "navy", "#333333", "#e0e0e0"]
BAD = ["notacolor", "inherit", "currentColor", "transparent", "#12", "rgb(1,2)", "var(--undefined)", "url(x.png)", "12px", "calc(1px + 2px)"]
DEFAULT_BGS = ["white", "#fff", "#000000", "black", "#eeeeee", "rgb(20, 20, 20)", "notacolor"]


def rand_color(rng):
    return "#%02x%02x%02x" % (rng.randrange(256), rng.randrange(256), rng.randrange(256))


def text_value(rng, varnames):
    k = rng.random()
    if k < 0.45:
        return rng.choice(LITERAL_TEXT)
    if k < 0.6:
        return rand_color(rng)
    if k < 0.85 and varnames:
        v = rng.choice(varnames)
        f = rng.random()
        if f < 0.6:
            return "var(%s)" % v
        if f < 0.75:
            return "var(%s, %s)" % (v, rng.choice(LITERAL_TEXT))
        if f < 0.85:
            return "var( %s )" % v
        return "var(--missing, %s)" % rng.choice(LITERAL_TEXT + ["var(%s)" % v])
    if k < 0.92:
        return rng.choice(BAD)
    return "var(--nope)"


def decls(rng, varnames, force_color=None):
    parts = []
    n_extra = rng.randrange(3)
    extras = ["margin: 0", "font: 12px/1.5 \"A;B\", serif", "content: \"}\"", "background: url(a;b.png)", "border-color: #ccc", "padding:1px 2px",
              "-webkit-text-fill-color: red", "transition: color .2s", "width: calc(100% - 2px)"]
    for _ in range(n_extra):
        parts.append(rng.choice(extras))
    has_color = force_color is not None or rng.random() < 0.8
    if has_color:
        name = "color" if rng.random() < 0.9 else rng.choice(["COLOR", "Color"])
        val = force_color or text_value(rng, varnames)
        imp = " !important" if rng.random() < 0.12 else ""
        if rng.random() < 0.06:
            val = val + " /* was: brand */"      # a comment inside the value of the colour declaration
        if rng.random() < 0.12:
            parts.append("color: %s" % rng.choice(LITERAL_TEXT))    # repeated declaration: the last one wins
        if rng.random() < 0.15 and not val.startswith("var("):
            # the text 'color: <same value>' ahead of the real declaration: inside another property's name, or in a comment
            parts.append(rng.choice(["border-color: %s", "outline-color:%s", "-webkit-text-stroke-color: %s", "/* was color: %s */ margin: 0"]) % val)
        parts.append("%s:%s%s%s" % (name, rng.choice(["", " ", "  "]), val, imp))
    if rng.random() < 0.55:
        bgname = "background-color" if rng.random() < 0.93 else "BACKGROUND-COLOR"
        bgv = rng.choice(LITERAL_BG) if rng.random() < 0.8 else (("var(%s)" % rng.choice(varnames)) if varnames and rng.random() < 0.6 else rand_color(rng))
        parts.insert(rng.randrange(len(parts) + 1), "%s: %s" % (bgname, bgv))
    if rng.random() < 0.1:
        parts.insert(rng.randrange(len(parts) + 1), "/* note; } */")
    sep = rng.choice(["; ", ";\n  ", ";"])
    body = sep.join(parts)
    if parts and rng.random() < 0.7:
        body += ";"
    return body


_UNIQ = [0]


def rule(rng, varnames, depth=0):
    k = rng.random()
    if depth < 3 and k < 0.12:
        kw = rng.choice(["@media (min-width: 600px)", "@supports (display: grid)", "@MEDIA print", "@media screen and (max-width:100px)"])
        inner = "".join(rule(rng, varnames, depth + 1) for _ in range(rng.randrange(1, 3)))
        return "%s {\n%s}\n" % (kw, inner)
    if k < 0.2:
        return rng.choice(["@import url(\"x.css\");\n", "@font-face { font-family: X; src: url(x.woff) }\n", "@keyframes k { from { color: #777 } to { color: #888 } }\n",
                           "@page :first { margin: 1in }\n", "@unknown foo { a: b }\n", "/* comment { color: #777 } */\n", "@media print;\n", "@media screen {}\n",
                           "@layer base { .q { color: #888 } }\n", ".empty {}\n"])
    # selectors are made unique so that report cards / list entries identify their rule
    _UNIQ[0] += 1
    sel = rng.choice(SELECTORS)
    sel = (sel + ".u%d" % _UNIQ[0]) if not sel.endswith("]") and "," not in sel and "::" not in sel and ":" not in sel else (".u%d " % _UNIQ[0]) + sel
    return "%s%s{%s%s}%s" % (sel, rng.choice(["", " "]), rng.choice(["", " ", "\n  "]), decls(rng, varnames), rng.choice(["\n", "", "\n\n"]))


def stylesheet(rng, extras=False):
    _UNIQ[0] = 0
    out = []
    varnames = []
    if rng.random() < 0.6:
        nvars = rng.randrange(1, 4)
        defs = []
        for i in range(nvars):
            name = rng.choice(["--t", "--text", "--c-1", "--Brand", "--muted_2", "--é"]) + (str(i) if rng.random() < 0.5 else "")
            if varnames and rng.random() < 0.25:
                # custom property names are case-sensitive: a second property differing only in letter case
                name = rng.choice(varnames).swapcase()
                if name in varnames:
                    name = name + "x"
            k = rng.random()
            if k < 0.7 or not varnames:
                val = rng.choice(LITERAL_TEXT + LITERAL_BG)
            elif k < 0.9:
                val = "var(%s)" % rng.choice(varnames)          # chained
            else:
                val = "var(%s, %s)" % (rng.choice(varnames + ["--none"]), rng.choice(LITERAL_TEXT))
            defs.append("%s: %s" % (name, val))
            varnames.append(name)
        if rng.random() < 0.15:
            defs.append("--self: var(--self)")                     # cycle
            varnames.append("--self")
        sel = rng.choice([":root", ":root", "html"])
        body = "; ".join(defs) + ";"
        if rng.random() < 0.25:
            body += " " + decls(rng, varnames, force_color=rng.choice(LITERAL_TEXT))   # a colour declared directly in :root/html
        out.append("%s { %s }\n" % (sel, body))
        if rng.random() < 0.2:
            out.append("html { %s: %s; }\n" % (rng.choice(varnames), rng.choice(LITERAL_TEXT)))   # redefinition in a second block
    if varnames and rng.random() < 0.2:
        # a :root / html block nested in an at-rule re-declaring a custom property: not a top-level definition
        out.append("%s { %s { %s: %s; } }\n" % (rng.choice(["@media (min-width: 900px)", "@supports (display: grid)"]), rng.choice([":root", "html"]),
                                                 rng.choice(varnames), rng.choice(LITERAL_TEXT)))
    if extras and rng.random() < 0.5:
        out.insert(0, "@charset \"utf-8\";\n")
    n = rng.randrange(1, 7)
    for _ in range(n):
        out.append(rule(rng, varnames))
    if rng.random() < 0.3 and varnames:
        v = rng.choice(varnames)
        out.append(".s1 { color: var(%s); background-color: #fff }\n.s2 { color: var(%s); background-color: %s }\n" % (v, v, rng.choice(["#eee", "#000", "#fff"])))
    return "".join(out)


CARRY = ["@layer reset, base, components;\n", "@media print { @layer a, b; .in { color: #777; background-color: #fff } }\n",
         ".cv { color: #777 /* keep me */; background-color: #fff }\n", "@import url(\"theme.css\") screen;\n", "@font-face { font-family: \"A{B}\"; src: url(\"f;}.woff\") }\n",
         "@keyframes spin { from { transform: rotate(0) } to { transform: rotate(360deg) } }\n", "@page :first { margin: 1in }\n",
         "@unknown-rule foo bar { a: b; c { d: e } }\n", "@namespace svg url(http://www.w3.org/2000/svg);\n", "@layer base, theme;\n",
         "/* a comment with { braces } and ; semicolons */\n", ".esc\\:name { content: \"\\22 quoted\\22\"; margin: 0 }\n",
         ".uni-é::after { content: \"→ ✓\"; color: #222; background-color: #fff }\n", ".empty { }\n", ".hack { _zoom: 1; margin: 0 }\n",
         ".url { background: url(data:image/png;base64,AAAA==) no-repeat; padding: 0 }\n", ".str { content: '/* not a comment */' }\n",
         "a[href$=\".pdf\"] { color: #111; background-color: #eee }\n", "@media print { @page { margin: 0 } .np { display: none } }\n",
         "@supports not (display: grid) { .f { float: left } }\n", ".imp { margin: 0 !important; color: #777 !important }\n",
         "@media (min-width: 1px) { .deep { color: #888; background-color: #fff } @media (min-width: 2px) { .deeper { color: #999 } } }\n"]


def carry_stylesheet(rng):
    """a stylesheet full of things the tool must carry through untouched, with a few colour rules"""
    parts = [rng.choice(CARRY) for _ in range(rng.randrange(3, 9))]
    parts += [rule(rng, []) for _ in range(rng.randrange(1, 4))]
    rng.shuffle(parts)
    s = "".join(parts)
    if rng.random() < 0.3:
        s = "@charset \"utf-8\";\n" + s
    if rng.random() < 0.1:
        s += ".tail { color: #777 }"      # no trailing newline
    return s
