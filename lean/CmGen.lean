import CmGen.NamedColors
import CmGen.Templates
