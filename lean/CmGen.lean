import CmGen.NamedColors
import CmGen.Templates
import CmGen.StateSig
import CmGen.Leaves
import CmGen.Optimiser
import CmGen.StrHelpers
import CmGen.CliSrc
import CmGen.ParserSeq
