import CmGen.NamedColors
