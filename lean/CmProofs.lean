import CmProofs.Order
import CmProofs.Schedules
import CmProofs.SearchWithin
import CmProofs.SearchMono
import CmProofs.SearchSim
