import CmProofs.Order
import CmProofs.Schedules
import CmProofs.SearchWithin
import CmProofs.SearchMono
import CmProofs.SearchSim
import CmProofs.RealNum
import CmProofs.WcagReal
import CmProofs.ColorReal
