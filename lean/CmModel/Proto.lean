import CmModel.Num
/-! Line-protocol helpers: floats travel as 16 hex digits of their IEEE bit pattern,
strings hex-encoded (UTF-8), so that nothing is lost or re-rounded in transit. -/
namespace Cm.Proto

def hexDigitVal (c : Char) : Option Nat :=
  if '0' ≤ c ∧ c ≤ '9' then some (c.toNat - '0'.toNat)
  else if 'a' ≤ c ∧ c ≤ 'f' then some (c.toNat - 'a'.toNat + 10)
  else if 'A' ≤ c ∧ c ≤ 'F' then some (c.toNat - 'A'.toNat + 10)
  else none

def parseHexNat (s : String) : Option Nat :=
  if s.isEmpty then none else
  s.foldl (fun acc c => do let a ← acc; let d ← hexDigitVal c; pure (a * 16 + d)) (some 0)

def floatOfHex (s : String) : Option Float := do
  let n ← parseHexNat s
  pure (Float.ofBits (UInt64.ofNat n))

def hexChar (n : Nat) : Char := "0123456789abcdef".toList.getD n '0'

def hexOfNat (n : Nat) (width : Nat) : String :=
  let rec go (k : Nat) (n : Nat) (acc : List Char) : List Char :=
    match k with
    | 0 => acc
    | k + 1 => go k (n / 16) (hexChar (n % 16) :: acc)
  String.ofList (go width n [])

def hexOfFloat (f : Float) : String := hexOfNat f.toBits.toNat 16

def parseInt (s : String) : Option Int := s.toInt?

/-- hex-encoded UTF-8 → String -/
def strOfHex (s : String) : Option String :=
  let cs := s.toList
  let rec go : List Char → List UInt8 → Option (List UInt8)
    | [], acc => some acc.reverse
    | [_], _ => none
    | a :: b :: rest, acc => do
      let x ← hexDigitVal a; let y ← hexDigitVal b
      go rest (UInt8.ofNat (x * 16 + y) :: acc)
  match go cs [] with
  | none => none
  | some bytes => String.fromUTF8? (ByteArray.mk bytes.toArray)

def hexOfStr (s : String) : String :=
  s.toUTF8.foldl (fun acc b => acc ++ hexOfNat b.toNat 2) ""

end Cm.Proto
