import CmModel.Num
/-!
# Python strings (`List Char`) and `float(str)`

`str.strip/lower/isspace`, `float()` and `re`'s `\d`, `\s` depend on the Unicode database. The model
takes a character-class oracle; theorems hold for every oracle, the driver's default is ASCII and
the harness ships the classes of any non-ASCII code points together with the input.
-/
namespace Cm

abbrev Str := List Char

/-- the part of the Unicode database the code depends on -/
structure CharCls where
  /-- `str.isspace` / `Py_UNICODE_ISSPACE` -/
  isSpace : Char → Bool
  /-- decimal digit value (`unicodedata.decimal`); `\d` matches exactly these -/
  digit : Char → Option Nat
  /-- `ch.lower()` -/
  lower : Char → Str

def asciiIsSpace (c : Char) : Bool :=
  c = ' ' || c = '\t' || c = '\n' || c = '\r' || c = '\x0b' || c = '\x0c' ||
  c = '\x1c' || c = '\x1d' || c = '\x1e' || c = '\x1f'

def asciiDigit (c : Char) : Option Nat :=
  if '0' ≤ c ∧ c ≤ '9' then some (c.toNat - '0'.toNat) else none

def asciiLower (c : Char) : Str :=
  if 'A' ≤ c ∧ c ≤ 'Z' then [Char.ofNat (c.toNat + 32)] else [c]

def asciiCls : CharCls := { isSpace := asciiIsSpace, digit := asciiDigit, lower := asciiLower }

namespace Str
variable (cls : CharCls)

/-- `s.strip()` -/
def strip (s : Str) : Str :=
  ((s.dropWhile cls.isSpace).reverse.dropWhile cls.isSpace).reverse

/-- `s.lower()` (per character; final-sigma context is immaterial to every outcome class) -/
def lower (s : Str) : Str := s.flatMap cls.lower

def startsWith (s p : Str) : Bool := p.isPrefixOf s
def endsWith (s p : Str) : Bool := p.reverse.isPrefixOf s.reverse

/-- `s.lstrip("#")` -/
def lstripHash (s : Str) : Str := s.dropWhile (· = '#')

/-- `s.replace(c, r)` for a single-character pattern -/
def replaceChar (s : Str) (c : Char) (r : Str) : Str := s.flatMap fun x => if x = c then r else [x]

/-- `s.split(c)` for a single-character separator (always at least one part) -/
def splitOn (s : Str) (c : Char) : List Str :=
  let rec go : Str → Str → List Str → List Str
    | [], cur, acc => (cur.reverse :: acc).reverse
    | x :: xs, cur, acc => if x = c then go xs [] (cur.reverse :: acc) else go xs (x :: cur) acc
  go s [] []

/-- `[p for p in re.split(r"\s+", s) if p]` : maximal runs of non-space characters -/
def splitWs (s : Str) : List Str :=
  let rec go : Str → Str → List Str → List Str
    | [], cur, acc => (if cur.isEmpty then acc else cur.reverse :: acc).reverse
    | x :: xs, cur, acc =>
      if cls.isSpace x then go xs [] (if cur.isEmpty then acc else cur.reverse :: acc)
      else go xs (x :: cur) acc
  go s [] []

def isHexDigit (c : Char) : Bool :=
  ('0' ≤ c && c ≤ '9') || ('a' ≤ c && c ≤ 'f') || ('A' ≤ c && c ≤ 'F')

def hexVal (c : Char) : Option Nat :=
  if '0' ≤ c ∧ c ≤ '9' then some (c.toNat - '0'.toNat)
  else if 'a' ≤ c ∧ c ≤ 'f' then some (c.toNat - 'a'.toNat + 10)
  else if 'A' ≤ c ∧ c ≤ 'F' then some (c.toNat - 'A'.toNat + 10)
  else none

end Str

/-! ## `float(str)` -/

inductive PyErr | valueError | typeError | overflowError
  deriving DecidableEq, Repr

namespace PyFloat
variable (cls : CharCls)

/-- `Py_ISSPACE` after `_PyUnicode_TransformDecimalAndSpaceToASCII`: the six C whitespace
characters, and every non-ASCII Unicode space (mapped to `' '` by the transform) -/
def isFloatSpace (c : Char) : Bool :=
  if c.toNat < 128 then (c = ' ' || c = '\t' || c = '\n' || c = '\r' || c = '\x0b' || c = '\x0c')
  else cls.isSpace c

/-- digit value as `float()` sees it (Unicode decimal digits are transliterated) -/
def dig (c : Char) : Option Nat := cls.digit c

/-- remove underscores according to `_Py_string_to_number_with_underscores`;
    `none` = misplaced underscore -/
def dropUnderscores (s : Str) : Option Str :=
  let rec go : Str → Option Char → Str → Option Str
    | [], prev, acc => if prev = some '_' then none else some acc.reverse
    | c :: cs, prev, acc =>
      let prevDigit := match prev with | some p => (dig cls p).isSome | none => false
      if c = '_' then
        if prevDigit then go cs (some c) acc else none
      else
        if prev = some '_' && !(dig cls c).isSome then none
        else go cs (some c) (c :: acc)
  go s none []

/-- maximal run of digits: (value, count, rest) -/
def digits (s : Str) : Nat × Nat × Str :=
  let rec go : Str → Nat → Nat → Nat × Nat × Str
    | [], v, n => (v, n, [])
    | c :: cs, v, n =>
      match dig cls c with
      | some d => go cs (v * 10 + d) (n + 1)
      | none => (v, n, c :: cs)
  go s 0 0

def lowerAscii (s : Str) : Str := s.flatMap asciiLower

/-- `float(s)` for a Python `str`: `.error valueError` exactly when CPython raises `ValueError`. -/
def parse {α : Type} [Num α] (s : Str) : Except PyErr α :=
  -- strip
  let s := ((s.dropWhile (isFloatSpace cls)).reverse.dropWhile (isFloatSpace cls)).reverse
  match dropUnderscores cls s with
  | none => .error .valueError
  | some s =>
    let (neg, body) := match s with
      | '-' :: r => (true, r)
      | '+' :: r => (false, r)
      | r => (false, r)
    let lb := lowerAscii body
    if lb = "inf".toList || lb = "infinity".toList then
      .ok (if neg then -(Num.inf : α) else Num.inf)
    else if lb = "nan".toList then .ok Num.nan
    else
      let (iv, ic, r1) := digits cls body
      let (fv, fc, r2) := match r1 with
        | '.' :: r => digits cls r
        | r => (0, 0, r)
      let hasDot := match r1 with | '.' :: _ => true | _ => false
      if ic + fc = 0 then .error .valueError else
      let mant := iv * 10 ^ fc + fv
      let _ := hasDot
      match r2 with
      | [] => .ok (Num.ofDecimal neg mant (-(Int.ofNat fc)))
      | e :: r3 =>
        if e = 'e' || e = 'E' then
          let (eneg, r4) := match r3 with
            | '-' :: r => (true, r)
            | '+' :: r => (false, r)
            | r => (false, r)
          let (ev, ec, r5) := digits cls r4
          if ec = 0 || !r5.isEmpty then .error .valueError
          else
            let ex : Int := if eneg then -(Int.ofNat ev) else Int.ofNat ev
            .ok (Num.ofDecimal neg mant (ex - Int.ofNat fc))
        else .error .valueError

end PyFloat

/-! ## the regex `[-+]?\d*\.?\d+%?` (`_NUM_RE.findall`) -/
namespace NumRe
variable (cls : CharCls)

def isDig (c : Char) : Bool := (cls.digit c).isSome

def takeDigits (s : Str) : Str × Str := (s.takeWhile (isDig cls), s.dropWhile (isDig cls))

/-- try to match one token at the head of `s` (leftmost-greedy with backtracking, see
    `DESIGN.md`): `some (token, rest)` -/
def matchAt (s : Str) : Option (Str × Str) :=
  let (sign, r0) : Str × Str := match s with
    | '-' :: r => (['-'], r)
    | '+' :: r => (['+'], r)
    | r => ([], r)
  let (d1, r1) := takeDigits cls r0
  let body : Option (Str × Str) :=
    match r1 with
    | '.' :: r2 =>
      let (d2, r3) := takeDigits cls r2
      if !d2.isEmpty then some (d1 ++ '.' :: d2, r3)
      else if !d1.isEmpty then some (d1, r1) else none
    | _ => if !d1.isEmpty then some (d1, r1) else none
  match body with
  | none => none
  | some (b, rest) =>
    match rest with
    | '%' :: rest' => some (sign ++ b ++ ['%'], rest')
    | _ => some (sign ++ b, rest)

/-- `_NUM_RE.findall(s)` -/
def findAll (s : Str) : List Str :=
  let rec go (fuel : Nat) (s : Str) (acc : List Str) : List Str :=
    match fuel with
    | 0 => acc.reverse
    | fuel + 1 =>
      match s with
      | [] => acc.reverse
      | c :: cs =>
        match matchAt cls (c :: cs) with
        | some (tok, rest) =>
          -- a match consumes at least one character
          if rest.length < (c :: cs).length then go fuel rest (tok :: acc) else go fuel cs acc
        | none => go fuel cs acc
  go (s.length + 1) s []

end NumRe

end Cm
