import CmModel.Wcag
/-!
# RGB ↔ HSL (numeric core)
Mirrors the arithmetic of `conversions.py` `rgb_to_hsl` (lines 517-545) and `hsl_to_rgb`
(lines 606-648). Needs no libm call, hence only `Num`: it runs at `Float` *and* exactly at `Rat`.
-/
namespace Cm
variable {α : Type} [Num α]

/-- `rgb_to_hsl` after parsing: channels on the 0–255 scale ↦ `(h, s, l)`; the text shows
`h`, `s*100`, `l*100`. -/
def rgbToHsl (r g b : α) : α × α × α :=
  let r := r / (255.0 : α)
  let g := g / (255.0 : α)
  let b := b / (255.0 : α)
  let mx := Num.pmax (Num.pmax r g) b
  let mn := Num.pmin (Num.pmin r g) b
  let diff := mx - mn
  let l := (mx + mn) / (2.0 : α)
  if Num.eq diff (0.0 : α) then ((0.0 : α), (0.0 : α), l) else
  let s := Num.pmin (1.0 : α) (diff / ((1.0 : α) - Num.abs ((2.0 : α) * l - (1.0 : α))))
  let h :=
    if Num.eq mx r then Num.pmod ((g - b) / diff) (6.0 : α)
    else if Num.eq mx g then (b - r) / diff + (2.0 : α)
    else (r - g) / diff + (4.0 : α)
  (h * (60.0 : α), s, l)

/-- the three numbers printed by `rgb_to_hsl`: `hsl({h}, {s*100}%, {l*100}%)` -/
def rgbToHslText (c : RGB) : α × α × α :=
  let (h, s, l) := rgbToHsl (Num.ofInt c.1 : α) (Num.ofInt c.2.1) (Num.ofInt c.2.2)
  (h, s * (100.0 : α), l * (100.0 : α))

/-- the inner `f(p, q, t)` of `hsl_to_rgb` -/
def hslF (p q t : α) : α :=
  let t := if Num.lt t (0.0 : α) then t + (1.0 : α) else t
  let t := if Num.gt t (1.0 : α) then t - (1.0 : α) else t
  if Num.lt t ((1.0 : α) / (6.0 : α)) then p + (q - p) * (6.0 : α) * t
  else if Num.lt t ((1.0 : α) / (2.0 : α)) then q
  else if Num.lt t ((2.0 : α) / (3.0 : α)) then p + (q - p) * ((2.0 : α) / (3.0 : α) - t) * (6.0 : α)
  else p

/-- `hsl_to_rgb` from the validated numbers: `h` already reduced mod 360, `0 ≤ s,l ≤ 1`. -/
def hslToRgbCore (h s l : α) : RGB :=
  if Num.eq s (0.0 : α) then
    let v := Num.roundHE (l * (255.0 : α)); (v, v, v)
  else
    let q := if Num.lt l (0.5 : α) then l * ((1.0 : α) + s) else (l + s - l * s)
    let p := (2.0 : α) * l - q
    let hn := h / (360.0 : α)
    let r := hslF p q (hn + (1.0 : α) / (3.0 : α))
    let g := hslF p q hn
    let b := hslF p q (hn - (1.0 : α) / (3.0 : α))
    (Num.roundHE (r * (255.0 : α)), Num.roundHE (g * (255.0 : α)), Num.roundHE (b * (255.0 : α)))

/-- `0 <= s <= 1 and 0 <= l <= 1` -/
def hslInRange (s l : α) : Bool :=
  (Num.le (0.0 : α) s && Num.le s (1.0 : α)) && (Num.le (0.0 : α) l && Num.le l (1.0 : α))

/-- reading back the text written by `rgb_to_hsl`: `float(h) % 360`, `float(s)/100`, `float(l)/100`,
range check, conversion. `none` = the library's reader raises `ValueError`. -/
def hslTextToRgb (t : α × α × α) : Option RGB :=
  let (h, s100, l100) := t
  let h := Num.pmod h (360.0 : α)
  let s := s100 / (100.0 : α)
  let l := l100 / (100.0 : α)
  if hslInRange s l then some (hslToRgbCore h s l) else none

end Cm
