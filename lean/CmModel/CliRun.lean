import CmModel.Cli
import CmModel.Color
/-!
# The CLI model wired to the model's own L0–L3 (`ColorPair`, `make_readable`), and the batch run
-/
namespace Cm.Cli
open Cm Cm.Parse

/-- text of a tuned colour. `hsl()` results carry full float `repr`s, which the model does not print:
    they travel as `~hsl~<bits>,<bits>,<bits>` and the harness compares the numbers. -/
def outText (hexOfFloat : Float → String) : OutVal Float → Str
  | .text s => s
  | .tuple c => fmtRgbFn c   -- cannot occur: CLI inputs are strings
  | .hsl h s l => ("~hsl~" ++ hexOfFloat h ++ "," ++ hexOfFloat s ++ "," ++ hexOfFloat l).toList

/-- a colour string as the CLI hands it to `ColorPair`, including the marker form above -/
def colorOfText (E : PEnv) (floatOfHex : String → Option Float) (s : Str) (ctx : Option (Color Float)) : Color Float :=
  if "~hsl~".toList.isPrefixOf s then
    match ((String.ofList (s.drop 5)).splitOn ",").map floatOfHex with
    | [some h, some sat, some l] =>
      match hslTextToRgb (h, sat, l) with
      | some c => { fmt := .hsl, state := .valid c }
      | none => { fmt := .hsl, state := .invalid }
    | _ => { fmt := .hsl, state := .invalid }
  else Color.new E (.str s) ctx

/-- `pairEval` computed by the model's own parser, WCAG leaves and optimiser -/
def pairEvalImpl (E : PEnv) (hexOfFloat : Float → String) (floatOfHex : String → Option Float)
    (mode : Int) (premium : Bool) : PairEval := fun text bg =>
  let b := colorOfText E floatOfHex bg none
  let t := colorOfText E floatOfHex text (some b)
  let p : ColorPair Float := { text := t, bg := b, large := false }
  match t.state, b.state with
  | .raised _, _ | _, .raised _ =>
    { valid := false, raised := true, meets := false, tuned := [], ok := false, origLevel := .FAIL, newLevel := .FAIL }
  | .valid tc, .valid bc =>
    let target : Float := if premium then 7.0 else 4.5
    let meets := contrastRatio (α := Float) tc bc >= target
    match p.makeReadable E floatLeaf (descendImpl floatLeaf) mode premium with
    | some (out, ok) =>
      let tunedText := outText hexOfFloat out
      -- `new_pair = ColorPair(tuned_rgb, bg_color_str)`; its level
      let nt := colorOfText E floatOfHex tunedText (some b)
      let newLevel := match nt.state with
        | .valid ntc => wcagLevel (α := Float) ntc bc false
        | _ => .FAIL
      { valid := true, raised := false, meets := meets, tuned := tunedText, ok := ok,
        origLevel := wcagLevel (α := Float) tc bc false, newLevel := newLevel }
    | none =>
      { valid := false, raised := false, meets := false, tuned := [], ok := false, origLevel := .FAIL, newLevel := .FAIL }
  | _, _ =>
    { valid := false, raised := false, meets := false, tuned := [], ok := false, origLevel := .FAIL, newLevel := .FAIL }

end Cm.Cli
