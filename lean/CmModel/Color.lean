import CmModel.Parser
import CmModel.Descent
/-!
# `Color`, `ColorPair`, `make_readable`, `make_readable_bulk`
Mirrors `core/colors.py` and `core/cm_colors.py`.
-/
namespace Cm
open Parse

/-- outcome of constructing a `Color` -/
inductive ColorState where
  | valid (rgb : RGB)
  | invalid            -- `_error` set (non-empty message), `rgb` is `None`
  | raised (e : PyErr) -- the constructor lets the exception escape
  deriving DecidableEq, Repr

structure Color (α : Type) where
  fmt : Fmt
  state : ColorState

namespace Color
variable {α : Type} [Num α]

def rgb? (c : Color α) : Option RGB := match c.state with | .valid r => some r | _ => none
def isValid (c : Color α) : Bool := c.rgb?.isSome

/-- `Color(color_input, background_context)`: `_parse` records `ValueError`, `TypeError` and `OverflowError`
    (`float(n)` of an int beyond the range of a double) as an invalid colour; anything else escapes -/
def new (E : PEnv) (input : PyVal α) (ctx : Option (Color α)) : Color α :=
  let fmt := detectFormat E input
  let bg : Option RGB := match ctx with | some c => c.rgb? | none => none
  match parseColor E input bg with
  | .ok rgb => { fmt := fmt, state := .valid rgb }
  | .error .valueError => { fmt := fmt, state := .invalid }
  | .error .typeError => { fmt := fmt, state := .invalid }
  | .error .overflowError => { fmt := fmt, state := .invalid }

end Color

structure ColorPair (α : Type) where
  text : Color α
  bg : Color α
  large : Bool

namespace ColorPair
variable {α : Type} [NumT α]

/-- `ColorPair(text_color, bg_color, large_text)`: the background is parsed first and handed to the
    text colour as compositing context -/
def new (E : PEnv) (text bg : PyVal α) (large : Bool) : ColorPair α :=
  let b := Color.new E bg none
  { bg := b, text := Color.new E text (some b), large := large }

def isValid (p : ColorPair α) : Bool := p.text.isValid && p.bg.isValid

/-- `ColorPair.is_readable` -/
def isReadable (p : ColorPair α) : String :=
  match p.text.rgb?, p.bg.rgb? with
  | some t, some b => (wcagLevel (α := α) t b p.large).label
  | _, _ => "Not Readable"

/-- `ColorPair.make_readable(mode, very_readable)` without `show` / `save_report`:
    `none` = `(None, False)` -/
def makeReadable (E : PEnv) (O : Leaf α) (d : Descend α) (p : ColorPair α) (mode : Int) (very : Bool) :
    Option (OutVal α × Bool) :=
  match p.text.rgb?, p.bg.rgb? with
  | some t, some b =>
    let (c, ok) := checkAndFix O d t b p.large mode very
    -- `check_and_fix_contrast` hands back the tuple itself (already passes) or `rgb(r, g, b)` text;
    -- `Color(...)` re-reads it before formatting
    let reread : Except PyErr RGB :=
      if Num.ge (O.contrast t b) (thresholds (α := α) p.large very).1 then
        parseColor (α := α) E (.tuple [.int c.1, .int c.2.1, .int c.2.2]) none
      else parseColor (α := α) E (.str (fmtRgbFn c)) none
    match reread with
    | .ok c' => some (formatColor c' p.text.fmt, ok)
    | .error _ =>
      some ((if Num.ge (O.contrast t b) (thresholds (α := α) p.large very).1 then OutVal.tuple c
             else OutVal.text (fmtRgbFn c)), ok)
  | _, _ => none

end ColorPair

/-! ## bulk -/

/-- one entry of `make_readable_bulk`: `(text, bg)` or `(text, bg, large)` -/
structure BulkItem (α : Type) where
  text : PyVal α
  bg : PyVal α
  large : Bool

inductive BulkColour (α : Type) where
  | original            -- the entry's own text value, returned unchanged
  | tuned (v : OutVal α)

structure BulkResult (α : Type) where
  colour : BulkColour α
  status : String

namespace Bulk
variable {α : Type} [NumT α]

/-- an `OutVal` as the Python value that is fed back into `ColorPair(tuned_color, bg, large)` -/
def outAsVal (v : OutVal α) : Option (PyVal α) :=
  match v with
  | .text s => some (.str s)
  | .tuple c => some (.tuple [.int c.1, .int c.2.1, .int c.2.2])
  | .hsl _ _ _ => none   -- re-read through the HSL text: see `entry`

/-- the body of the loop in `make_readable_bulk` for one entry -/
def entry (E : PEnv) (O : Leaf α) (d : Descend α) (mode : Int) (very : Bool) (it : BulkItem α) : BulkResult α :=
  let pair := ColorPair.new E it.text it.bg it.large
  if !pair.isValid then { colour := .original, status := "invalid color" } else
  match pair.makeReadable E O d mode very with
  | none => { colour := .original, status := (pair.isReadable).toLower }
  | some (out, _) =>
    -- status = label of the returned colour against the same background, re-read from its spelling
    let bgc := Color.new E it.bg none
    let reread : Option RGB :=
      match out with
      | .hsl h s l => hslTextToRgb (h, s, l)
      | .text s => (Color.new (α := α) E (.str s) (some bgc)).rgb?
      | .tuple c => (Color.new (α := α) E (.tuple [.int c.1, .int c.2.1, .int c.2.2]) (some bgc)).rgb?
    let status := match reread, bgc.rgb? with
      | some t, some b => ((wcagLevel (α := α) t b it.large).label).toLower
      | _, _ => "not readable"
    { colour := .tuned out, status := status }

/-- `make_readable_bulk(pairs, mode, very_readable)` as the loop it is: an accumulator fold -/
def run (E : PEnv) (O : Leaf α) (d : Descend α) (mode : Int) (very : Bool) (items : List (BulkItem α)) :
    List (BulkResult α) :=
  (items.foldl (fun acc it => entry E O d mode very it :: acc) []).reverse

end Bulk
end Cm
