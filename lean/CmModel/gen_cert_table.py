#!/usr/bin/env python3
"""Deterministic generator of the 256-entry enclosure table in `CmModel/Cert.lean`.

For every 8-bit channel value v the table holds rationals (lo, hi) with

    lo <= lin(v/255) <= hi,      hi - lo <= 1e-15,

    lin c = c/12.92                      if c <= 0.04045   (v <= 10: exact rational, lo = hi)
          = ((c + 0.055)/1.055) ** 2.4   otherwise         (v >= 11)

For v >= 11, with x = (v/255 + 0.055)/1.055 (rational), lo and hi are the value of x**2.4
rounded down / up to 18 decimal places.  x**2.4 is computed as the integer 5th root of
x**12 scaled by 10**(5*18), i.e. with exact integer arithmetic only: lo is the LARGEST 18-place
decimal with lo**5 <= x**12 and hi the SMALLEST with x**12 <= hi**5.  These two inequalities are
what Lean re-checks in its kernel (`CmProofs/CertSound.lean`); nothing computed here is trusted.

Usage:  python3 gen_cert_table.py            # prints the Lean table body to stdout
        python3 gen_cert_table.py --write    # rewrites the block between the BEGIN/END markers
                                             # in Cert.lean (next to this script)
"""
import sys
import os
from fractions import Fraction
from decimal import Decimal, getcontext

getcontext().prec = 60
PLACES = 18
SCALE = 10 ** PLACES


def iroot5_floor(n: int) -> int:
    """largest r with r**5 <= n (n >= 0), integer Newton + fix-up"""
    if n < 2:
        return n
    r = 1 << ((n.bit_length() + 4) // 5)
    while True:
        s = (4 * r + n // r ** 4) // 5
        if s >= r:
            break
        r = s
    while r ** 5 > n:
        r -= 1
    while (r + 1) ** 5 <= n:
        r += 1
    return r


def x_of(v: int) -> Fraction:
    return (Fraction(v, 255) + Fraction(55, 1000)) / Fraction(1055, 1000)


def entry(v: int):
    """(lo, hi) as Fractions"""
    if v <= 10:
        assert Fraction(v, 255) <= Fraction(4045, 100000)
        e = Fraction(v, 255) / Fraction(1292, 100)
        return e, e
    assert Fraction(v, 255) > Fraction(4045, 100000)
    x = x_of(v)
    x12 = x ** 12
    # lo = floor(SCALE * x12^(1/5)):  lo^5 <= x12 * SCALE^5
    t = x12 * SCALE ** 5
    lo_n = iroot5_floor(t.numerator // t.denominator)
    # floor of t is enough: r^5 <= floor(t) <=> r^5 <= t for integer r
    if Fraction(lo_n) ** 5 == t:
        hi_n = lo_n
    else:
        hi_n = lo_n + 1
    lo, hi = Fraction(lo_n, SCALE), Fraction(hi_n, SCALE)
    # the certification inequalities (re-proved in Lean)
    assert lo ** 5 <= x12 <= hi ** 5
    assert hi - lo <= Fraction(1, 10 ** 15)
    # cross-check against an independent 60-digit Decimal evaluation
    d = (Decimal(x.numerator) / Decimal(x.denominator)) ** Decimal("2.4")
    assert Decimal(lo_n) / SCALE <= d + Decimal(10) ** -40
    assert d - Decimal(10) ** -40 <= Decimal(hi_n) / SCALE
    return lo, hi


def dec18(q: Fraction) -> str:
    n = q * SCALE
    assert n.denominator == 1
    s = str(n.numerator).rjust(PLACES + 1, "0")
    return s[:-PLACES] + "." + s[-PLACES:]


def lean_lines():
    out = []
    for v in range(256):
        lo, hi = entry(v)
        if v <= 10:
            # exact: v/255/12.92 = 100 v / 329460
            lit = f"({100 * v} : Rat) / 329460"
            out.append(f"  ({lit}, {lit}){',' if v < 255 else ''}  -- {v} (exact)")
        else:
            out.append(f"  ({dec18(lo)}, {dec18(hi)}){',' if v < 255 else ''}  -- {v}")
    return out


BEGIN = "-- BEGIN GENERATED TABLE (gen_cert_table.py)"
END = "-- END GENERATED TABLE"


def main():
    lines = lean_lines()
    if "--write" not in sys.argv:
        print("\n".join(lines))
        return
    path = os.path.join(os.path.dirname(os.path.abspath(__file__)), "Cert.lean")
    with open(path) as f:
        src = f.read()
    i, j = src.index(BEGIN), src.index(END)
    new = src[: i + len(BEGIN)] + "\n" + "\n".join(lines) + "\n" + src[j:]
    with open(path, "w") as f:
        f.write(new)


if __name__ == "__main__":
    main()
