import CmModel.Wcag
/-!
# sRGB ↔ OKLCH
Mirrors `conversions.py`: `rgb_to_oklch`, `oklch_to_rgb`, `calculate_hue_angle`,
`is_valid_oklch`, the `_safe` wrappers.
-/
namespace Cm
variable {α : Type} [NumT α]

abbrev Triple (α : Type) := α × α × α

/-- `safe_cbrt` -/
def safeCbrt (x : α) : α :=
  if Num.ge x (0.0 : α) then NumT.rpow x ((1.0 : α) / (3.0 : α))
  else -(NumT.rpow (-x) ((1.0 : α) / (3.0 : α)))

/-- `safe_cube` -/
def safeCube (x : α) : α :=
  if Num.ge x (0.0 : α) then x * x * x else -((-x) * (-x) * (-x))

/-- `calculate_hue_angle(a, b)` -/
def hueAngle (a b : α) : α :=
  if Num.eq a (0.0 : α) && Num.eq b (0.0 : α) then (0.0 : α) else
  let hue := NumT.atan2 b a * (180.0 : α) / NumT.pi
  if Num.lt hue (0.0 : α) then hue + (360.0 : α) else hue

/-- OKLab coordinates before the polar step (`rgb_to_oklch` steps 1–4) -/
def rgbToOklab (c : RGB) : Triple α :=
  let r : α := srgbToLinear (chan c.1)
  let g : α := srgbToLinear (chan c.2.1)
  let b : α := srgbToLinear (chan c.2.2)
  let l := (0.4122214708 : α) * r + (0.5363325363 : α) * g + (0.0514459929 : α) * b
  let m := (0.2119034982 : α) * r + (0.6806995451 : α) * g + (0.1073969566 : α) * b
  let s := (0.0883024619 : α) * r + (0.2817188376 : α) * g + (0.6299787005 : α) * b
  let l' := safeCbrt l
  let m' := safeCbrt m
  let s' := safeCbrt s
  let L := (0.2104542553 : α) * l' + (0.7936177850 : α) * m' - (0.0040720468 : α) * s'
  let a := (1.9779984951 : α) * l' - (2.4285922050 : α) * m' + (0.4505937099 : α) * s'
  let b2 := (0.0259040371 : α) * l' + (0.7827717662 : α) * m' - (0.8086757660 : α) * s'
  (L, a, b2)

/-- `rgb_to_oklch` -/
def rgbToOklch (c : RGB) : Triple α :=
  let (L, a, b) := rgbToOklab (α := α) c
  let C := NumT.sqrt (a * a + b * b)
  let H := if Num.lt C (1e-10 : α) then (0.0 : α) else hueAngle a b
  (Num.pmax (0.0 : α) (Num.pmin (1.0 : α) L), C, H)

/-- 8-bit quantisation: `max(0, min(255, round(x * 255)))` -/
def quant8 (x : α) : Int :=
  let n := Num.roundHE (x * (255.0 : α))
  max 0 (min 255 n)

/-- `oklch_to_rgb` -/
def oklchToRgb (t : Triple α) : RGB :=
  let (L, C, H) := t
  let hr := H * NumT.pi / (180.0 : α)
  let a := C * NumT.cos hr
  let b := C * NumT.sin hr
  let l' := L + (0.3963377774 : α) * a + (0.2158037573 : α) * b
  let m' := L - (0.1055613458 : α) * a - (0.0638541728 : α) * b
  let s' := L - (0.0894841775 : α) * a - (1.2914855480 : α) * b
  let l := safeCube l'
  let m := safeCube m'
  let s := safeCube s'
  let r := (4.0767416621 : α) * l - (3.3077115913 : α) * m + (0.2309699292 : α) * s
  let g := -(1.2684380046 : α) * l + (2.6097574011 : α) * m - (0.3413193965 : α) * s
  let bb := -(0.0041960863 : α) * l - (0.7034186147 : α) * m + (1.7076147010 : α) * s
  let cl (x : α) : α := Num.pmax (0.0 : α) (Num.pmin (1.0 : α) x)
  (quant8 (linearToSrgb (cl r)), quant8 (linearToSrgb (cl g)), quant8 (linearToSrgb (cl bb)))

/-- `is_valid_oklch` -/
def validOklch (t : Triple α) : Bool :=
  let (L, C, H) := t
  (Num.le (0.0 : α) L && Num.le L (1.0 : α)) && !(Num.lt C (0.0 : α)) &&
    (Num.le (0.0 : α) H && Num.le H (360.0 : α))

/-- `rgb_to_oklch_safe` (grey fallback when the input or the result is invalid) -/
def rgbToOklchSafe (c : RGB) : Triple α :=
  let fallback : Triple α :=
    let gray := (0.299 : α) * Num.ofInt c.1 + (0.587 : α) * Num.ofInt c.2.1 + (0.114 : α) * Num.ofInt c.2.2
    (gray / (255.0 : α), (0.0 : α), (0.0 : α))
  if !validRgb c then fallback else
  let o := rgbToOklch (α := α) c
  if !validOklch o then fallback else o

/-- `oklch_to_rgb_safe` for finite `L` (grey fallback) -/
def oklchToRgbSafe (t : Triple α) : RGB :=
  let fallback : RGB :=
    let g := max 0 (min 255 (Num.roundHE (t.1 * (255.0 : α))))
    (g, g, g)
  if !validOklch t then fallback else
  let c := oklchToRgb t
  if !validRgb c then fallback else c

end Cm
