import CmModel.Cli
/-!
# File discovery, output naming and the per-file loop of `cli/main.py`

`get_css_files` (main.py:11-19), `file_path.stem + "_cm" + file_path.suffix` (main.py:367-368) with
`pathlib`'s stem/suffix rules, and the `for file_path in files: try: … except Exception` loop with
counters shared by the whole run.
-/
namespace Cm.Fs
open Cm Cm.Cli

/-- index of the last `.` in a name -/
def lastDot (name : Str) : Option Nat :=
  let rec go : Str → Nat → Option Nat → Option Nat
    | [], _, acc => acc
    | c :: cs, i, acc => go cs (i + 1) (if c = '.' then some i else acc)
  go name 0 none

/-- `PurePath.stem` / `PurePath.suffix` of a final path component: the suffix starts at the last dot
    unless that dot is the first or the last character -/
def stemSuffix (name : Str) : Str × Str :=
  match lastDot name with
  | some i => if 0 < i ∧ i < name.length - 1 then (name.take i, name.drop i) else (name, [])
  | none => (name, [])

/-- name of the file the tool writes beside an input called `name` -/
def outName (name : Str) : Str :=
  let (stem, suf) := stemSuffix name
  stem ++ "_cm".toList ++ suf

def endsWith (s p : Str) : Bool := p.reverse.isPrefixOf s.reverse

def isCssName (name : Str) : Bool := endsWith name ".css".toList
def isCmName (name : Str) : Bool := endsWith name "_cm.css".toList

/-- which entries of a directory tree (given by their final components) `rglob("*.css")` followed by
    the `_cm.css` filter yields -/
def discovered (names : List Str) : List Str := names.filter fun n => isCssName n && !isCmName n

/-- what opening and reading a discovered path gives -/
inductive FileIn where
  | css (nodes : List Node)     -- decoded and parsed
  | unreadable                  -- decode error, a directory, a dangling link, … : `except Exception`
  deriving Repr

structure RunResult where
  writes : List (Str × List Node)   -- (output name, content), oldest first
  errors : List Str                 -- names reported on stderr ("Error processing …")
  st : St

/-- the per-file loop: counters and detail lists are shared by the run, the custom-property table
    and the pre-parsed blocks are rebuilt for every file -/
def runFiles (env : CliEnv) (cfg : Cfg) : List (Str × FileIn) → RunResult → RunResult
  | [], r => r
  | (name, .unreadable) :: rest, r => runFiles env cfg rest { r with errors := r.errors ++ [name] }
  | (name, .css nodes) :: rest, r =>
    match processFile env cfg nodes r.st with
    | (.written out, st') =>
      runFiles env cfg rest { r with writes := r.writes ++ [(outName name, out)], st := { st' with vars := [], rootDecls := [] } }
    | (.error, st') =>
      runFiles env cfg rest { r with errors := r.errors ++ [name], st := { st' with vars := [], rootDecls := [] } }

def run (env : CliEnv) (cfg : Cfg) (files : List (Str × FileIn)) : RunResult :=
  runFiles env cfg files { writes := [], errors := [], st := {} }

end Cm.Fs
