import CmModel.Search
/-!
# L2: strategies and `check_and_fix_contrast`
-/
namespace Cm
variable {α : Type} [Num α]

/-- `_strategy_strict` -/
def strategyStrict (O : Leaf α) (descend : Descend α) (t bg : RGB) (target minC : α) : RGB × Bool :=
  let tuned := genAccessible O descend t bg target minC defaultSchedule
  (tuned, Num.ge (O.contrast tuned bg) minC)

/-- the loop of `_strategy_recursive` (optimisation.py:348-378), `n` = iterations left -/
def recursiveLoop (O : Leaf α) (descend : Descend α) (bg : RGB) (target minC : α) :
    Nat → RGB → RGB × Bool
  | 0,     cur => (cur, false)
  | n + 1, cur =>
    if Num.ge (O.contrast cur bg) minC then (cur, true) else
    let next := genAccessible O descend cur bg target minC stepSchedule
    if next = cur then
      if Num.ge (O.contrast next bg) minC then (next, true) else (next, false)
    else if Num.ge (O.contrast next bg) minC then (next, true)
    else recursiveLoop O descend bg target minC n next

/-- `_strategy_recursive` -/
def strategyRecursive (O : Leaf α) (descend : Descend α) (t bg : RGB) (target minC : α) : RGB × Bool :=
  recursiveLoop O descend bg target minC 10 t

/-- option A of `_strategy_relaxed` (optimisation.py:406-430): same loop, 15 iterations, `break`s -/
def optALoop (O : Leaf α) (descend : Descend α) (bg : RGB) (target minC : α) :
    Nat → RGB → RGB × Bool
  | 0,     cur => (cur, false)
  | n + 1, cur =>
    if Num.ge (O.contrast cur bg) minC then (cur, true) else
    let next := genAccessible O descend cur bg target minC stepSchedule
    if next = cur then
      (cur, Num.ge (O.contrast next bg) minC)
    else if Num.ge (O.contrast next bg) minC then (next, true)
    else optALoop O descend bg target minC n next

/-- `_strategy_relaxed` -/
def strategyRelaxed (O : Leaf α) (descend : Descend α) (t bg : RGB) (target minC : α) : RGB × Bool :=
  let rec_ := strategyRecursive O descend t bg target minC
  if rec_.2 then (rec_.1, true) else
  let a := optALoop O descend bg target minC 15 t
  let bRgb := genAccessible O descend t bg target minC relaxedSchedule
  let bOk := Num.ge (O.contrast bRgb bg) minC
  if a.2 && bOk then
    if Num.le (O.deltaE t a.1) (O.deltaE t bRgb) then (a.1, true) else (bRgb, true)
  else if a.2 then (a.1, true)
  else if bOk then (bRgb, true)
  else (rec_.1, false)

/-- the `(min_contrast, target_contrast)` table of `check_and_fix_contrast` (optimisation.py:528-549) -/
def thresholds (large premium : Bool) : α × α :=
  if premium then
    if large then ((4.5 : α), (4.5 : α)) else ((7.0 : α), (7.0 : α))
  else
    if large then ((3.0 : α), (4.5 : α)) else ((4.5 : α), (7.0 : α))

/-- `check_and_fix_contrast` on already parsed colours: `(tuned, success)` -/
def checkAndFix (O : Leaf α) (descend : Descend α) (t bg : RGB) (large : Bool) (mode : Int) (premium : Bool) :
    RGB × Bool :=
  let (minC, target) := thresholds (α := α) large premium
  if Num.ge (O.contrast t bg) minC then (t, true) else
  if mode = 0 then strategyStrict O descend t bg target minC
  else if mode = 2 then strategyRelaxed O descend t bg target minC
  else strategyRecursive O descend t bg target minC

end Cm
