import CmModel.PyVal
/-!
# The integer a Python `int` value is

`PyVal.intValue` is the one view of a dynamically typed value the model's `PyVal.lean` does not name:
the integer that `isinstance(v, int)` values *are* (`True`/`False` are the ints 1/0). It is used by the
translation of `color_parser.py` (`harness/translate/parserseq.py`) for `isinstance(c, int) and 0 <= c <= 255`
and `int(c)`. The lemmas say that the views are exactly the `isinstance` classes of `PyVal.lean`.
-/
namespace Cm
namespace PyVal
variable {α : Type}

/-- the integer an `int` (or `bool`) is; `none` for everything that is not `isinstance(v, int)` -/
def intValue : PyVal α → Option Int
  | .int n => some n
  | .bool b => some (if b then 1 else 0)
  | _ => Option.none

/-- `intValue` is defined exactly on `isinstance(v, int)` -/
theorem isInt_eq_intValue_isSome (v : PyVal α) : v.isInt = v.intValue.isSome := by
  cases v <;> rfl

/-- `numValue` is defined exactly on `isinstance(v, (int, float))` -/
theorem isNumber_eq_numValue_isSome [Num α] (v : PyVal α) : v.isNumber = v.numValue.isSome := by
  cases v <;> rfl

/-- `float(v)` of an int is the conversion of the integer it is -/
theorem numValue_of_intValue [Num α] (v : PyVal α) (n : Int) (h : v.intValue = some n) :
    v.numValue = some (Num.ofInt n) := by
  cases v <;> simp_all [intValue, numValue]

end PyVal
end Cm
