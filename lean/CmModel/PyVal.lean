import CmModel.PyStr
import CmModel.Hsl
/-!
# Python values reaching `Color(...)`, and the conversions the parser applies to them
-/
namespace Cm

/-- the dynamically typed values the colour constructors are documented (or likely) to receive -/
inductive PyVal (α : Type) where
  | str (s : Str)
  | int (n : Int)
  | float (x : α)
  | bool (b : Bool)
  | none
  | list (xs : List (PyVal α))
  | tuple (xs : List (PyVal α))

namespace PyVal
variable {α : Type} [Num α]

/-- `isinstance(v, int)` (bools are ints) -/
def isInt : PyVal α → Bool
  | .int _ => true | .bool _ => true | _ => false
/-- `isinstance(v, float)` -/
def isFloat : PyVal α → Bool
  | .float _ => true | _ => false
/-- `isinstance(v, (int, float))` -/
def isNumber (v : PyVal α) : Bool := v.isInt || v.isFloat

/-- `float(v)` for a number -/
def numValue : PyVal α → Option α
  | .int n => some (Num.ofInt n)
  | .bool b => some (Num.ofInt (if b then 1 else 0))
  | .float x => some x
  | _ => Option.none

/-- `float(v)` : numbers convert, strings go through the `float()` grammar, `None` and containers
    raise `TypeError` -/
def toFloat (cls : CharCls) : PyVal α → Except PyErr α
  | .int n => .ok (Num.ofInt n)
  | .bool b => .ok (Num.ofInt (if b then 1 else 0))
  | .float x => .ok x
  | .str s => PyFloat.parse cls s
  | .none => .error .typeError
  | .list _ => .error .typeError
  | .tuple _ => .error .typeError

/-- what `str(v)` looks like to the two consumers the parser has for it (`strip`, `endswith("%")`,
    `float`): a number is its own value (`repr` and `float()` are inverses — trusted base), a string
    is itself, everything else is text that `float()` rejects -/
inductive StrOf (α : Type) where
  | num (x : α)
  | text (s : Str)
  | junk

def strOf : PyVal α → StrOf α
  | .int n => .num (Num.ofInt n)
  | .float x => .num x
  | .str s => .text s
  | .bool _ => .junk      -- "True" / "False"
  | .none => .junk        -- "None"
  | .list _ => .junk      -- "[...]"
  | .tuple _ => .junk     -- "(...)"

end PyVal
end Cm
