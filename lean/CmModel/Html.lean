/-!
# HTML escaping and a coarse tokenizer model (C19)

`escape` is Python's `html.escape(s, quote=True)`. `step` is a coarse model of HTML tokenization:
enough to say where markup is and where text / double-quoted attribute values are.
`skeleton s` erases every character that is read as element text or as the inside of a quoted
attribute value and keeps all markup (tag names, attribute names, quotes, brackets): two documents
with the same skeleton have the same elements and attributes.
-/
namespace Cm.Html

/-- text as a sequence of Unicode code points (plain `Nat`s keep kernel evaluation over a whole
    report template fast) -/
abbrev Str := List Nat

def ofString (s : String) : Str := s.toList.map Char.toNat

/-- `html.escape`, per character -/
def escapeChar (c : Nat) : Str :=
  if c = 38 then [38, 97, 109, 112, 59]            -- & -> &amp;
  else if c = 60 then [38, 108, 116, 59]           -- < -> &lt;
  else if c = 62 then [38, 103, 116, 59]           -- > -> &gt;
  else if c = 34 then [38, 113, 117, 111, 116, 59] -- " -> &quot;
  else if c = 39 then [38, 35, 120, 50, 55, 59]    -- ' -> &#x27;
  else [c]

/-- `html.escape(s, quote=True)` -/
def escape (s : Str) : Str := s.flatMap escapeChar

/-- the inverse an HTML reader applies to character references (only the five produced above) -/
def unescape : Str → Str
  | 38 :: 97 :: 109 :: 112 :: 59 :: r => 38 :: unescape r
  | 38 :: 108 :: 116 :: 59 :: r => 60 :: unescape r
  | 38 :: 103 :: 116 :: 59 :: r => 62 :: unescape r
  | 38 :: 113 :: 117 :: 111 :: 116 :: 59 :: r => 34 :: unescape r
  | 38 :: 35 :: 120 :: 50 :: 55 :: 59 :: r => 39 :: unescape r
  | c :: r => c :: unescape r
  | [] => []

inductive HState | data | tag | dq | sq
  deriving DecidableEq, Repr

/-- one character of the coarse tokenizer -/
def step : HState → Nat → HState
  | .data, c => if c = 60 then .tag else .data
  | .tag, c => if c = 62 then .data else if c = 34 then .dq else if c = 39 then .sq else .tag
  | .dq, c => if c = 34 then .tag else .dq
  | .sq, c => if c = 39 then .tag else .sq

/-- the tokenizer over a string (written so that the state is forced at every character: kernel
    evaluation over a whole template then stays shallow) -/
def run : HState → Str → HState
  | st, [] => st
  | st, c :: r =>
    match step st c with
    | .data => run .data r
    | .tag => run .tag r
    | .dq => run .dq r
    | .sq => run .sq r

theorem run_cons (st : HState) (c : Nat) (r : Str) : run st (c :: r) = run (step st c) r := by
  show (match step st c with | .data => run .data r | .tag => run .tag r | .dq => run .dq r | .sq => run .sq r) = _
  cases step st c <;> rfl

/-- is the character markup (kept in the skeleton) when read in state `st`? -/
def isMarkup (st : HState) (c : Nat) : Bool :=
  match st with
  | .data => c = 60
  | .tag => true
  | .dq => c = 34
  | .sq => c = 39

/-- the markup of a document: everything except element text and quoted attribute values -/
def skeletonFrom : HState → Str → Str
  | _, [] => []
  | st, c :: r => if isMarkup st c then c :: skeletonFrom (step st c) r else skeletonFrom (step st c) r

def skeleton (s : Str) : Str := skeletonFrom .data s

/-- a report template: literal text and named user-controlled slots -/
inductive Seg where
  | lit (s : Str)
  | slot (name : String)
  deriving Repr, DecidableEq

/-- render with a filler for the slots -/
def render (t : List Seg) (fill : String → Str) : Str :=
  t.flatMap fun seg => match seg with | .lit s => s | .slot n => fill n

/-- states at which the slots of a template sit, assuming slot contents do not change the state -/
def slotStates : HState → List Seg → List (String × HState)
  | _, [] => []
  | st, .lit s :: r =>
    match run st s with
    | .data => slotStates .data r
    | .tag => slotStates .tag r
    | .dq => slotStates .dq r
    | .sq => slotStates .sq r
  | st, .slot n :: r => (n, st) :: slotStates st r

theorem slotStates_lit (st : HState) (s : Str) (r : List Seg) :
    slotStates st (.lit s :: r) = slotStates (run st s) r := by
  conv => lhs; unfold slotStates
  cases run st s <;> rfl

/-- every slot sits in element text or inside a double-quoted attribute value -/
def slotsSafe (t : List Seg) : Bool :=
  (slotStates .data t).all fun p => p.2 = .data || p.2 = .dq

end Cm.Html
