import CmModel.Strategy
/-!
# The numeric loop of `gradient_descent_oklch` (optimisation.py:116-191) and the concrete leaves
-/
namespace Cm
variable {α : Type} [NumT α]

/-- `cost_function(params)` -/
def gdCost (O : Leaf α) (t bg : RGB) (thr target h : α) (p : α × α) : α :=
  let newL := Num.pmax (0.0 : α) (Num.pmin (1.0 : α) p.1)
  let newC := Num.pmax (0.0 : α) (Num.pmin (0.5 : α) p.2)
  let cand := O.ofOklch (newL, newC, h)
  if !O.validRgb cand then (1e6 : α) else
  let d := O.deltaE t cand
  let k := O.contrast cand bg
  let cp := Num.pmax (0.0 : α) (target - k) * (1000.0 : α)
  let dp := Num.pmax (0.0 : α) (d - thr) * (10000.0 : α)
  let dist := d * (100.0 : α)
  cp + dp + dist

/-- `compute_gradient(params)` (central differences, ε = 1e-4) -/
def gdGradient (O : Leaf α) (t bg : RGB) (thr target h : α) (p : α × α) : α × α :=
  let eps : α := (1e-4 : α)
  let cost := gdCost O t bg thr target h
  let g0 := (cost (p.1 + eps, p.2) - cost (p.1 - eps, p.2)) / ((2.0 : α) * eps)
  let g1 := (cost (p.1, p.2 + eps) - cost (p.1, p.2 - eps)) / ((2.0 : α) * eps)
  (g0, g1)

/-- iterations `it, it+1, …` of the descent loop, `n` left -/
def gdLoop (O : Leaf α) (t bg : RGB) (thr target h : α) : Nat → Nat → α × α → α × α
  | 0, _, cur => cur
  | n + 1, it, cur =>
    let g := gdGradient O t bg thr target h cur
    let lr := (0.02 : α) * NumT.rpow (0.95 : α) (Num.ofInt ((it / 10 : Nat) : Int))
    let nx0 := Num.pmax (0.0 : α) (Num.pmin (1.0 : α) (cur.1 - lr * g.1))
    let nx1 := Num.pmax (0.0 : α) (Num.pmin (0.5 : α) (cur.2 - lr * g.2))
    let cost := gdCost O t bg thr target h
    if Num.lt (Num.abs (cost cur - cost (nx0, nx1))) (1e-6 : α) then cur
    else gdLoop O t bg thr target h n (it + 1) (nx0, nx1)

/-- the concrete `Descend`: run the loop from the text's own (L, C), convert the end point -/
def descendImpl (O : Leaf α) : Descend α := fun t bg thr target =>
  let (l, c, h) := O.toOklch t
  let fin := gdLoop O t bg thr target h 50 0 (l, c)
  O.ofOklch (fin.1, fin.2, h)

/-- the leaves as the library computes them -/
def libLeaf (inf : α) : Leaf α :=
  { contrast := contrastRatio, deltaE := deltaE2000, toOklch := rgbToOklchSafe,
    ofOklch := oklchToRgbSafe, validRgb := validRgb, inf := inf }

def floatInf : Float := 1.0 / 0.0
def floatLeaf : Leaf Float := libLeaf floatInf

/-- `check_and_fix_contrast` as executed: Float carrier, library leaves, real descent loop -/
def checkAndFixF (t bg : RGB) (large : Bool) (mode : Int) (premium : Bool) : RGB × Bool :=
  checkAndFix floatLeaf (descendImpl floatLeaf) t bg large mode premium

end Cm
