import CmModel.Effects
/-!
# Vocabulary of the translated API layer (`harness/translate/api.py` → `CmGen/Api.lean`)

The Python of `core/colors.py` and `core/cm_colors.py` is object-oriented and dynamically typed; the generated images
live over the model's own records (`Cm.Color`, `Cm.ColorPair`, `OutVal`, `PyVal`). The few definitions below are what
the translation rules of `harness/translate/api.py` map Python constructs *to*; each is a direct reading of one Python
idiom, stated once (they are part of the trusted base of the static tie, like the rules themselves).
-/
namespace Cm
open Parse

/-- a colour argument, as the two parser entry points respond to it: `detect_color_format(x)` and
    `parse_color_to_rgb(x, background=·)` -/
structure ColorInput where
  detect : Fmt
  parse : Option RGB → Except PyErr RGB

namespace Api
variable {α : Type} [NumT α]

/-- a caller-supplied Python value as a colour argument -/
def ofVal (E : PEnv) (v : PyVal α) : ColorInput := ⟨detectFormat E v, parseColor E v⟩

/-- a value the library produced itself (`check_and_fix_contrast` / `format_color`) fed back into `Color(...)`:
    text and tuples as the Python values they are; the HSL text `f"hsl({h}, {s*100}%, {l*100}%)"` is read back through
    the three printed numbers (`repr`/`float()` are inverses — trusted base, as in `Bulk.entry`), it has no alpha -/
def ofOut (E : PEnv) (v : OutVal α) : ColorInput :=
  match v with
  | .text s => ofVal E (.str s : PyVal α)
  | .tuple c => ofVal E (.tuple [.int c.1, .int c.2.1, .int c.2.2] : PyVal α)
  | .hsl h s l => ⟨.hsl, fun _ => match hslTextToRgb (h, s, l) with | some r => .ok r | none => .error .valueError⟩

/-- the object a `Color.__init__` leaves behind, digested: `_format` and `_rgb` (`None` = invalid) -/
def digest (fmt : Fmt) (rgb : Option RGB) : Color α :=
  { fmt := fmt, state := match rgb with | some r => .valid r | none => .invalid }

/-- an exception escaping `Color.__init__` (no object exists; the model keeps the kind in the state) -/
def raisedWith (fmt : Fmt) (e : PyErr) : Color α := { fmt := fmt, state := .raised e }

/-- passing an `Optional[RGB]` where the callee needs a colour: `None` makes the callee raise (kind `k`) -/
def withRgb {β : Type} (k : PyErr) (o : Option RGB) (f : RGB → Except PyErr β) : Except PyErr β :=
  match o with
  | some r => f r
  | none => .error k

/-- `check_and_fix_contrast(text_rgb, bg_rgb, large, mode, premium)` as its caller sees it: `(text, True)` — the tuple
    it was given — when the pair already passes, else `(rgbint_to_string(tuned), success)`.  (`checkAndFix` is the
    image of everything in between: `CmGen/Optimiser.lean`, `source_check_and_fix_contrast`.) -/
def checkAndFixOut (O : Leaf α) (d : Descend α) (t b : RGB) (large : Bool) (mode : Int) (premium : Bool) :
    OutVal α × Bool :=
  let r := checkAndFix O d t b large mode premium
  (if Num.ge (O.contrast t b) (thresholds (α := α) large premium).1 then OutVal.tuple r.1 else OutVal.text (fmtRgbFn r.1), r.2)

/-- Python truth value of a returned colour -/
def outTruthy (v : OutVal α) : Bool :=
  match v with
  | .text s => !s.isEmpty
  | .hsl _ _ _ => true     -- a non-empty f-string
  | .tuple _ => true       -- a 3-tuple

/-- Python truth value of a caller-supplied value (`if large:`) -/
def valTruthy (v : PyVal α) : Bool :=
  match v with
  | .str s => !s.isEmpty
  | .int n => n != 0
  | .float x => !(Num.eq x (0.0 : α))
  | .bool b => b
  | .none => false
  | .list xs => !xs.isEmpty
  | .tuple xs => !xs.isEmpty

/-- `for i, x in enumerate(xs): body` over a state, in the exception monad -/
def forEnum {β σ : Type} (body : Nat → β → σ → Except PyErr σ) : Nat → List β → σ → Except PyErr σ
  | _, [], s => .ok s
  | i, x :: xs, s =>
    match body i x s with
    | .ok s' => forEnum body (i + 1) xs s'
    | .error e => .error e

/-- `m >>= f` spelled out -/
def andThen {β γ : Type} (m : Except PyErr β) (f : β → Except PyErr γ) : Except PyErr γ :=
  match m with
  | .ok v => f v
  | .error e => .error e

/-- one entry of the list `make_readable_bulk` returns: the first component is either the caller's own value or a
    colour the library produced -/
abbrev BulkOut (α : Type) := (PyVal α ⊕ OutVal α) × String

/-- the model's `BulkResult` as the Python tuple it stands for (`it` = the entry it was computed from) -/
def reify (it : BulkItem α) (r : BulkResult α) : BulkOut α :=
  (match r.colour with | .original => .inl it.text | .tuned v => .inr v, r.status)

/-- a normalised entry as the 3-sequence the caller wrote (`(text, bg, large)`); the 2-sequence `(text, bg)` is
    `[it.text, it.bg]` with `it.large = false` -/
def rawItem (it : BulkItem α) : List (PyVal α) := [it.text, it.bg, .bool it.large]

end Api
end Cm
