import CmModel.PyStr
import CmModel.Wcag
/-!
# The CSS rewriter of `cli/main.py`, over an abstract stylesheet

tinycss2 (tokeniser, parser, serialiser) is third-party and is a *parameter*: the harness parses the
stylesheet with the real tinycss2 and hands the model this abstract syntax tree; the model does
everything `cli/main.py` does with it — custom-property collection, `var()` resolution (the same
regular-expression semantics), pair extraction, three-way classification, declaration / custom
property rewriting, nested `@media` / `@supports`, counters and detail lists, and the serialisation
failures that make a whole file be skipped.
`ColorPair` / `make_readable` enter as the oracle `pairEval`.
-/
namespace Cm.Cli

/-- `re`'s `\w` and `\s` (Unicode-aware in Python 3) -/
structure CliEnv where
  isWord : Char → Bool
  isSpace : Char → Bool

def asciiEnv : CliEnv :=
  { isWord := fun c => c.isAlphanum || c = '_', isSpace := asciiIsSpace }

/-- a `tinycss2.ast.Declaration` as the tool looks at it -/
structure Decl where
  name : Str              -- `decl.name` (original spelling)
  lowerName : Str         -- `decl.lower_name`
  value : Str             -- `tinycss2.serialize(decl.value)` (not stripped)
  important : Bool
  comments : Str := []    -- the comment tokens of `decl.value`, serialised and concatenated
  deriving DecidableEq, Repr

/-- an element of `parse_declaration_list(content, skip_whitespace=False, skip_comments=False)` -/
inductive Item where
  | decl (d : Decl)
  | other (text : Str) (serialisable : Bool)   -- whitespace, comment, nested at-rule, or a ParseError
  deriving DecidableEq, Repr

inductive Node where
  | rule (selector : Str) (items : List Item)                 -- QualifiedRule: `serialize(prelude).strip()`
  | at (lowerKw : Str) (prelude : Str) (body : List Node)    -- `@media` / `@supports` with a non-empty block
  | other (text : Str) (serialisable : Bool)                  -- anything else, carried as opaque text
  deriving Repr

/-- what `ColorPair(text, bg)` and `make_readable(mode, very_readable=premium)` say about a pair -/
structure PairResult where
  valid : Bool
  raised : Bool          -- the pair logic raised (caught by the per-rule `except`)
  meets : Bool           -- contrast >= target ratio (4.5, or 7.0 with --premium)
  tuned : Str            -- the colour `make_readable` returns (in the input's format)
  ok : Bool              -- its success flag
  origLevel : Level
  newLevel : Level
  deriving Repr

abbrev PairEval := Str → Str → PairResult

structure Cfg where
  defaultBg : Str
  pairEval : PairEval

/-! ## `var()` handling -/

def startsWith (s p : Str) : Bool := p.isPrefixOf s

/-- the name part `--[\w-]+` at the head of `s`: `(name, rest)` -/
def takeVarName (env : CliEnv) (s : Str) : Option (Str × Str) :=
  match s with
  | '-' :: '-' :: r =>
    let run := r.takeWhile (fun c => env.isWord c || c = '-')
    if run.isEmpty then none else some ('-' :: '-' :: run, r.drop run.length)
  | _ => none

/-- index of the last `)` in `s` -/
def lastParen (s : Str) : Option Nat :=
  let rec go : Str → Nat → Option Nat → Option Nat
    | [], _, acc => acc
    | c :: cs, i, acc => go cs (i + 1) (if c = ')' then some i else acc)
  go s 0 none

/-- `var\((--[\w-]+)(?:\s*,\s*(.*))?\)` anchored right after `var(` -/
def matchVarFull (env : CliEnv) (afterOpen : Str) : Option (Str × Option Str) :=
  match takeVarName env afterOpen with
  | none => none
  | some (name, r) =>
    let r1 := r.dropWhile env.isSpace
    let grouped : Option (Str × Option Str) :=
      match r1 with
      | ',' :: r2 =>
        let r3 := r2.dropWhile env.isSpace
        let line := r3.takeWhile (· ≠ '\n')
        (lastParen line).map fun j => (name, some (line.take j))
      | _ => none
    match grouped with
    | some m => some m
    | none => match r with
      | ')' :: _ => some (name, none)
      | _ => none

/-- leftmost match of the full pattern in `s` (`re.search`) -/
def searchVarFull (env : CliEnv) : Str → Option (Str × Option Str)
  | [] => none
  | c :: cs =>
    let here := if startsWith (c :: cs) "var(".toList then matchVarFull env ((c :: cs).drop 4) else none
    match here with
    | some m => some m
    | none => searchVarFull env cs

/-- leftmost match of `var\((--[\w-]+)\)` in `s` -/
def searchVarSimple (env : CliEnv) : Str → Option Str
  | [] => none
  | c :: cs =>
    let here : Option Str :=
      if startsWith (c :: cs) "var(".toList then
        match takeVarName env ((c :: cs).drop 4) with
        | some (name, ')' :: _) => some name
        | _ => none
      else none
    match here with
    | some m => some m
    | none => searchVarSimple env cs

def containsVar (s : Str) : Bool :=
  let rec go : Str → Bool
    | [] => false
    | c :: cs => startsWith (c :: cs) "var(".toList || go cs
  go s

/-- one custom property: where its definition lives and its current value -/
structure VarDef where
  rule : Nat          -- index of the top-level `:root` / `html` rule
  item : Nat          -- index of the declaration inside that rule's item list
  value : Str
  deriving Repr

abbrev Vars := List (Str × VarDef)

def lookupVar (vars : Vars) (name : Str) : Option VarDef := (vars.find? (·.1 = name)).map (·.2)

/-- `resolve_variable(value_str, variables, visited)`; `none` = Python's `None`. The `visited` set is
    shared by the whole recursion, hence threaded. `fuel` bounds the recursion (every step either
    visits a new name or continues in a strictly shorter fallback). -/
def resolveVar (env : CliEnv) (vars : Vars) : Nat → Str → List Str → Option Str × List Str
  | 0, s, visited => (some s, visited)
  | fuel + 1, s, visited =>
    if s.isEmpty || !containsVar s then (some s, visited) else
    match searchVarFull env s with
    | none => (some s, visited)
    | some (name, fallback) =>
      if visited.contains name then (fallback, visited) else
      let visited := name :: visited
      let viaVar : Option Str × List Str :=
        match lookupVar vars name with
        | some d => resolveVar env vars fuel d.value visited
        | none => (none, visited)
      match viaVar with
      | (some r, v') => if !r.isEmpty then (some r, v') else
          (match fallback with
           | some f => if !f.isEmpty then resolveVar env vars fuel f v' else (none, v')
           | none => (none, v'))
      | (none, v') =>
          (match fallback with
           | some f => if !f.isEmpty then resolveVar env vars fuel f v' else (none, v')
           | none => (none, v'))

/-- `resolve_variable(raw, variables) or raw` -/
def resolveOr (env : CliEnv) (vars : Vars) (raw : Str) : Str :=
  let fuel := raw.length + (vars.foldl (fun n kv => n + kv.2.value.length + 1) 0) + vars.length + 2
  match (resolveVar env vars fuel raw []).1 with
  | some r => if r.isEmpty then raw else r
  | none => raw

/-! ## state -/

structure Failed where
  selector : Str
  text : Str
  bg : Str
  invalid : Bool        -- "Invalid colors" vs "Could not tune"
  deriving Repr

structure Fixed where
  selector : Str
  bg : Str
  originalText : Str
  tunedText : Str
  originalLevel : Level
  newLevel : Level
  deriving Repr

structure St where
  accessible : Nat := 0
  tuned : Nat := 0
  failed : Nat := 0
  failedDetails : List Failed := []      -- newest first
  fixedDetails : List Fixed := []        -- newest first
  vars : Vars := []
  /-- declaration lists of the top-level `:root` / `html` rules, parsed once and shared
      (`rule_declarations_map`) -/
  rootDecls : List (Nat × List Item) := []
  deriving Repr

def strip (env : CliEnv) (s : Str) : Str :=
  ((s.dropWhile env.isSpace).reverse.dropWhile env.isSpace).reverse

def isRootSel (sel : Str) : Bool := sel = ":root".toList || sel = "html".toList

/-- the last declaration whose (lower-cased) name is `n` -/
def lastDecl (items : List Item) (n : Str) : Option (Nat × Decl) :=
  let rec go : List Item → Nat → Option (Nat × Decl) → Option (Nat × Decl)
    | [], _, acc => acc
    | .decl d :: r, i, acc => go r (i + 1) (if d.lowerName = n then some (i, d) else acc)
    | .other _ _ :: r, i, acc => go r (i + 1) acc
  go items 0 none

/-- `update_decl_value`: the new value tokens, then the comments the old value contained -/
def setDeclValue (items : List Item) (idx : Nat) (v : Str) : List Item :=
  items.mapIdx fun i it => if i = idx then (match it with | .decl d => .decl { d with value := v ++ d.comments } | o => o) else it

def itemsSerialisable (items : List Item) : Bool :=
  items.all fun it => match it with | .other _ ok => ok | .decl _ => true

/-- variables defined by the declaration list of a `:root` / `html` rule (later definitions win) -/
def collectVars (env : CliEnv) (ruleIdx : Nat) (items : List Item) (vars : Vars) : Vars :=
  let rec go : List Item → Nat → Vars → Vars
    | [], _, v => v
    | .decl d :: r, i, v =>
      if startsWith d.name ['-', '-'] then
        go r (i + 1) ((d.name, { rule := ruleIdx, item := i, value := strip env d.value }) :: v.filter (·.1 ≠ d.name))
      else go r (i + 1) v
    | .other _ _ :: r, i, v => go r (i + 1) v
  go items 0 vars

/-- the pre-pass of `main` (main.py:322-346) -/
def prePass (env : CliEnv) (nodes : List Node) : St :=
  let rec go : List Node → Nat → St → St
    | [], _, st => st
    | .rule sel items :: r, i, st =>
      if isRootSel sel then
        go r (i + 1) { st with rootDecls := st.rootDecls ++ [(i, items)], vars := collectVars env i items st.vars }
      else go r (i + 1) st
    | _ :: r, i, st => go r (i + 1) st
  go nodes 0 {}

def getRoot (st : St) (i : Nat) : Option (List Item) := (st.rootDecls.find? (·.1 = i)).map (·.2)

def setRoot (st : St) (i : Nat) (items : List Item) : St :=
  { st with rootDecls := st.rootDecls.map fun kv => if kv.1 = i then (i, items) else kv }

/-- processing one qualified rule (main.py:113-251). `top` = its top-level index when it is one of
    the pre-parsed `:root` / `html` rules (then the shared declaration list is used).
    `.error st` = re-serialising the modified declaration list raised. -/
def processRule (env : CliEnv) (cfg : Cfg) (top : Option Nat) (sel : Str) (items0 : List Item) (st : St) :
    Except St (List Item × St) :=
  let shared : Option (Nat × List Item) := match top with
    | some i => (getRoot st i).map fun its => (i, its)
    | none => none
  let items := match shared with | some (_, its) => its | none => items0
  match lastDecl items "color".toList with
  | none => .ok (items, st)
  | some (ci, cd) =>
    let rawText := strip env cd.value
    let rawBg := match lastDecl items "background-color".toList with
      | some (_, bd) => strip env bd.value
      | none => cfg.defaultBg
    let text := resolveOr env st.vars rawText
    let bg := resolveOr env st.vars rawBg
    let r := cfg.pairEval text bg
    if r.raised then
      .ok (items, { st with failed := st.failed + 1,
                            failedDetails := { selector := sel, text := text, bg := bg, invalid := false } :: st.failedDetails })
    else if !r.valid then
      .ok (items, { st with failed := st.failed + 1,
                            failedDetails := { selector := sel, text := text, bg := bg, invalid := true } :: st.failedDetails })
    else if r.meets then .ok (items, { st with accessible := st.accessible + 1 })
    else if !r.ok then
      .ok (items, { st with failed := st.failed + 1,
                            failedDetails := { selector := sel, text := text, bg := bg, invalid := false } :: st.failedDetails })
    else
      let fixed : Fixed := { selector := sel, bg := bg, originalText := text, tunedText := r.tuned,
                             originalLevel := r.origLevel, newLevel := r.newLevel }
      let st1 := { st with tuned := st.tuned + 1, fixedDetails := fixed :: st.fixedDetails }
      -- where to write: the custom property's definition, or this declaration
      let viaVar : Option (Str × VarDef) :=
        if containsVar rawText then
          match searchVarSimple env rawText with
          | some name => (lookupVar st.vars name).map fun d => (name, d)
          | none => none
        else none
      match viaVar with
      | some (name, d) =>
        -- update the definition in the shared list and the value seen by later rules
        let st2 := match getRoot st1 d.rule with
          | some its => setRoot st1 d.rule (setDeclValue its d.item r.tuned)
          | none => st1
        let st3 := { st2 with vars := st2.vars.map fun kv => if kv.1 = name then (name, { kv.2 with value := r.tuned }) else kv }
        -- the rule's own list is the shared one when it is itself a pre-parsed rule
        let items' := match top with
          | some i => (getRoot st3 i).getD items
          | none => items
        .ok (items', st3)
      | none =>
        let items' := setDeclValue items ci r.tuned
        if !itemsSerialisable items' then .error st1 else
        let st2 := match shared with | some (i, _) => setRoot st1 i items' | none => st1
        .ok (items', st2)

mutual
  /-- `process_nodes_recursive` over one node (nested levels never use the shared lists) -/
  def processNode (env : CliEnv) (cfg : Cfg) (top : Option Nat) (st : St) : Node → Except St (Node × St)
    | .rule sel items => do
      let (items', st') ← processRule env cfg top sel items st
      pure (.rule sel items', st')
    | .at kw prelude body =>
      if kw = "media".toList || kw = "supports".toList then do
        let (body', st') ← processNodes env cfg st body
        -- `tinycss2.serialize(nested_rules)` raises on an unserialisable nested node
        if body'.all (fun n => match n with | .other _ ok => ok | _ => true) then pure (.at kw prelude body', st')
        else throw st'
      else pure (.at kw prelude body, st)
    | .other t ok => pure (.other t ok, st)
  /-- … over a nested rule list -/
  def processNodes (env : CliEnv) (cfg : Cfg) (st : St) : List Node → Except St (List Node × St)
    | [] => pure ([], st)
    | n :: ns => do
      let (n', st1) ← processNode env cfg none st n
      let (ns', st2) ← processNodes env cfg st1 ns
      pure (n' :: ns', st2)
end

/-- the top-level loop: as `processNodes`, but top-level `:root` / `html` rules carry their index -/
def processTop (env : CliEnv) (cfg : Cfg) : List Node → Nat → St → Except St (List Node × St)
  | [], _, st => pure ([], st)
  | n :: ns, i, st => do
    let top : Option Nat := match n with | .rule sel _ => if isRootSel sel then some i else none | _ => none
    let (n', st1) ← processNode env cfg top st n
    let (ns', st2) ← processTop env cfg ns (i + 1) st1
    pure (n' :: ns', st2)

inductive FileOutcome where
  | written (nodes : List Node)
  | error                        -- an exception escaped to the per-file handler: no output file
  deriving Repr

/-- one file of `main`: pre-pass, processing, post-pass (every pre-parsed rule is re-serialised from
    its shared list), final serialisation. Returns the outcome and the counters/details as they stand
    (the counters are shared by the whole run, so a skipped file still leaves its partial counts). -/
def processFile (env : CliEnv) (cfg : Cfg) (nodes : List Node) (st0 : St) : FileOutcome × St :=
  let pre := prePass env nodes
  let st := { st0 with vars := pre.vars, rootDecls := pre.rootDecls }
  match processTop env cfg nodes 0 st with
  | .error st' => (.error, st')
  | .ok (nodes', st') =>
    -- post-pass
    let final : List Node := nodes'.mapIdx fun i n =>
      match n, getRoot st' i with
      | .rule sel _, some its => .rule sel its
      | n, _ => n
    let rootsOk := st'.rootDecls.all fun kv => itemsSerialisable kv.2
    let topOk := final.all fun n => match n with | .other _ ok => ok | _ => true
    if rootsOk && topOk then (.written final, st') else (.error, st')

end Cm.Cli
