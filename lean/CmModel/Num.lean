/-!
# Numeric carrier

Every numeric function of the model is written once over an abstract carrier `α`
and used at three instances:

* `Float`  — executable; compared against CPython by the correspondence harness
             (`Float.pow/exp/sin/cos/atan2/sqrt` call the same libm as CPython);
* `Rat`    — exact and executable (parsing, compositing, HSL; no libm call occurs there);
* `ℝ`      — Mathlib, noncomputable; the carrier of the real-number theorems
             (`CmProofs/RealNum.lean`).

No order or field laws are part of the classes: theorems that need them take them as
explicit hypotheses / separate law classes, so that control-flow theorems hold for the very
`Float` instance that is executed.
-/

namespace Cm

/-- What the Python code does with numbers, minus libm. Literals are decimal (`OfScientific`),
exactly as they are written in the Python source. -/
class Num (α : Type) extends Add α, Sub α, Mul α, Div α, Neg α, OfScientific α where
  ofInt : Int → α
  /-- Python `<=` -/
  le : α → α → Bool
  /-- Python `<` -/
  lt : α → α → Bool
  /-- `math.floor` on a finite value -/
  floor : α → Int
  /-- Python `abs` -/
  abs : α → α
  /-- Python float `%` (sign follows the divisor) -/
  pmod : α → α → α
  /-- neither NaN nor ±inf -/
  finite : α → Bool
  /-- the value `float()` gives a plain decimal: `±mant · 10^exp10` (correctly rounded at `Float`) -/
  ofDecimal : (neg : Bool) → (mant : Nat) → (exp10 : Int) → α
  /-- `float("inf")`, `float("nan")` (junk at carriers without them; only reachable from the
      spellings `inf`/`nan`, which are outside every property's numeric domain) -/
  inf : α
  nan : α

/-- … plus the libm calls. -/
class NumT (α : Type) extends Num α where
  rpow : α → α → α
  sqrt : α → α
  exp : α → α
  sin : α → α
  cos : α → α
  atan2 : α → α → α
  pi : α

namespace Num
variable {α : Type} [Num α]

/-- Python `a >= b` -/
@[inline] def ge (a b : α) : Bool := Num.le b a
/-- Python `a > b` -/
@[inline] def gt (a b : α) : Bool := Num.lt b a
/-- Python `a == b` on floats (false on NaN) -/
@[inline] def eq (a b : α) : Bool := Num.le a b && Num.le b a

/-- Python `max(a, b)`: `a` unless `b > a`. -/
@[inline] def pmax (a b : α) : α := if Num.lt a b then b else a
/-- Python `min(a, b)`: `a` unless `b < a`. -/
@[inline] def pmin (a b : α) : α := if Num.lt b a then b else a

/-- Python `round(x)` for a finite float: nearest integer, ties to even. -/
def roundHE (x : α) : Int :=
  let f := Num.floor x
  let d := x - Num.ofInt f
  if Num.lt d (0.5 : α) then f
  else if Num.lt (0.5 : α) d then f + 1
  else if f % 2 = 0 then f else f + 1

/-- Python `int(x)` for a finite float: truncation towards zero. -/
def trunc (x : α) : Int :=
  if Num.lt x (0.0 : α) then - Num.floor (-x) else Num.floor x

end Num

/-! ## `Float` instance -/

namespace FloatImpl

/-- exact integer value of a finite float with |x| < 2^63 that is already integral -/
def toIntExact (f : Float) : Int :=
  if f < 0 then -(((-f).toUInt64.toNat : Nat) : Int) else ((f.toUInt64.toNat : Nat) : Int)

def floorInt (x : Float) : Int := toIntExact (Float.floor x)

/-- decode a finite double as `m * 2^e` with integer `m` -/
def decode (x : Float) : Int × Int :=
  let bits : Nat := x.toBits.toNat
  let sign : Int := if bits / 2^63 = 1 then -1 else 1
  let ex : Nat := (bits / 2^52) % 2048
  let frac : Nat := bits % 2^52
  if ex = 0 then (sign * Int.ofNat frac, -1074)
  else (sign * Int.ofNat (frac + 2^52), Int.ofNat ex - 1075)

/-- the double with exact value `m * 2^e`, assuming it is representable -/
def encode (m : Int) (e : Int) : Float :=
  if m = 0 then 0.0 else
  -- strip trailing zero bits so that `Float.ofInt` is exact
  let rec strip (fuel : Nat) (m : Int) (e : Int) : Int × Int :=
    match fuel with
    | 0 => (m, e)
    | fuel + 1 => if m % 2 = 0 then strip fuel (m / 2) (e + 1) else (m, e)
  let (m', e') := strip 1100 m e
  (Float.ofInt m').scaleB e'

/-- C `fmod(x, y)` for finite `x`, finite non-zero `y`: exact, sign of `x`. -/
def fmod (x y : Float) : Float :=
  let (mx, ex) := decode x
  let (my, ey) := decode y
  let e := min ex ey
  let ax := mx.natAbs * 2 ^ (ex - e).toNat
  let ay := my.natAbs * 2 ^ (ey - e).toNat
  let r : Nat := ax % ay
  let v := encode (Int.ofNat r) e
  if mx < 0 then -v else v

/-- CPython `float_rem`: `x % y`. `y = 0` raises in Python; callers never pass it. -/
def pmod (x y : Float) : Float :=
  if x.isNaN || y.isNaN || x.isInf then (0.0 / 0.0)
  else if y.isInf then
    -- fmod(x, ±inf) = x; then the sign adjustment
    if x == 0.0 then (if y < 0 then -0.0 else 0.0)
    else if (y < 0) != (x < 0) then x + y else x
  else
    let m := fmod x y
    if m != 0.0 then
      if (y < 0) != (m < 0) then m + y else m
    else
      if y < 0 then -0.0 else 0.0

/-- `n · 2^e2`, correctly rounded to nearest-even (for results in the normal range) -/
def natScaleRN (n : Nat) (e2 : Int) : Float :=
  if n = 0 then 0.0 else
  let l := n.log2
  if l ≤ 62 then (n.toUInt64.toFloat).scaleB e2
  else
    let s := l - 62
    let q := n >>> s
    let sticky : Nat := if n % 2 ^ s ≠ 0 then 1 else 0
    ((q ||| sticky).toUInt64.toFloat).scaleB (e2 + Int.ofNat s)

/-- decimal → double as CPython's `float()` (David Gay's strtod) does it: correctly rounded -/
def ofDecimal (neg : Bool) (m : Nat) (e : Int) : Float :=
  let sgn (x : Float) : Float := if neg then -x else x
  if m = 0 then sgn 0.0 else
  let digits : Int := Int.ofNat (toString m).length
  if e + digits > 400 then sgn (1.0 / 0.0)
  else if e + digits < -400 then sgn 0.0
  else if e ≥ 0 then sgn (natScaleRN (m * 10 ^ e.toNat) 0)
  else
    let d := 10 ^ (-e).toNat
    -- enough extra bits that the quotient has at least 66 significant bits
    let sh := (66 + d.log2 + 1) - m.log2
    let num := m <<< sh
    let q := num / d
    let sticky : Nat := if num % d ≠ 0 then 1 else 0
    sgn (natScaleRN (2 * q + sticky) (-(Int.ofNat sh) - 1))

end FloatImpl

instance : Num Float where
  ofInt := Float.ofInt
  le a b := a <= b
  lt a b := a < b
  floor := FloatImpl.floorInt
  abs := Float.abs
  pmod := FloatImpl.pmod
  finite x := x.isFinite
  ofDecimal := FloatImpl.ofDecimal
  inf := 1.0 / 0.0
  nan := 0.0 / 0.0

instance : NumT Float where
  rpow := Float.pow
  sqrt := Float.sqrt
  exp := Float.exp
  sin := Float.sin
  cos := Float.cos
  atan2 := Float.atan2
  pi := 3.141592653589793

/-! ## `Rat` carrier (a definition, not an instance: proof files import Mathlib, where a second
    `Add ℚ` path would only cause trouble) -/

@[instance_reducible] def ratNum : Num Rat where
  ofInt := fun n => (n : Rat)
  le a b := decide (a ≤ b)
  lt a b := decide (a < b)
  floor := Rat.floor
  abs := fun a => if a < 0 then -a else a
  pmod a b := a - b * ((a / b).floor : Rat)
  finite _ := true
  ofDecimal neg m e :=
    let v : Rat := if e ≥ 0 then (m : Rat) * (10 : Rat) ^ e.toNat else (m : Rat) / (10 : Rat) ^ (-e).toNat
    if neg then -v else v
  inf := 0
  nan := 0

end Cm

namespace Cm
/-- Order laws used by the monotonicity / bound theorems. `Rat` and `ℝ` satisfy them by proof;
`Float` satisfies them on non-NaN values (trusted base; the harness checks that no recorded
leaf value is NaN). -/
class LawfulNumOrd (α : Type) [Num α] : Prop where
  le_refl  : ∀ a : α, Num.le a a = true
  le_trans : ∀ a b c : α, Num.le a b = true → Num.le b c = true → Num.le a c = true
  le_total : ∀ a b : α, Num.le a b = true ∨ Num.le b a = true
  lt_iff   : ∀ a b : α, Num.lt a b = true ↔ Num.le b a = false
end Cm

namespace Cm
/-- Decimal literals keep their order: `m·10^-e ≤ m'·10^-e'` (stated over `Nat`) implies `le` on
the carrier. True of `Rat`/`ℝ` by proof; of `Float` because correctly rounded conversion is
monotone (trusted base). This is what lets "every entry of the default schedule is ≤ 5.0" be a
`decide` and still bound the carrier's values. -/
class LawfulLit (α : Type) [Num α] : Prop where
  lit_le : ∀ m e m' e' : Nat, m * 10 ^ e' ≤ m' * 10 ^ e →
    Num.le (OfScientific.ofScientific m true e : α) (OfScientific.ofScientific m' true e' : α) = true
end Cm
