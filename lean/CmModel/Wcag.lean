import CmModel.Num
/-!
# WCAG 2 relative luminance, contrast ratio, levels
Mirrors `core/contrast.py` and `conversions.srgb_to_linear`.
-/
namespace Cm

abbrev RGB := Int × Int × Int

/-- `is_valid_rgb`: `all(0 <= v <= 255 for v in rgb)` -/
def validRgb (c : RGB) : Bool :=
  (0 ≤ c.1 && c.1 ≤ 255) && (0 ≤ c.2.1 && c.2.1 ≤ 255) && (0 ≤ c.2.2 && c.2.2 ≤ 255)

section
variable {α : Type} [NumT α]

/-- conversions.py `srgb_to_linear` -/
def srgbToLinear (c : α) : α :=
  if Num.le c (0.04045 : α) then c / (12.92 : α)
  else NumT.rpow ((c + (0.055 : α)) / (1.055 : α)) (2.4 : α)

/-- conversions.py `linear_to_srgb` -/
def linearToSrgb (c : α) : α :=
  if Num.le c (0.0031308 : α) then (12.92 : α) * c
  else (1.055 : α) * NumT.rpow c ((1.0 : α) / (2.4 : α)) - (0.055 : α)

/-- `x / 255.0` -/
@[inline] def chan (v : Int) : α := (Num.ofInt v : α) / (255.0 : α)

/-- contrast.py `calculate_relative_luminance` -/
def luminance (c : RGB) : α :=
  let r : α := srgbToLinear (chan c.1)
  let g : α := srgbToLinear (chan c.2.1)
  let b : α := srgbToLinear (chan c.2.2)
  (0.2126 : α) * r + (0.7152 : α) * g + (0.0722 : α) * b

/-- contrast.py `calculate_contrast_ratio` -/
def contrastRatio (t bg : RGB) : α :=
  let lt : α := luminance t
  let lb : α := luminance bg
  let lighter := Num.pmax lt lb
  let darker := Num.pmin lt lb
  (lighter + (0.05 : α)) / (darker + (0.05 : α))
end

inductive Level | AAA | AA | FAIL
  deriving DecidableEq, Repr

def Level.toString : Level → String
  | .AAA => "AAA" | .AA => "AA" | .FAIL => "FAIL"

/-- contrast.py `get_contrast_level` (needs only the order) -/
def contrastLevel {α : Type} [Num α] (ratio : α) (large : Bool) : Level :=
  if large then
    if Num.ge ratio (4.5 : α) then .AAA else if Num.ge ratio (3.0 : α) then .AA else .FAIL
  else
    if Num.ge ratio (7.0 : α) then .AAA else if Num.ge ratio (4.5 : α) then .AA else .FAIL

/-- contrast.py `get_wcag_level` -/
def wcagLevel {α : Type} [NumT α] (t bg : RGB) (large : Bool) : Level :=
  contrastLevel (contrastRatio (α := α) t bg) large

/-- colors.py `ColorPair.is_readable` label of a level -/
def Level.label : Level → String
  | .AAA => "Very Readable" | .AA => "Readable" | .FAIL => "Not Readable"

end Cm
