import CmModel.Cli
/-!
# What survives an exception that leaves `process_nodes_recursive`; which rules have a pre-parsed block

When re-serialising raises, the per-file handler of `main` drops the file: of the state only the `stats` dictionary is
looked at again (`processFile` starts the next file from `{ st0 with vars := pre.vars, rootDecls := pre.rootDecls }`).
`onError` forgets the other two components of an `.error` state and leaves every `.ok` result untouched; the static tie of
the per-rule body (`CmProps/C08rules.lean`) compares error states through it, because the code has already written a
tuned value through to the shared declaration list when the serialisation raises, while the model's `.error st1` has not.
-/
namespace Cm.Cli

/-- the `stats` part of a state -/
def statsOnly (st : St) : St := { st with vars := [], rootDecls := [] }

/-- compare `.error` states by their `stats` part only -/
def onError {α : Type} : Except St α → Except St α
  | .error st => .error (statsOnly st)
  | .ok a => .ok a

/-- only top-level `:root` / `html` rules have a pre-parsed block (`off` = index of `ns`' head) -/
def RootKeys (ns : List Node) (off : Nat) (roots : List (Nat × List Item)) : Prop :=
  ∀ kv ∈ roots, ∀ (j : Nat) (n : Node), kv.1 = off + j → ns[j]? = some n →
    ∃ sel items, n = .rule sel items ∧ isRootSel sel = true

end Cm.Cli
