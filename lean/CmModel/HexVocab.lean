import CmModel.PyStr
/-!
# `int(text, 16)` — the one piece of vocabulary the static tie of `hex_to_rgb` needs

`conversions.hex_to_rgb` reads each channel with `int(hex_str[i:j], 16)`. The hand-written model (`Cm.Parse.hexToRgb`)
never forms that call: it matches on six characters and uses `Str.hexVal` per character. The translator
`harness/translate/hexsrc.py` renders the call as `Str.intBase16`; `CmProofs/SourceHex.lean` proves that on the
text `hex_to_rgb` hands to it (two characters, each already checked to lie in `0123456789abcdefABCDEF`) it is
`16 * hexVal a + hexVal b`.
-/
namespace Cm
namespace Str

/-- positional value in base 16 of a string of ASCII hex digits, most significant first (`acc`: the value of the
    digits already read); `none` as soon as a character is not one of `0-9a-fA-F` -/
def hexDigitsVal : Str → Nat → Option Nat
  | [], acc => some acc
  | c :: cs, acc =>
    match hexVal c with
    | some d => hexDigitsVal cs (16 * acc + d)
    | none => none

/-- `int(text, 16)` for a Python `str`, **restricted to what its callers in cm-colors can pass**.

What is modelled, exactly:
* a non-empty string all of whose characters are among `0-9`, `a-f`, `A-F`: the positional value (an unbounded
  `Int`, never negative), as CPython returns;
* the empty string: `ValueError`, as CPython raises;
* **every other string: `ValueError`**. For most of them that is CPython's behaviour as well (a letter beyond `f`,
  punctuation, an inner blank, `#`, …), but NOT for all: CPython's `int(text, 16)` also accepts a leading sign
  (`"+f"`, `"-f"`), single underscores between digits (`"f_f"`), a `0x`/`0X` prefix (`"0xf"`), surrounding
  whitespace (`" f "`), and Unicode decimal digits of other scripts (`"٣"`, transliterated to ASCII before
  parsing). On those inputs this definition answers `valueError` where CPython returns a number, so it must not be
  used for them.

Every call the translator emits is guarded: `hex_to_rgb` raises before reaching `int(…, 16)` unless
`all(c in "0123456789abcdefABCDEF" for c in hex_str)` holds, so the argument consists of ASCII hex digits only and none
of the divergent inputs can occur. The tie theorem (`CmProps.C07.source_hex_to_rgb`) is an equality of the *guarded*
function with the model; the guard is part of the generated definition, so weakening it in the source (say, adding
`_` or `+` to the alphabet) changes the generated text and the theorem stops building instead of silently relying on
this restriction. -/
def intBase16 (s : Str) : Except PyErr Int :=
  match s with
  | [] => .error .valueError
  | _ =>
    match hexDigitsVal s 0 with
    | some v => .ok (Int.ofNat v)
    | none => .error .valueError

end Str
end Cm
