/-!
# The API as a state machine (C15)

`State` stands for whatever survives between calls (module-level cells, caches, the attributes of a
reused `ColorPair`). The static scan regenerated into `CmGen/StateSig.lean` lists every place in the
package where such state could be written; `ReadOnly` is what an empty list means for the machine.
-/
namespace Cm.Machine

structure Machine (S Op Out : Type) where
  step : S → Op → S × Out

variable {S Op Out : Type}

/-- no operation changes the state -/
def ReadOnly (M : Machine S Op Out) : Prop := ∀ s op, (M.step s op).1 = s

/-- state after a history of operations -/
def runHist (M : Machine S Op Out) (s : S) (h : List Op) : S := h.foldl (fun s o => (M.step s o).1) s

/-- output of a probe issued after a history -/
def probeAfter (M : Machine S Op Out) (s : S) (h : List Op) (p : Op) : Out := (M.step (runHist M s h) p).2

/-- outputs of every operation of a sequence, in order -/
def outputs (M : Machine S Op Out) : S → List Op → List Out
  | _, [] => []
  | s, o :: r => (M.step s o).2 :: outputs M (M.step s o).1 r

/-- `l` is an interleaving of the per-thread sequences `ts` (each thread's order is kept) -/
inductive Interleaving : List (List Op) → List Op → Prop
  | done (ts : List (List Op)) (h : ∀ t ∈ ts, t = []) : Interleaving ts []
  | pick (pre : List (List Op)) (o : Op) (t : List Op) (post : List (List Op)) (l : List Op) :
      Interleaving (pre ++ t :: post) l → Interleaving (pre ++ (o :: t) :: post) (o :: l)

end Cm.Machine
