import CmModel.Color
/-!
# Observable side effects of the API (`show`, `save_report`)
Mirrors `colors.py:198-271` and `cm_colors.py:91-125`: which calls print, which write a file.
-/
namespace Cm
open Parse

inductive Effect where
  | stdout                     -- something is printed
  | write (file : String)      -- a file is created / overwritten in the working directory
  deriving DecidableEq, Repr

/-- effects of `ColorPair.make_readable(mode, very_readable, show, save_report)` -/
def mrEffects (pairValid : Bool) (showFlag saveFlag : Bool) : List Effect :=
  if !pairValid then [] else
  (if showFlag then [Effect.stdout] else []) ++
  (if saveFlag then [Effect.write "cm_colors_quick_report.html", Effect.stdout] else [])

/-- effects of `make_readable_bulk(..., save_report)`; `nReported` = valid entries -/
def bulkEffects (saveFlag : Bool) (nReported : Nat) : List Effect :=
  if saveFlag && nReported > 0 then [Effect.write "cm_colors_bulk_report.html", Effect.stdout] else []

variable {α : Type} [NumT α]

/-- `make_readable` with the two flags: the result is computed first; the visualisers only read it -/
def makeReadableFull (E : PEnv) (O : Leaf α) (d : Descend α) (p : ColorPair α) (mode : Int) (very : Bool)
    (showFlag saveFlag : Bool) : Option (OutVal α × Bool) × List Effect :=
  (p.makeReadable E O d mode very, mrEffects p.isValid showFlag saveFlag)

/-- the three colour strings handed to the console preview (`to_console(fg_hex, bg_hex, tuned_hex, …)`):
    `none` = the preview falls back to the raw returned value because it could not be re-read -/
def previewArgs (E : PEnv) (t b : RGB) (out : OutVal α) : Str × Str × Option Str :=
  let tuned : Option Str :=
    match out with
    | .tuple c => some (fmtHex c)
    | .text s =>
      (match parseColor (α := α) E (.str s) none with | .ok c => some (fmtHex c) | .error _ => none)
    | .hsl h s l => (hslTextToRgb (h, s, l)).map fmtHex
  (fmtHex t, fmtHex b, tuned)

end Cm
