import CmModel.PyVal
/-!
# `parse_color_to_rgb`, `detect_color_format`, `format_color` and the converters they call

Mirrors `core/color_parser.py` and the string-level parts of `core/conversions.py`
(`hex_to_rgb`, `rgb_to_hex`, `rgbint_to_string`, `hsl_to_rgb`, `hsla_to_rgb`, `rgba_to_rgb`).
Every Python operation that can raise is an `Except PyErr _`.
-/
namespace Cm

/-- environment of the parser: the Unicode classes and the keyword table
    (`CSS_NAMED_COLORS`, regenerated from the source into `CmGen.namedTable`) -/
structure PEnv where
  cls : CharCls
  named : List (Str × Str)

namespace Parse
variable {α : Type} [Num α]

def vErr {β : Type} : Except PyErr β := .error .valueError

/-! ## hex -/

/-- `hex_to_rgb(hex_str)` -/
def hexToRgb (E : PEnv) (s : Str) : Except PyErr RGB :=
  let s := Str.lstripHash (Str.strip E.cls s)
  let s := match s with | [a, b, c] => [a, a, b, b, c, c] | _ => s
  match s with
  | [a, b, c, d, e, f] =>
    match Str.hexVal a, Str.hexVal b, Str.hexVal c, Str.hexVal d, Str.hexVal e, Str.hexVal f with
    | some a, some b, some c, some d, some e, some f =>
      .ok (Int.ofNat (16 * a + b), Int.ofNat (16 * c + d), Int.ofNat (16 * e + f))
    | _, _, _, _, _, _ => vErr
  | _ => vErr

def hexDigit (n : Nat) : Char := "0123456789abcdef".toList.getD n '0'

/-- `"#{:02x}{:02x}{:02x}".format(r, g, b)` for a valid colour -/
def fmtHex (c : RGB) : Str :=
  let h (v : Int) : Str := [hexDigit (v.toNat / 16), hexDigit (v.toNat % 16)]
  '#' :: (h c.1 ++ h c.2.1 ++ h c.2.2)

/-- decimal text of an integer, as `str(int)` / `f"{n}"` -/
def intStr (n : Int) : Str :=
  if n < 0 then '-' :: (toString n.natAbs).toList else (toString n.toNat).toList

/-- `rgbint_to_string(rgb)` : `f"rgb({r}, {g}, {b})"` -/
def fmtRgbFn (c : RGB) : Str :=
  "rgb(".toList ++ intStr c.1 ++ ", ".toList ++ intStr c.2.1 ++ ", ".toList ++ intStr c.2.2 ++ [')']

/-! ## number tokens -/

/-- `float(x)` inside a `try: … except Exception: raise ValueError` -/
def floatOrValueError (E : PEnv) (s : Str) : Except PyErr α :=
  match PyFloat.parse (α := α) E.cls s with
  | .ok v => .ok v
  | .error _ => vErr

/-- the numeric tail of `_parse_number_token` once the value is known -/
def rangeToken (v : α) (component : Bool) : Except PyErr α :=
  if component then
    if Num.le (0.0 : α) v && Num.le v (255.0 : α) then .ok v else vErr
  else
    if Num.le (0.0 : α) v && Num.le v (1.0 : α) then .ok v
    else if Num.lt (1.0 : α) v && Num.le v (100.0 : α) then
      .ok (Num.pmax (0.0 : α) (Num.pmin (1.0 : α) (v / (100.0 : α))))
    else vErr

/-- `_parse_number_token(tok, component)` -/
def numberToken (E : PEnv) (tok : Str) (component : Bool) : Except PyErr α :=
  let tok := Str.strip E.cls tok
  if Str.endsWith tok ['%'] then do
    let v ← floatOrValueError (α := α) E tok.dropLast
    if component then
      pure (Num.pmax (0.0 : α) (Num.pmin (255.0 : α) (v * (255.0 : α) / (100.0 : α))))
    else
      pure (Num.pmax (0.0 : α) (Num.pmin (1.0 : α) (v / (100.0 : α))))
  else do
    let v ← floatOrValueError (α := α) E tok
    rangeToken v component

/-- `_parse_number_token(str(v), component)` for an arbitrary Python value -/
def numberTokenOfVal (E : PEnv) (v : PyVal α) (component : Bool) : Except PyErr α :=
  match v.strOf with
  | .num x => rangeToken x component
  | .text s => numberToken E s component
  | .junk => vErr

/-! ## HSL / HSLA -/

/-- `_parse_hsl_percentage_or_decimal(v)` -/
def pctOrDec (E : PEnv) (v : Str) : Except PyErr α :=
  let v := Str.strip E.cls v
  if Str.endsWith v ['%'] then do
    let x ← PyFloat.parse (α := α) E.cls v.dropLast
    pure (x / (100.0 : α))
  else do
    let x ← PyFloat.parse (α := α) E.cls v
    if Num.le (0.0 : α) x && Num.le x (1.0 : α) then pure x else vErr

/-- `_parse_hue(v)` : `float(v.strip()) % 360` -/
def parseHue (E : PEnv) (v : Str) : Except PyErr α := do
  let x ← PyFloat.parse (α := α) E.cls (Str.strip E.cls v)
  pure (Num.pmod x (360.0 : α))

/-- validation + conversion shared by both `hsl_to_rgb` input forms -/
def hslFinish (h s l : α) : Except PyErr RGB :=
  if hslInRange s l then .ok (hslToRgbCore h s l) else vErr

/-- `hsl_to_rgb(str)` -/
def hslStrToRgb (E : PEnv) (s : Str) : Except PyErr RGB :=
  let text := Str.lower E.cls (Str.strip E.cls s)
  if !(Str.startsWith text "hsl(".toList) || !(Str.endsWith text [')']) then vErr else
  let inside := Str.strip E.cls ((text.drop 4).dropLast)
  let inside := Str.replaceChar inside ',' [' ']
  let inside := Str.replaceChar inside '%' ['%', ' ']
  match Str.splitWs E.cls inside with
  | p0 :: p1 :: p2 :: _ => do
    let h ← parseHue (α := α) E p0
    let s ← pctOrDec (α := α) E p1
    let l ← pctOrDec (α := α) E p2
    hslFinish h s l
  | _ => vErr

/-- `hsl_to_rgb((h, s, l))` for a 3-sequence of Python values -/
def hslSeqToRgb (E : PEnv) (h s l : PyVal α) : Except PyErr RGB := do
  let hv ← match h.strOf with
    | .num x => pure (Num.pmod x (360.0 : α))
    | .text t => parseHue (α := α) E t
    | .junk => vErr
  let dec (v : PyVal α) : Except PyErr α :=
    match v.strOf with
    | .num x => if Num.le (0.0 : α) x && Num.le x (1.0 : α) then pure x else vErr
    | .text t => pctOrDec (α := α) E t
    | .junk => vErr
  let sv ← dec s
  let lv ← dec l
  hslFinish hv sv lv

/-- the numeric tail of `hsla_to_rgb`: range check, conversion, compositing by truncation -/
def hslaFinish (h s l a : α) (bg : Option RGB) : Except PyErr RGB :=
  if !(hslInRange s l && (Num.le (0.0 : α) a && Num.le a (1.0 : α))) then vErr else do
  -- hsl_to_rgb((h, s, l)): the hue is reduced once more, s and l are re-validated
  let rgb ← hslFinish (Num.pmod h (360.0 : α)) s l
  if Num.ge a (1.0 : α) then pure rgb else
  let bgc : RGB := match bg with | some b => b | none => (255, 255, 255)
  let mix (f b : Int) : Int := Num.trunc (a * Num.ofInt f + ((1.0 : α) - a) * Num.ofInt b)
  pure (mix rgb.1 bgc.1, mix rgb.2.1 bgc.2.1, mix rgb.2.2 bgc.2.2)

/-- `hsla_to_rgb(str, background)` -/
def hslaStrToRgb (E : PEnv) (s : Str) (bg : Option RGB) : Except PyErr RGB :=
  let text := Str.lower E.cls (Str.strip E.cls s)
  if !(Str.startsWith text "hsla(".toList && Str.endsWith text [')']) then vErr else
  let content := Str.strip E.cls ((text.drop 5).dropLast)
  let content := Str.replaceChar content '/' [',']
  let parts := (Str.splitOn content ',').map fun p => Str.replaceChar (Str.strip E.cls p) '%' []
  match parts with
  | [p0, p1, p2, p3] => do
    let h0 ← PyFloat.parse (α := α) E.cls p0
    let h := Num.pmod h0 (360.0 : α)
    let s ← if p1.isEmpty then pure (0.0 : α) else do
      let x ← PyFloat.parse (α := α) E.cls p1; pure (x / (100.0 : α))
    let l ← if p2.isEmpty then pure (0.0 : α) else do
      let x ← PyFloat.parse (α := α) E.cls p2; pure (x / (100.0 : α))
    let a0 ← PyFloat.parse (α := α) E.cls p3
    let a := if Num.le a0 (1.0 : α) then a0 else a0 / (100.0 : α)
    hslaFinish h s l a bg
  | _ => vErr

/-- `hsla_to_rgb((h, s, l, a), background)` -/
def hslaSeqToRgb (E : PEnv) (h s l a : PyVal α) (bg : Option RGB) : Except PyErr RGB := do
  let h0 ← h.toFloat E.cls
  let hv := Num.pmod h0 (360.0 : α)
  let sv ← s.toFloat E.cls
  let lv ← l.toFloat E.cls
  let av ← a.toFloat E.cls
  hslaFinish hv sv lv av bg

/-! ## RGBA compositing -/

/-- `rgba_to_rgb((r, g, b, a), background)` after parsing -/
def rgbaToRgb (r g b : Int) (a : α) (bg : RGB) : Except PyErr RGB :=
  if !validRgb (r, g, b) then vErr
  else if !(Num.le (0.0 : α) a && Num.le a (1.0 : α)) then vErr
  else if !validRgb bg then vErr
  else
    let mix (f k : Int) : Int := Num.roundHE (Num.ofInt f * a + Num.ofInt k * ((1.0 : α) - a))
    .ok (mix r bg.1, mix g bg.2.1, mix b bg.2.2)

def clamp255 (n : Int) : Int := max 0 (min 255 n)

/-! ## `parse_color_to_rgb` -/

/-- one component of a 3-sequence on the default (RGB) path -/
def rgbComponent (E : PEnv) (c : PyVal α) : Except PyErr Int :=
  match c with
  | .float x =>
    if Num.le (0.0 : α) x && Num.le x (1.0 : α) then .ok (Num.roundHE (x * (255.0 : α)))
    else if Num.le (0.0 : α) x && Num.le x (255.0 : α) then .ok (Num.roundHE x)
    else vErr
  | .int n => if 0 ≤ n ∧ n ≤ 255 then .ok n else vErr
  | .bool b => .ok (if b then 1 else 0)
  | .str s => do
    let v ← numberToken (α := α) E s true
    pure (Num.roundHE v)
  | _ => vErr

/-- the background argument as `Color` passes it: an already parsed triple or nothing;
    `parse_color_to_rgb(background)` re-validates it on the RGBA paths -/
def bgParsed (bg : Option RGB) : Except PyErr RGB :=
  match bg with
  | none => .ok (255, 255, 255)
  | some b => if validRgb b then .ok b else vErr

def lookupNamed (E : PEnv) (s : Str) : Option Str :=
  (E.named.find? (fun kv => kv.1 = s)).map (·.2)

/-- fullmatch `[0-9a-fA-F]{3}|[0-9a-fA-F]{6}` -/
def isBareHex (s : Str) : Bool := (s.length = 3 || s.length = 6) && s.all Str.isHexDigit

/-- the string branch of `parse_color_to_rgb` -/
def parseStr (E : PEnv) (color : Str) (bg : Option RGB) : Except PyErr RGB :=
  let s := Str.strip E.cls color
  let sl := Str.lower E.cls s
  match lookupNamed E sl with
  | some hex => hexToRgb E hex
  | none =>
  if Str.startsWith sl ['#'] || isBareHex sl then
    hexToRgb E (if Str.startsWith sl ['#'] then s else '#' :: s)
  else if Str.startsWith sl "hsla(".toList then hslaStrToRgb (α := α) E s bg
  else if Str.startsWith sl "hsl(".toList then hslStrToRgb (α := α) E s
  else if Str.startsWith sl "rgb(".toList || Str.startsWith sl "rgba(".toList ||
      Str.startsWith sl "rgb ".toList || Str.startsWith sl ['('] || s.contains ',' || s.contains ' ' then
    match NumRe.findAll E.cls sl with
    | t0 :: t1 :: t2 :: t3 :: _ =>
      let comps : Except PyErr (Int × Int × Int × α) := do
        let r ← numberToken (α := α) E t0 true
        let g ← numberToken (α := α) E t1 true
        let b ← numberToken (α := α) E t2 true
        let a ← numberToken (α := α) E t3 false
        pure (Num.roundHE r, Num.roundHE g, Num.roundHE b, a)
      match comps with
      | .error _ => vErr
      | .ok (r, g, b, a) => do
        let bgc ← bgParsed bg
        rgbaToRgb r g b a bgc
    | [t0, t1, t2] =>
      let comps : Except PyErr RGB := do
        let r ← numberToken (α := α) E t0 true
        let g ← numberToken (α := α) E t1 true
        let b ← numberToken (α := α) E t2 true
        pure (Num.roundHE r, Num.roundHE g, Num.roundHE b)
      match comps with
      | .error _ => vErr
      | .ok (r, g, b) =>
        let c : RGB := (clamp255 r, clamp255 g, clamp255 b)
        if validRgb c then .ok c else vErr
    | _ => vErr
  else vErr

/-- `parse_color_to_rgb(color, background)` -/
def parseColor (E : PEnv) (color : PyVal α) (bg : Option RGB) : Except PyErr RGB :=
  let seq (xs : List (PyVal α)) : Except PyErr RGB :=
    match xs with
    | [r, g, b] =>
      let inUnit (v : PyVal α) : Bool :=
        match v with
        | .float x => Num.le (0.0 : α) x && Num.le x (1.0 : α)
        | _ => false
      let looksHsl : Bool :=
        (match r.numValue with
          | some x => r.isNumber && Num.lt (1.0 : α) x && Num.le x (360.0 : α)
          | none => false) && inUnit g && inUnit b
      if looksHsl then hslSeqToRgb E r g b
      else do
        let cr ← rgbComponent E r
        let cg ← rgbComponent E g
        let cb ← rgbComponent E b
        let c : RGB := (clamp255 cr, clamp255 cg, clamp255 cb)
        if validRgb c then pure c else vErr
    | [r, g, b, a] =>
      let big (v : PyVal α) : Bool :=
        match v.numValue with
        | some x => v.isNumber && Num.gt x (1.0 : α)
        | none => false
      let looksRgb := r.isInt || g.isInt || b.isInt || big r || big g || big b
      if looksRgb then do
        let rv ← numberTokenOfVal E r true
        let gv ← numberTokenOfVal E g true
        let bv ← numberTokenOfVal E b true
        let av ← numberTokenOfVal E a false
        let bgc ← bgParsed bg
        rgbaToRgb (Num.roundHE rv) (Num.roundHE gv) (Num.roundHE bv) av bgc
      else hslaSeqToRgb E r g b a bg
    | _ => vErr
  match color with
  | .tuple xs => seq xs
  | .list xs => seq xs
  | .str s => parseStr (α := α) E s bg
  | _ => vErr

/-! ## format detection and output -/

inductive Fmt | hex | rgb | hsl | named | rgba | hsla | rgbTuple | rgbaTuple | unknown
  deriving DecidableEq, Repr

def Fmt.toString : Fmt → String
  | .hex => "hex" | .rgb => "rgb" | .hsl => "hsl" | .named => "named" | .rgba => "rgba"
  | .hsla => "hsla" | .rgbTuple => "rgb_tuple" | .rgbaTuple => "rgba_tuple" | .unknown => "unknown"

/-- fullmatch `[0-9a-f]{3}|[0-9a-f]{6}` -/
def isBareHexLower (s : Str) : Bool :=
  (s.length = 3 || s.length = 6) && s.all fun c => ('0' ≤ c && c ≤ '9') || ('a' ≤ c && c ≤ 'f')

/-- `detect_color_format(color)` -/
def detectFormat (E : PEnv) (color : PyVal α) : Fmt :=
  match color with
  | .str s0 =>
    let s := Str.lower E.cls (Str.strip E.cls s0)
    if (lookupNamed E s).isSome then .named
    else if Str.startsWith s ['#'] then .hex
    else if Str.startsWith s "rgb(".toList then .rgb
    else if Str.startsWith s "rgba(".toList then .rgba
    else if Str.startsWith s "hsl(".toList then .hsl
    else if Str.startsWith s "hsla(".toList then .hsla
    else if isBareHexLower s then .hex
    else if s.contains ',' || s.contains ' ' then .rgb
    else .unknown
  | .tuple xs => if xs.length = 3 then .rgbTuple else if xs.length = 4 then .rgbaTuple else .unknown
  | .list xs => if xs.length = 3 then .rgbTuple else if xs.length = 4 then .rgbaTuple else .unknown
  | _ => .unknown

/-- what `make_readable` hands back -/
inductive OutVal (α : Type) where
  | text (s : Str)                 -- "#rrggbb" or "rgb(r, g, b)"
  | hsl (h s100 l100 : α)          -- `f"hsl({h}, {s*100}%, {l*100}%)"`: the three printed numbers
  | tuple (c : RGB)

/-- `format_color(rgb, format_type)` for a valid colour -/
def formatColor (c : RGB) (f : Fmt) : OutVal α :=
  match f with
  | .hex => .text (fmtHex c)
  | .rgb => .text (fmtRgbFn c)
  | .hsl => let t := rgbToHslText (α := α) c; .hsl t.1 t.2.1 t.2.2
  | .rgbTuple => .tuple c
  | _ => .text (fmtHex c)

end Parse
end Cm
