import CmModel.Oklch
/-!
# sRGB → XYZ (D65) → CIE L*a*b*, and CIEDE2000
Mirrors `conversions.py` `rgb_to_xyz/xyz_to_lab/rgb_to_lab` and
`color_metrics.py` `calculate_delta_e_2000`.
-/
namespace Cm
variable {α : Type} [NumT α]

/-- `rgb_to_xyz` -/
def rgbToXyz (c : RGB) : Triple α :=
  let r : α := srgbToLinear (chan c.1)
  let g : α := srgbToLinear (chan c.2.1)
  let b : α := srgbToLinear (chan c.2.2)
  let x := r * (0.4124564 : α) + g * (0.3575761 : α) + b * (0.1804375 : α)
  let y := r * (0.2126729 : α) + g * (0.7151522 : α) + b * (0.0721750 : α)
  let z := r * (0.0193339 : α) + g * (0.1191920 : α) + b * (0.9503041 : α)
  (x * (100.0 : α), y * (100.0 : α), z * (100.0 : α))

/-- `lab_transform` -/
def labF (t : α) : α :=
  if Num.gt t (0.008856 : α) then NumT.rpow t ((1.0 : α) / (3.0 : α))
  else ((7.787 : α) * t) + ((16.0 : α) / (116.0 : α))

/-- `xyz_to_lab` -/
def xyzToLab (xyz : Triple α) : Triple α :=
  let (x, y, z) := xyz
  let x := x / (95.047 : α)
  let y := y / (100.000 : α)   -- the literal as it is written in the source
  let z := z / (108.883 : α)
  let fx := labF x
  let fy := labF y
  let fz := labF z
  let L := Num.pmax (0.0 : α) (Num.pmin (100.0 : α) ((116.0 : α) * fy - (16.0 : α)))
  (L, (500.0 : α) * (fx - fy), (200.0 : α) * (fy - fz))

/-- `rgb_to_lab` -/
def rgbToLab (c : RGB) : Triple α := xyzToLab (rgbToXyz c)

/-- `math.radians` : `x * (pi / 180)` -/
@[inline] def radians (x : α) : α := x * (NumT.pi / (180.0 : α))

/-- the hue-difference branch of CIEDE2000 -/
def dhPrime (C1p C2p h1 h2 : α) : α :=
  if Num.eq C1p (0.0 : α) || Num.eq C2p (0.0 : α) then (0.0 : α)
  else if Num.le (Num.abs (h2 - h1)) (180.0 : α) then h2 - h1
  else if Num.gt (h2 - h1) (180.0 : α) then h2 - h1 - (360.0 : α)
  else h2 - h1 + (360.0 : α)

/-- the hue-mean branch of CIEDE2000 -/
def hMeanPrime (C1p C2p h1 h2 : α) : α :=
  if Num.eq C1p (0.0 : α) || Num.eq C2p (0.0 : α) then h1 + h2
  else if Num.le (Num.abs (h1 - h2)) (180.0 : α) then (h1 + h2) / (2.0 : α)
  else if Num.gt (Num.abs (h1 - h2)) (180.0 : α) && Num.lt (h1 + h2) (360.0 : α)
    then (h1 + h2 + (360.0 : α)) / (2.0 : α)
  else (h1 + h2 - (360.0 : α)) / (2.0 : α)

@[inline] def sq (x : α) : α := NumT.rpow x (2.0 : α)
@[inline] def pow7 (x : α) : α := NumT.rpow x (7.0 : α)

/-- CIEDE2000 on two Lab triples (`calculate_delta_e_2000` after its `rgb_to_lab` calls) -/
def deltaE2000Lab (p q : Triple α) : α :=
  let (L1, a1, b1) := p
  let (L2, a2, b2) := q
  let dL := L2 - L1
  let Lm := (L1 + L2) / (2.0 : α)
  let C1 := NumT.sqrt (a1 * a1 + b1 * b1)
  let C2 := NumT.sqrt (a2 * a2 + b2 * b2)
  let Cm := (C1 + C2) / (2.0 : α)
  let G := (0.5 : α) * ((1.0 : α) - NumT.sqrt (pow7 Cm / (pow7 Cm + (6103515625.0 : α))))
  let a1p := a1 * ((1.0 : α) + G)
  let a2p := a2 * ((1.0 : α) + G)
  let C1p := NumT.sqrt (a1p * a1p + b1 * b1)
  let C2p := NumT.sqrt (a2p * a2p + b2 * b2)
  let Cmp := (C1p + C2p) / (2.0 : α)
  let h1 := hueAngle a1p b1
  let h2 := hueAngle a2p b2
  let dh := dhPrime C1p C2p h1 h2
  let dH := (2.0 : α) * NumT.sqrt (C1p * C2p) * NumT.sin (radians (dh / (2.0 : α)))
  let dC := C2p - C1p
  let Hm := hMeanPrime C1p C2p h1 h2
  let T := (1.0 : α)
    - (0.17 : α) * NumT.cos (radians (Hm - (30.0 : α)))
    + (0.24 : α) * NumT.cos (radians ((2.0 : α) * Hm))
    + (0.32 : α) * NumT.cos (radians ((3.0 : α) * Hm + (6.0 : α)))
    - (0.20 : α) * NumT.cos (radians ((4.0 : α) * Hm - (63.0 : α)))
  let dθ := (30.0 : α) * NumT.exp (-(sq ((Hm - (275.0 : α)) / (25.0 : α))))
  let RC := (2.0 : α) * NumT.sqrt (pow7 Cmp / (pow7 Cmp + (6103515625.0 : α)))
  let SL := (1.0 : α) + (((0.015 : α) * sq (Lm - (50.0 : α))) / NumT.sqrt ((20.0 : α) + sq (Lm - (50.0 : α))))
  let SC := (1.0 : α) + (0.045 : α) * Cmp
  let SH := (1.0 : α) + (0.015 : α) * Cmp * T
  let RT := -(NumT.sin (radians ((2.0 : α) * dθ))) * RC
  NumT.sqrt (sq (dL / ((1.0 : α) * SL)) + sq (dC / ((1.0 : α) * SC)) + sq (dH / ((1.0 : α) * SH))
    + RT * (dC / ((1.0 : α) * SC)) * (dH / ((1.0 : α) * SH)))

/-- `calculate_delta_e_2000` -/
def deltaE2000 (c1 c2 : RGB) : α :=
  if c1 = c2 then (0.0 : α) else deltaE2000Lab (rgbToLab (α := α) c1) (rgbToLab (α := α) c2)

end Cm
