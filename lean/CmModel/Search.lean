import CmModel.Lab
/-!
# L1: the three search routines of `core/optimisation.py`, over abstract leaf oracles

`binary_search_lightness`, `gradient_descent_oklch`, `generate_accessible_color`.
`for _ in range(n)` is structural recursion on the remaining count, the schedule loop is
recursion on the list, an early `return` inside a loop body is `Except.error`.
-/
namespace Cm

/-- What `optimisation.py` imports from the numeric layer. Theorems quantify over every `Leaf`. -/
structure Leaf (α : Type) where
  contrast : RGB → RGB → α          -- calculate_contrast_ratio
  deltaE   : RGB → RGB → α          -- calculate_delta_e_2000
  toOklch  : RGB → Triple α         -- rgb_to_oklch_safe
  ofOklch  : Triple α → RGB         -- oklch_to_rgb_safe
  validRgb : RGB → Bool             -- is_valid_rgb
  inf      : α                      -- float("inf")

variable {α : Type} [Num α]

/-! ## `binary_search_lightness` -/

structure BS (α : Type) where
  low : α
  high : α
  best : Option RGB
  bestDE : α
  bestC : α

/-- one iteration of the loop at optimisation.py:52-96 -/
def bsStep (O : Leaf α) (t bg : RGB) (thr target c h : α) (up : Bool) (s : BS α) : BS α :=
  let m := (s.low + s.high) / (2.0 : α)
  let cand := O.ofOklch (m, c, h)
  let shrink : BS α := if up then { s with high := m } else { s with low := m }
  if !O.validRgb cand then shrink else
  let d := O.deltaE t cand
  let k := O.contrast cand bg
  if Num.gt d thr then shrink else
  if Num.ge k target then
    let s' := if Num.lt s.bestC target || Num.lt d s.bestDE then { s with best := some cand, bestDE := d, bestC := k } else s
    if up then { s' with high := m } else { s' with low := m }
  else
    let s' : BS α := if up then { s with low := m } else { s with high := m }
    if Num.gt k s.bestC then { s' with best := some cand, bestDE := d, bestC := k } else s'

def bsLoop (O : Leaf α) (t bg : RGB) (thr target c h : α) (up : Bool) : Nat → BS α → BS α
  | 0, s => s
  | n+1, s => bsLoop O t bg thr target c h up n (bsStep O t bg thr target c h up s)

/-- the search direction (optimisation.py:39-42): away from the background, its brightness on a tie -/
def searchUp (l bgL : α) : Bool :=
  if Num.eq l bgL then Num.lt bgL (0.5 : α) else Num.gt l bgL

def bsInit (O : Leaf α) (l : α) (up : Bool) : BS α :=
  { low := if up then l else (0.0 : α), high := if up then (1.0 : α) else l,
    best := none, bestDE := O.inf, bestC := (0.0 : α) }

/-- `binary_search_lightness(text, bg, delta_e_threshold, target_contrast)` -/
def binarySearch (O : Leaf α) (t bg : RGB) (thr target : α) : Option RGB :=
  let (l, c, h) := O.toOklch t
  let (bl, _, _) := O.toOklch bg
  let up := searchUp l bl
  (bsLoop O t bg thr target c h up 20 (bsInit O l up)).best

/-! ## `gradient_descent_oklch` -/

/-- the 50-iteration numeric loop, as a function `(text, bg, threshold, target) ↦ final colour`;
    theorems quantify over every such function -/
abbrev Descend (α : Type) := RGB → RGB → α → α → RGB

/-- optimisation.py:189-202: the result is returned only if valid and within tolerance -/
def gradientDescent (O : Leaf α) (descend : Descend α) (t bg : RGB) (thr target : α) : Option RGB :=
  let fin := descend t bg thr target
  if O.validRgb fin then
    if Num.le (O.deltaE t fin) thr then some fin else none
  else none

/-! ## `generate_accessible_color` -/

structure GS (α : Type) where
  best : Option RGB
  bestC : α
  bestDE : α

/-- optimisation.py:264-274 / 281-293: absorb one phase result (`tie` = the descent phase's
    equal-contrast / smaller-distance clause) -/
def absorb (O : Leaf α) (t bg : RGB) (target : α) (tie : Bool) (cand : Option RGB) (s : GS α) :
    Except RGB (GS α) :=
  match cand with
  | none => .ok s
  | some b =>
    let rc := O.contrast b bg
    let rd := O.deltaE t b
    if Num.ge rc target then .error b
    else if Num.gt rc s.bestC || (tie && Num.eq rc s.bestC && Num.lt rd s.bestDE) then
      .ok { best := some b, bestC := rc, bestDE := rd }
    else .ok s

/-- optimisation.py:297-303 -/
def earlyTerm (minC thr last : α) (s : GS α) : Except RGB (GS α) :=
  match s.best with
  | some b =>
    if Num.ge s.bestC minC && Num.le thr (2.5 : α) && Num.le last (5.0 : α) then .error b else .ok s
  | none => .ok s

def genStep (O : Leaf α) (descend : Descend α) (t bg : RGB) (target minC last thr : α) (s : GS α) :
    Except RGB (GS α) := do
  let s1 ← absorb O t bg target false (binarySearch O t bg thr target) s
  let s2 ← absorb O t bg target true (gradientDescent O descend t bg thr target) s1
  earlyTerm minC thr last s2

def genLoop (O : Leaf α) (descend : Descend α) (t bg : RGB) (target minC last : α) :
    List α → GS α → RGB
  | [], s => match s.best with | some b => b | none => t
  | thr :: rest, s =>
    match genStep O descend t bg target minC last thr s with
    | .error r => r
    | .ok s' => genLoop O descend t bg target minC last rest s'

/-- `generate_accessible_color(text, bg, large, target_contrast, min_contrast, delta_e_sequence)`
    with all optional arguments given -/
def genAccessible (O : Leaf α) (descend : Descend α) (t bg : RGB) (target minC : α) (sched : List α) : RGB :=
  let cur := O.contrast t bg
  if Num.ge cur target then t else
  genLoop O descend t bg target minC (sched.getLastD (0.0 : α)) sched
    { best := none, bestC := cur, bestDE := O.inf }

/-- the default schedule (optimisation.py:234-252) -/
def defaultSchedule : List α :=
  [0.8, 1.0, 1.2, 1.4, 1.6, 1.8, 2.0, 2.1, 2.2, 2.3, 2.4, 2.5, 2.7, 3.0, 3.5, 4.0, 5.0]
/-- the per-step schedule of modes 1 and 2 (optimisation.py:346, 409) -/
def stepSchedule : List α :=
  [0.8, 1.0, 1.2, 1.4, 1.6, 1.8, 2.0, 2.2, 2.5, 2.8, 3.0]
/-- the relaxed fallback schedule (optimisation.py:433-453) -/
def relaxedSchedule : List α :=
  [0.8, 1.0, 1.2, 1.4, 1.6, 1.8, 2.0, 2.5, 3.0, 3.5, 4.0, 5.0, 6.0, 7.0, 8.0, 9.0, 10.0, 12.0, 15.0]

/-- defaults of `generate_accessible_color` when called with `large` only -/
def genDefaults (large : Bool) : α × α :=
  (if large then (4.5 : α) else (7.0 : α), if large then (3.0 : α) else (4.5 : α))

end Cm
