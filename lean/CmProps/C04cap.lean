import CmProps.C04api
import CmProps.C06api
/-!
# C04 — the strict-mode bound, stated about the image of the source

`C04api.makeReadable_strict_le_5` transferred to `make_readable` as translated from `colors.py` on this run.
-/
namespace CmProps.C04
open Cm Cm.Parse Cm.FmtRt CmProps.C01

/-- mode 0: what the caller reads back from the returned value is the original colour or within CIEDE2000 5.0 of it -/
theorem source_make_readable_strict_le_5 {α : Type} [NumT α] [LawfulNumOrd α] [LawfulLit α]
    (hα : ByteExact α) (hH : HslExact α) (E : PEnv)
    (hf : AsciiFaithful E.cls) (hk : keysLower E.named = true) (O : Leaf α) (d : Descend α) (cond : Nat → Bool)
    (p : ColorPair α) (very show_ save : Bool) (t b : RGB) (ht : p.text.rgb? = some t)
    (hb : p.bg.rgb? = some b) (hv : validRgb (checkAndFix O d t b p.large 0 very).1 = true) (bg' : Option RGB) :
    ∃ out ok c, Prod.fst <$> CmGen.Api.ColorPair_make_readable E O d cond p 0 very show_ save = .ok (some out, ok) ∧
      readBack (α := α) E bg' out = some c ∧ Step O (5.0 : α) t c := by
  obtain ⟨out, ok, c, h, hr, hs⟩ := makeReadable_strict_le_5 hα hH E hf hk O d p very t b ht hb hv bg'
  refine ⟨out, ok, c, ?_, hr, hs⟩
  rw [CmProps.C06.source_make_readable_result, h]
  rfl

end CmProps.C04
