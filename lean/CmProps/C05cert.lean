import CmProofs.CertSound
/-!
# C05 (certified form) — the WCAG verdict decided by exact rational interval arithmetic

`Cm.certVerdict a b thr : Option Bool` (`CmModel/Cert.lean`, Mathlib-free, compiled into the native
executable) answers `some v` only if `v` is the truth value of `thr ≤ contrast_ratio(a, b)` for the
**real-number** contrast ratio of the model (`Cm.contrastRatio` at the carrier `Cm.realNum`).
The 256-entry table of enclosures of the sRGB linearisation it relies on is checked entry by entry
in the Lean kernel (`decide +kernel`, no `native_decide`, no extra axioms).
-/
namespace CmProps.C05
open Cm

/-- every table entry encloses the real sRGB linearisation of `v/255`
    (`linR c = if c ≤ 0.04045 then c/12.92 else ((c+0.055)/1.055)^2.4`, which is
    `Cm.srgbToLinear` at ℝ by `Cm.srgbToLinear_real`) -/
theorem linTable_sound (v : Nat) (hv : v ≤ 255) :
    ((linLo v : ℚ) : ℝ) ≤ linR ((v : ℝ) / 255) ∧ linR ((v : ℝ) / 255) ≤ ((linHi v : ℚ) : ℝ) :=
  Cm.linTable_sound v hv

/-- `linR` is the model's `srgbToLinear` at the real carrier -/
theorem linR_is_model (c : ℝ) : @srgbToLinear ℝ realNum c = linR c :=
  Cm.srgbToLinear_real_eq_linR c

/-- the enclosures are at most `1e-15` wide -/
theorem linTable_width (v : Nat) (hv : v ≤ 255) : linHi v - linLo v ≤ 1 / 10 ^ 15 :=
  Cm.cert_width v hv

/-- a decided verdict is the truth about the real contrast ratio -/
theorem certVerdict_sound (a b : RGB) (thr : ℚ) (v : Bool) :
    certVerdict a b thr = some v → ((thr : ℝ) ≤ @contrastRatio ℝ realNum a b ↔ v = true) :=
  Cm.certVerdict_sound a b thr v

/-- the reported rational enclosure contains the real contrast ratio -/
theorem ratio_sound (a b : RGB) (ha : validRgb a = true) (hb : validRgb b = true) :
    ((ratioLo a b : ℚ) : ℝ) ≤ @contrastRatio ℝ realNum a b ∧
    @contrastRatio ℝ realNum a b ≤ ((ratioHi a b : ℚ) : ℝ) :=
  Cm.ratio_sound a b ha hb

/-! Non-vacuity: `#777777` on white is 4.478… (fails AA), `#767676` on white is 4.542… (passes). -/
example : certVerdict (119, 119, 119) (255, 255, 255) 4.5 = some false := by decide +kernel
example : certVerdict (118, 118, 118) (255, 255, 255) 4.5 = some true := by decide +kernel
example : certVerdict (0, 0, 0) (255, 255, 255) 21 = some true := by decide +kernel
example : certVerdict (0, 0, 0) (256, 255, 255) 21 = none := by decide +kernel

/-- hence, as a theorem about the real-number model: grey 119 on white is below 4.5, grey 118 is not -/
theorem grey119_fails : ¬ ((4.5 : ℝ) ≤ @contrastRatio ℝ realNum (119, 119, 119) (255, 255, 255)) := by
  have h := Cm.certVerdict_sound (119, 119, 119) (255, 255, 255) 4.5 false (by decide +kernel)
  intro hle
  have : ((4.5 : ℚ) : ℝ) = (4.5 : ℝ) := by norm_num
  rw [← this] at hle
  exact Bool.false_ne_true (h.1 hle)

theorem grey118_passes : (4.5 : ℝ) ≤ @contrastRatio ℝ realNum (118, 118, 118) (255, 255, 255) := by
  have h := Cm.certVerdict_sound (118, 118, 118) (255, 255, 255) 4.5 true (by decide +kernel)
  have : ((4.5 : ℚ) : ℝ) = (4.5 : ℝ) := by norm_num
  rw [← this]
  exact h.2 rfl

end CmProps.C05
