import CmModel.Color
/-!
# C14 — invalid colour input is reported, never raised
-/
namespace CmProps.C14
open Cm Cm.Parse

variable {α : Type} [Num α]

/-- `float(str)` fails with `ValueError` only -/
theorem floatParse_errors (cls : CharCls) (s : Str) (e : PyErr)
    (h : PyFloat.parse (α := α) cls s = .error e) : e = .valueError := by
  unfold PyFloat.parse at h
  simp only at h
  repeat' split at h
  all_goals first | (cases h; rfl) | cases h

end CmProps.C14
