import CmProps.C13
import CmProps.C07
/-!
# C13 — the numeric side of compositing (exact carrier), restated from the parser theorems
-/
namespace CmProps.C13
open Cm Cm.Parse Cm.ParseSpec

/-- `rgba()` / RGBA tuples: each channel of the composite is within 1/2 of the exact source-over
    blend `a·f + (1−a)·b` over the supplied background -/
theorem rgba_blend {r g b : ℤ} {a : ℚ} {bg : RGB} (hv : validRgb (r, g, b) = true)
    (ha0 : 0 ≤ a) (ha1 : a ≤ 1) (hbg : validRgb bg = true) :
    ∃ R G B : ℤ, @rgbaToRgb ℚ ratNum r g b a bg = .ok (R, G, B) ∧
      |(R : ℚ) - (a * r + (1 - a) * bg.1)| ≤ 1 / 2 ∧ |(G : ℚ) - (a * g + (1 - a) * bg.2.1)| ≤ 1 / 2 ∧
      |(B : ℚ) - (a * b + (1 - a) * bg.2.2)| ≤ 1 / 2 :=
  CmProps.C07.rgba_composite hv ha0 ha1 hbg

/-- alpha 1 gives the colour itself … -/
theorem alpha_one {r g b : ℤ} {bg : RGB} (hv : validRgb (r, g, b) = true) (hbg : validRgb bg = true) :
    @rgbaToRgb ℚ ratNum r g b 1 bg = .ok (r, g, b) := CmProps.C07.alpha_one hv hbg

/-- … and alpha 0 the background, exactly -/
theorem alpha_zero {r g b : ℤ} {bg : RGB} (hv : validRgb (r, g, b) = true) (hbg : validRgb bg = true) :
    @rgbaToRgb ℚ ratNum r g b 0 bg = .ok bg := CmProps.C07.alpha_zero hv hbg

/-- `hsla()`: every channel within 1.5 of `a·255·(CSS's HSL channel) + (1−a)·background`
    (white when no background is supplied) -/
theorem hsla_blend (H : ℚ) {s l a : ℚ} (bg : Option RGB) (hs0 : 0 ≤ s) (hs1 : s ≤ 1)
    (hl0 : 0 ≤ l) (hl1 : l ≤ 1) (ha0 : 0 ≤ a) (ha1 : a ≤ 1)
    (hbg : ∀ b, bg = some b → 0 ≤ b.1 ∧ 0 ≤ b.2.1 ∧ 0 ≤ b.2.2) :
    ∃ R G B : ℤ, @hslaFinish ℚ ratNum H s l a bg = .ok (R, G, B) ∧
      let k : RGB := bg.getD (255, 255, 255)
      |(R : ℚ) - (a * (255 * (css3Hsl H s l).1) + (1 - a) * k.1)| < 3 / 2 ∧
      |(G : ℚ) - (a * (255 * (css3Hsl H s l).2.1) + (1 - a) * k.2.1)| < 3 / 2 ∧
      |(B : ℚ) - (a * (255 * (css3Hsl H s l).2.2) + (1 - a) * k.2.2)| < 3 / 2 :=
  CmProps.C07.hsla_within H bg hs0 hs1 hl0 hl1 ha0 ha1 hbg

/-- the default background of the `rgba` path is white; a supplied one is used as given -/
theorem default_bg_white (b : RGB) (hb : validRgb b = true) :
    bgParsed none = .ok (255, 255, 255) ∧ bgParsed (some b) = .ok b := CmProps.C07.rgba_background b hb

end CmProps.C13
