import CmModel.Machine
import CmModel.Color
import CmGen.StateSig
/-!
# C15 — results are pure functions of the arguments: no history or thread dependence
-/
namespace CmProps.C15
open Cm Cm.Machine

variable {S Op Out : Type}

theorem runHist_readOnly (M : Machine S Op Out) (h : ReadOnly M) (s : S) (hist : List Op) :
    runHist M s hist = s := by
  induction hist generalizing s with
  | nil => rfl
  | cons o r ih => show runHist M (M.step s o).1 r = s; rw [h s o]; exact ih s

/-- **frame**: if no operation writes, the result of a probe after *any* history equals its result
    in a fresh state -/
theorem frame (M : Machine S Op Out) (h : ReadOnly M) (s : S) (hist : List Op) (p : Op) :
    probeAfter M s hist p = (M.step s p).2 := by
  unfold probeAfter; rw [runHist_readOnly M h]

/-- … at any position of a batch: the i-th output of a sequence is the fresh-state output -/
theorem outputs_readOnly (M : Machine S Op Out) (h : ReadOnly M) (s : S) (ops : List Op) :
    outputs M s ops = ops.map fun o => (M.step s o).2 := by
  induction ops generalizing s with
  | nil => rfl
  | cons o r ih => show (M.step s o).2 :: outputs M (M.step s o).1 r = _; rw [h s o, ih]; rfl

/-- **interleave**: under any interleaving of per-thread sequences, every operation gets the output
    it gets when issued alone in the initial state (the machine's operations are atomic; CPython's
    thread switching inside an operation is not modelled) -/
theorem interleave (M : Machine S Op Out) (h : ReadOnly M) (s : S) (ts : List (List Op)) (l : List Op)
    (_hl : Interleaving ts l) : outputs M s l = l.map fun o => (M.step s o).2 :=
  outputs_readOnly M h s l

/-- repeated on the same object: the second result equals the first -/
theorem repeat_same (M : Machine S Op Out) (h : ReadOnly M) (s : S) (p : Op) :
    (M.step (M.step s p).1 p).2 = (M.step s p).2 := by rw [h s p]

/-! ### the model's `make_readable` reads the pair and returns a value: the pair is not changed -/

/-- `ColorPair.make_readable` as a machine operation on the pair object -/
def pairMachine {α : Type} [NumT α] (E : PEnv) (O : Leaf α) (d : Descend α) :
    Machine (ColorPair α) (Int × Bool) (Option (Parse.OutVal α × Bool)) :=
  { step := fun p op => (p, p.makeReadable E O d op.1 op.2) }

theorem makeReadable_readonly {α : Type} [NumT α] (E : PEnv) (O : Leaf α) (d : Descend α) :
    ReadOnly (pairMachine E O d) := fun _ _ => rfl

/-! ### the regenerated state signature -/

/-- the scan of the package finds no place where state could survive a call: no `global`, no store
    or mutating call on a module-level name, no mutable default argument, no cache decorator, no
    class-level mutable, no `self.x = …` outside the constructors -/
theorem no_mutation_sites : CmGen.mutationSites = [] := by decide

/-- the only module-level mutable containers are the keyword table and `__all__` -/
theorem module_level_containers :
    (CmGen.moduleBindings.filter fun b => b.2.2 = "dict" || b.2.2 = "list" || b.2.2 = "set").map (·.2.1) =
      ["__all__", "CSS_NAMED_COLORS"] := by decide

end CmProps.C15
