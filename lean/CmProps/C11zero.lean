import CmProps.C11
import CmProofs.DeltaEZero
/-!
# C11 (converse) — CIEDE2000 is zero *exactly* for identical colours

`CmProps/C11.lean` proves "identical ⇒ 0" (`dE_lab_self`, `dE_rgb_self`). This file proves the
converse "0 ⇒ identical" for the model at `Cm.realNum`:

1. `abs_RT_lt_two`         : the rotation term is strictly inside `(-2, 2)`;
2. `quad_form_pos_def`, `dE_eq_zero_terms` : the quadratic form under the square root is positive
   definite, so `ΔE = 0` forces `ΔL' = ΔC' = ΔH' = 0`;
3. `dE_lab_eq_zero_iff`    : on Lab triples, `ΔE = 0 ↔ p = q`;
4. `dE_rgb_eq_zero_iff`    : on valid 8-bit colours, `ΔE = 0 ↔ c₁ = c₂` (through injectivity of
   `rgbToLab`, `rgbToLab_injective`).

The helper lemmas are in `CmProofs/DeltaEZero.lean`.
-/
namespace CmProps.C11
open Cm Real

/-! ## 1. the rotation term -/

/-- `R_C < 2` strictly (the fraction `C̄'⁷ / (C̄'⁷ + 25⁷)` never reaches 1) -/
theorem RC_lt_two (p q : ℝ × ℝ × ℝ) : RCR (CmP p q) < 2 := RCR_lt_two (CmP_nonneg p q)

/-- `|R_T| < 2` strictly: the cross term of the formula can never cancel the two squares -/
theorem abs_RT_lt_two (p q : ℝ × ℝ × ℝ) : |RTR (CmP p q) (HmP p q)| < 2 :=
  abs_RTR_lt_two (CmP_nonneg p q) _

/-! ## 2. positive definiteness -/

/-- algebraic core: for `|r| < 2` the form `x² + y² + r·x·y` vanishes only at the origin -/
theorem quad_form_pos_def (x y r : ℝ) (hr : |r| < 2) (h : x ^ 2 + y ^ 2 + r * x * y = 0) :
    x = 0 ∧ y = 0 :=
  quad_eq_zero x y r hr h

/-- a zero colour difference forces each of the three component differences of the formula
(lightness `ΔL'`, chroma `ΔC'`, hue `ΔH'`, as named in `radicand_unfold`) to be zero -/
theorem dE_eq_zero_terms (p q : ℝ × ℝ × ℝ) (h : dE p q = 0) :
    dLP p q = 0 ∧ dCP p q = 0 ∧ dHP p q = 0 := by
  apply radicand_eq_zero_terms
  rw [← dE_sq, h]; norm_num

/-! ## 3. Lab level -/

/-- zero lightness difference means equal `L*` -/
theorem dLP_eq_zero_iff (p q : ℝ × ℝ × ℝ) : dLP p q = 0 ↔ p.1 = q.1 := by
  unfold dLP
  constructor <;> intro h <;> linarith

/-- zero chroma difference means equal adjusted chroma `C'` -/
theorem dCP_eq_zero_iff (p q : ℝ × ℝ × ℝ) :
    dCP p q = 0 ↔ CP (Gpq p q) p = CP (Gpq p q) q := by
  unfold dCP
  constructor <;> intro h <;> linarith

/-- the `a*` rescaling factor `1 + G` of the formula is positive (so `a ↦ a'` loses nothing) -/
theorem one_add_G_pos (p q : ℝ × ℝ × ℝ) : 0 < 1 + Gpq p q := one_add_Gpq_pos p q

/-- **the colour difference of two Lab colours is zero exactly when they are the same colour** -/
theorem dE_lab_eq_zero_iff (p q : ℝ × ℝ × ℝ) : dE p q = 0 ↔ p = q := by
  constructor
  · intro h
    apply radicand_eq_zero_imp_eq
    rw [← dE_sq, h]; norm_num
  · rintro rfl
    exact dE_lab_self p

/-- distinct Lab colours have a strictly positive colour difference -/
theorem dE_lab_pos_of_ne (p q : ℝ × ℝ × ℝ) (h : p ≠ q) : 0 < dE p q :=
  lt_of_le_of_ne (dE_nonneg p q) (fun h0 => h ((dE_lab_eq_zero_iff p q).1 h0.symm))

/-! ## 4. RGB level -/

/-- the Lab transfer function `lab_transform` (cube root above 0.008856, linear below) is strictly
increasing across its junction, so it loses no information -/
theorem lab_transform_strictMono : StrictMono (@labF ℝ realNum) := by
  intro x y hxy
  rw [labF_real, labF_real]
  exact labFR_strictMono hxy

/-- among valid 8-bit colours only white has its `L*` clamped at 100 (`Y/Yn ≥ 1`); this is the one
place where `xyz_to_lab` could have merged two colours -/
theorem clamp_only_white (c : RGB) (hv : validRgb c = true)
    (h : 1 ≤ ynR (lin ((c.1 : ℝ) / 255)) (lin ((c.2.1 : ℝ) / 255)) (lin ((c.2.2 : ℝ) / 255))) :
    c = (255, 255, 255) :=
  ynR_ge_one_white hv h

/-- two different valid 8-bit colours never get the same Lab coordinates -/
theorem rgbToLab_injective (c1 c2 : RGB) (h1 : validRgb c1 = true) (h2 : validRgb c2 = true)
    (h : @rgbToLab ℝ realNum c1 = @rgbToLab ℝ realNum c2) : c1 = c2 :=
  rgbToLab_real_injective h1 h2 h

/-- **the colour difference of two valid 8-bit colours is zero exactly when they are the same
colour** -/
theorem dE_rgb_eq_zero_iff (c1 c2 : RGB) (h1 : validRgb c1 = true) (h2 : validRgb c2 = true) :
    dErgb c1 c2 = 0 ↔ c1 = c2 := by
  constructor
  · intro h
    rw [dE_rgb_eq_lab, dE_lab_eq_zero_iff] at h
    exact rgbToLab_injective c1 c2 h1 h2 h
  · rintro rfl
    exact dE_rgb_self c1

/-- distinct valid 8-bit colours have a strictly positive colour difference -/
theorem dE_rgb_pos_of_ne (c1 c2 : RGB) (h1 : validRgb c1 = true) (h2 : validRgb c2 = true)
    (h : c1 ≠ c2) : 0 < dErgb c1 c2 :=
  lt_of_le_of_ne (dE_rgb_nonneg c1 c2) (fun h0 => h ((dE_rgb_eq_zero_iff c1 c2 h1 h2).1 h0.symm))

/-! ## satisfiability of the hypotheses used above -/
example : ∃ r : ℝ, |r| < 2 := ⟨0, by norm_num⟩
example : validRgb ((0, 0, 0) : RGB) = true ∧ validRgb ((255, 255, 255) : RGB) = true ∧
    ((0, 0, 0) : RGB) ≠ (255, 255, 255) := by decide

end CmProps.C11
