import CmModel.ApiVocab
import CmGen.Api
import CmProofs.SourceApi
import CmProps.C12
import CmProps.C14api
import CmProps.C05api
import CmProps.C06api
/-!
# C12 — the loop of `make_readable_bulk`, as translated from the source on this run, is the model's `Bulk.entry` / `Bulk.run`

`harness/translate/api.py` turns `for i, item in enumerate(pairs): …` into `make_readable_bulk__loop i item state` (state =
the effects so far, the number of report rows, `results`) folded by `Api.forEnum`, and the function around it.
Abstractions (documented in the translator): the model's `BulkItem` is the entry *after* `if len(item) == 3 … else …`;
here the unpacking is part of the image and the theorems are stated for the 3-sequence `Api.rawItem it` and for the
2-sequence `[text, bg]`; an entry of the returned list is `Api.reify it r` (`.original` = the caller's own `text`).
-/
namespace CmProps.C12
open Cm Cm.Parse Cm.SourceApi
variable {α : Type} [NumT α]
set_option linter.unusedSimpArgs false

private theorem not_readable_lower : "Not Readable".toLower = "not readable" :=
  String.toList_inj.mp (by simp [String.toLower])

/-- the plain call the loop makes: value and (no) effects -/
private theorem make_readable_plain (E : PEnv) (O : Leaf α) (d : Descend α) (cond : Nat → Bool) (p : ColorPair α)
    (mode : Int) (very : Bool) :
    CmGen.Api.ColorPair_make_readable E O d cond p mode very false false =
      .ok (C06.asPython (p.makeReadable E O d mode very), []) := by
  have h := C06.source_make_readable_result E O d cond p mode very false false
  have e : Prod.snd <$> CmGen.Api.ColorPair_make_readable E O d cond p mode very false false = .ok [] := by
    unfold CmGen.Api.ColorPair_make_readable CmGen.Api.ColorPair_is_valid CmGen.Api.Color_is_valid
    cases p.text.rgb? with
    | none => rfl
    | some t =>
      cases p.bg.rgb? with
      | none => rfl
      | some b => rfl
  revert h e
  cases CmGen.Api.ColorPair_make_readable E O d cond p mode very false false with
  | error x => intro h; cases h
  | ok v =>
    intro h e
    cases v with
    | mk a fx =>
      simp only [Functor.map, Except.map, Except.ok.injEq] at h e
      rw [h, e]

/-- what `make_readable` hands back is never falsy -/
private theorem makeReadable_truthy (E : PEnv) (O : Leaf α) (d : Descend α) (p : ColorPair α) (mode : Int) (very : Bool)
    (out : OutVal α) (ok : Bool) (h : p.makeReadable E O d mode very = some (out, ok)) : Api.outTruthy out = true := by
  unfold ColorPair.makeReadable at h
  split at h
  · dsimp only [] at h
    split at h
    · cases h; exact formatColor_truthy _ _
    · split at h <;> cases h
      · rfl
      · simp [Api.outTruthy, fmtRgbFn_isEmpty]
  · cases h

/-- the status the loop computes for a returned colour is the model's -/
private theorem reread_status (E : PEnv) (bg : PyVal α) (large : Bool) (out : OutVal α) :
    (CmGen.Api.ColorPair_new (α := α) (Api.ofOut E out) (Api.ofVal E bg) large).isReadable =
      (match (match out with
              | .hsl h s l => hslTextToRgb (h, s, l)
              | .text s => (Color.new (α := α) E (.str s) (some (Color.new E bg none))).rgb?
              | .tuple c => (Color.new (α := α) E (.tuple [.int c.1, .int c.2.1, .int c.2.2]) (some (Color.new E bg none))).rgb?),
            (Color.new (α := α) E bg none).rgb? with
        | some t, some b => (wcagLevel (α := α) t b large).label
        | _, _ => "Not Readable") := by
  unfold ColorPair.isReadable CmGen.Api.ColorPair_new
  simp only [C14.source_color_parse]
  cases out with
  | text s => simp only [Api.ofOut, C14.source_color_parse]; rfl
  | tuple c => simp only [Api.ofOut, C14.source_color_parse]; rfl
  | hsl h s l =>
    simp only [color_new_input, Api.ofOut]
    cases hslTextToRgb (h, s, l) <;> rfl

/-- the number of report rows an entry adds -/
def rows (E : PEnv) (save : Bool) (it : BulkItem α) : Nat :=
  if save && (ColorPair.new E it.text it.bg it.large).isValid then 1 else 0

/-- one pass through the loop body on a 3-sequence = the model's `Bulk.entry` (no effects, one result appended, a report
    row counted when asked for and the pair is valid) -/
theorem source_bulk_entry (E : PEnv) (O : Leaf α) (d : Descend α) (cond : Nat → Bool) (mode : Int) (very save : Bool)
    (i : Nat) (it : BulkItem α) (fx : List Effect) (n : Nat) (res : List (Api.BulkOut α)) :
    CmGen.Api.make_readable_bulk__loop E O d cond mode save very i (Api.rawItem it) (fx, n, res) =
      .ok (fx, n + rows E save it, res ++ [Api.reify it (Bulk.entry E O d mode very it)]) := by
  unfold CmGen.Api.make_readable_bulk__loop Bulk.entry Api.rawItem rows
  simp only [List.length_cons, List.length_nil, Api.andThen, Api.valTruthy, C14.source_color_pair_init,
    C14.source_pair_is_valid, make_readable_plain, reread_status, C05.source_is_readable]
  cases hv : (ColorPair.new E it.text it.bg it.large).isValid
  · simp [Api.reify, hv]
  · cases hm : (ColorPair.new E it.text it.bg it.large).makeReadable E O d mode very with
    | none => cases save <;> simp [Api.reify, C06.asPython, hv, hm]
    | some r =>
      cases r with
      | mk out ok =>
        have ht := makeReadable_truthy E O d _ mode very out ok hm
        cases save <;> cases out <;>
          simp [Api.reify, C06.asPython, Option.filter, ht, hv, hm] <;>
          (split <;> simp_all [not_readable_lower])

/-- … and on a 2-sequence `(text, bg)`: the entry with `large = False` -/
theorem source_bulk_entry_pair (E : PEnv) (O : Leaf α) (d : Descend α) (cond : Nat → Bool) (mode : Int) (very save : Bool)
    (i : Nat) (text bg : PyVal α) (fx : List Effect) (n : Nat) (res : List (Api.BulkOut α)) :
    CmGen.Api.make_readable_bulk__loop E O d cond mode save very i [text, bg] (fx, n, res) =
      CmGen.Api.make_readable_bulk__loop E O d cond mode save very i (Api.rawItem ⟨text, bg, false⟩) (fx, n, res) := by
  unfold CmGen.Api.make_readable_bulk__loop Api.rawItem
  rfl

/-- the state after the loop: effects untouched, one report row per valid entry when a report was asked for, one result per
    entry in order -/
theorem bulk_loop_state (E : PEnv) (O : Leaf α) (d : Descend α) (cond : Nat → Bool) (mode : Int) (very save : Bool)
    (items : List (BulkItem α)) (i : Nat) (fx : List Effect) (n : Nat) (res : List (Api.BulkOut α)) :
    Api.forEnum (CmGen.Api.make_readable_bulk__loop E O d cond mode save very) i (items.map Api.rawItem) (fx, n, res) =
      .ok (fx, n + (items.map (rows E save)).sum,
           res ++ items.map (fun it => Api.reify it (Bulk.entry E O d mode very it))) := by
  induction items generalizing i n res with
  | nil => simp [Api.forEnum]
  | cons it its ih =>
    simp only [List.map_cons, Api.forEnum, source_bulk_entry, ih, List.sum_cons, List.append_assoc, List.cons_append,
      List.nil_append, Nat.add_assoc]

/-- `make_readable_bulk(pairs, mode, very_readable, save_report)`: never raises on well-formed entries, and the returned
    list is the model's `Bulk.run`, entry by entry -/
theorem source_make_readable_bulk (E : PEnv) (O : Leaf α) (d : Descend α) (cond : Nat → Bool) (mode : Int)
    (very save : Bool) (items : List (BulkItem α)) :
    Prod.fst <$> CmGen.Api.make_readable_bulk E O d cond (items.map Api.rawItem) mode very save =
      .ok (List.zipWith Api.reify items (Bulk.run E O d mode very items)) := by
  unfold CmGen.Api.make_readable_bulk
  simp only [bulk_loop_state, Api.andThen, bulk_eq_map, List.nil_append, Functor.map, Except.map]
  congr 1
  induction items with
  | nil => rfl
  | cons it its ih => simp only [List.map_cons, List.zipWith_cons_cons, ih]

end CmProps.C12
