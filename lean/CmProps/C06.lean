import CmModel.Color
import CmProps.C06rt
/-!
# C06 — output keeps the input's format and reads back as exactly the judged colour
-/
namespace CmProps.C06
open Cm Cm.Parse

/-- the documented output format of every detected input format -/
theorem outputFormat_table {α : Type} [Num α] (c : RGB) :
    (formatColor (α := α) c .hex = .text (fmtHex c)) ∧
    (formatColor (α := α) c .rgb = .text (fmtRgbFn c)) ∧
    (formatColor (α := α) c .rgbTuple = .tuple c) ∧
    (formatColor (α := α) c .named = .text (fmtHex c)) ∧
    (formatColor (α := α) c .rgba = .text (fmtHex c)) ∧
    (formatColor (α := α) c .hsla = .text (fmtHex c)) ∧
    (formatColor (α := α) c .rgbaTuple = .text (fmtHex c)) ∧
    (formatColor (α := α) c .unknown = .text (fmtHex c)) := ⟨rfl, rfl, rfl, rfl, rfl, rfl, rfl, rfl⟩

end CmProps.C06
