import CmProps.C18cli
import CmProps.C18main
import CmProps.C09cli
import CmProps.C18src
/-!
# C18 / C09 — the batch properties, stated about the image of the source

`C18cli.lean` / `C09cli.lean` prove per-file independence, order independence and "outputs are never inputs" for the model's
`Cm.Fs.run`; `C18main.lean` proves that the per-file loop of `main`, as translated from `cli/main.py` on this run, *is*
`Cm.Fs.run`. Hence, about the source as it reads now:
-/
namespace CmProps.C18
open Cm Cm.Cli Cm.Fs

/-- traversal order does not matter: a permutation of the files gives a permutation of the written files and of the
    reported errors -/
theorem source_run_order_independent (env : CliEnv) (cfg : Cfg) (files files' : List (Str × FileIn)) (h : files.Perm files') :
    (CmGen.CliMain.main_run env cfg files).writes.Perm (CmGen.CliMain.main_run env cfg files').writes ∧
    (CmGen.CliMain.main_run env cfg files).errors.Perm (CmGen.CliMain.main_run env cfg files').errors := by
  rw [source_run, source_run]
  exact run_writes_perm env cfg files files' h

/-- what a file yields on its own is what it yields in any batch that contains it -/
theorem source_run_per_file (env : CliEnv) (cfg : Cfg) (name : Str) (fi : FileIn) (files : List (Str × FileIn))
    (hm : (name, fi) ∈ files) :
    ∀ w ∈ (CmGen.CliMain.main_run env cfg [(name, fi)]).writes, w ∈ (CmGen.CliMain.main_run env cfg files).writes := by
  rw [source_run, source_run]
  exact (run_alone env cfg name fi).2 files hm

/-- no file the run writes is one of the discovered inputs -/
theorem source_writes_not_inputs (env : CliEnv) (cfg : Cfg) (dir : List Str) (files : List (Str × FileIn))
    (hfiles : ∀ f ∈ files, f.1 ∈ CmGen.CliSrc.get_css_files_dir dir) (w : Str × List Node)
    (hw : w ∈ (CmGen.CliMain.main_run env cfg files).writes) :
    w.1 ∉ CmGen.CliSrc.get_css_files_dir dir ∧ ∀ f ∈ files, w.1 ≠ f.1 := by
  rw [source_run] at hw
  rw [source_get_css_files_dir] at hfiles ⊢
  exact CmProps.C09.writes_not_inputs env cfg dir files hfiles w hw

end CmProps.C18
