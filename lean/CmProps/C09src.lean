import CmProofs.CliLemmas
import CmGen.CliSrc
/-!
# C09 — output naming and file-system effects of `cli/main.py`, as translated from the source on this run

`harness/translate/clisrc.py` regenerates `CmGen/CliSrc.lean` from the syntax tree of `cli/main.py` on every run: the
expression that names the output file (over `pathlib`'s stem / suffix rules, `Cm.Fs.stemSuffix`), the directory it is put
in, and the list of every call in the module that can create, change or remove a file. The theorems below say that the
output name *is* the model's `outName` (about which `outName_ne`, `isCmName_outName`, `writes_not_inputs`, … are proved),
that it is placed beside the input, and that the only file-system mutation in the module is `open(output_path, "w")`,
the only read `open(file_path, "r")`.
-/
namespace CmProps.C09
open Cm Cm.Cli Cm.Fs

/-- `file_path.stem + "_cm" + file_path.suffix` is the model's output name -/
theorem source_output_filename (name : Str) : CmGen.CliSrc.output_filename name = outName name := by
  unfold CmGen.CliSrc.output_filename outName
  cases stemSuffix name
  rfl

/-- the output is written into the input's own directory, under that name -/
theorem source_output_beside_input (parent name : Str) :
    CmGen.CliSrc.output_path parent name = (parent, outName name) := by
  unfold CmGen.CliSrc.output_path
  rw [source_output_filename]

/-- hence the file the tool writes is never the file it read (`outName_ne`) -/
theorem source_output_ne_input (parent name : Str) :
    CmGen.CliSrc.output_path parent name ≠ (parent, name) := by
  rw [source_output_beside_input]
  intro h
  exact outName_ne name (Prod.mk.inj h).2

/-- the only call in `cli/main.py` that can create, change or remove a file opens `output_path` for writing -/
theorem source_fs_mutations : CmGen.CliSrc.fs_mutations = ["open:w:output_path"] := rfl

/-- … and the only file opened for reading is the input -/
theorem source_fs_reads : CmGen.CliSrc.fs_reads = ["file_path"] := rfl

/-- the report writer (`cli/html_report.py`) has one file-system mutation: it opens its `output_path` for writing -/
theorem source_report_fs_mutations : CmGen.CliSrc.report_fs_mutations = ["open:w:output_path"] := rfl

/-- … and `main` calls it with the fixed-pair list only, so that path is the documented default, a bare file name: the report
    lands in the working directory -/
theorem source_report_path : CmGen.CliSrc.report_calls = ["1 positional"] ∧
    CmGen.CliSrc.report_default_path = "cm_colors_report.html" ∧
    ¬ (CmGen.CliSrc.report_default_path.toList.contains '/') := by
  refine ⟨rfl, rfl, ?_⟩
  decide

end CmProps.C09
