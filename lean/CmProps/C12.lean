import CmModel.Color
/-!
# C12 — the bulk API is exactly a map of the single-pair API, in order

`Bulk.run` is modelled as the loop it is (an accumulator fold over the input list); the theorems
relate it to a plain `map` of the per-entry function, for every carrier, oracle and list.
-/
namespace CmProps.C12
open Cm Cm.Parse
variable {α : Type} [NumT α]

private theorem foldl_cons_rev {β γ : Type} (f : β → γ) (xs : List β) (acc : List γ) :
    (xs.foldl (fun a x => f x :: a) acc).reverse = acc.reverse ++ xs.map f := by
  induction xs generalizing acc with
  | nil => simp
  | cons x xs _ => simp [List.foldl]

/-- the loop computes exactly `map entry`, in order -/
theorem bulk_eq_map (E : PEnv) (O : Leaf α) (d : Descend α) (mode : Int) (very : Bool)
    (items : List (BulkItem α)) :
    Bulk.run E O d mode very items = items.map (Bulk.entry E O d mode very) := by
  unfold Bulk.run
  rw [foldl_cons_rev]; simp

/-- one result per entry -/
theorem bulk_length (E : PEnv) (O : Leaf α) (d : Descend α) (mode : Int) (very : Bool)
    (items : List (BulkItem α)) : (Bulk.run E O d mode very items).length = items.length := by
  rw [bulk_eq_map]; simp

/-- the i-th result depends on the i-th entry only (position independence) -/
theorem bulk_get (E : PEnv) (O : Leaf α) (d : Descend α) (mode : Int) (very : Bool)
    (items : List (BulkItem α)) (i : Nat) (h : i < items.length) :
    (Bulk.run E O d mode very items)[i]'(by rw [bulk_length]; exact h) =
      Bulk.entry E O d mode very items[i] := by
  simp [bulk_eq_map]

/-- entries do not disturb one another: the result of a concatenation is the concatenation -/
theorem bulk_append (E : PEnv) (O : Leaf α) (d : Descend α) (mode : Int) (very : Bool)
    (xs ys : List (BulkItem α)) :
    Bulk.run E O d mode very (xs ++ ys) = Bulk.run E O d mode very xs ++ Bulk.run E O d mode very ys := by
  simp [bulk_eq_map]

/-- permuting the inputs permutes the outputs the same way -/
theorem bulk_perm (E : PEnv) (O : Leaf α) (d : Descend α) (mode : Int) (very : Bool)
    (xs ys : List (BulkItem α)) (h : xs.Perm ys) :
    (Bulk.run E O d mode very xs).Perm (Bulk.run E O d mode very ys) := by
  rw [bulk_eq_map, bulk_eq_map]; exact h.map _

/-- an entry that cannot be parsed comes back unchanged with the status `invalid color` … -/
theorem entry_invalid (E : PEnv) (O : Leaf α) (d : Descend α) (mode : Int) (very : Bool) (it : BulkItem α)
    (h : (ColorPair.new E it.text it.bg it.large).isValid = false) :
    (Bulk.entry E O d mode very it).status = "invalid color" ∧
    (match (Bulk.entry E O d mode very it).colour with | .original => True | .tuned _ => False) := by
  unfold Bulk.entry
  simp [h]

/-- … which is none of the three readability strings -/
theorem invalid_is_not_a_readability_claim :
    "invalid color" ≠ "readable" ∧ "invalid color" ≠ "very readable" ∧ "invalid color" ≠ "not readable" := by
  decide

/-- a valid entry returns exactly what `make_readable` returns for that entry alone -/
theorem entry_valid_colour (E : PEnv) (O : Leaf α) (d : Descend α) (mode : Int) (very : Bool) (it : BulkItem α)
    (h : (ColorPair.new E it.text it.bg it.large).isValid = true) (out : OutVal α) (ok : Bool)
    (hm : (ColorPair.new E it.text it.bg it.large).makeReadable E O d mode very = some (out, ok)) :
    (match (Bulk.entry E O d mode very it).colour with | .tuned v => v = out | .original => False) := by
  unfold Bulk.entry
  simp [h, hm]

end CmProps.C12

namespace CmProps.C12
open Cm Cm.Parse
variable {α : Type} [NumT α]

/-- the status of a valid entry whose returned colour re-reads as `c` is the readability label of
    `c` against the entry's own background at the entry's text size (lower-cased) -/
theorem entry_valid_status (E : PEnv) (O : Leaf α) (d : Descend α) (mode : Int) (very : Bool) (it : BulkItem α)
    (h : (ColorPair.new E it.text it.bg it.large).isValid = true) (s : Str) (ok : Bool) (c b : RGB)
    (hm : (ColorPair.new E it.text it.bg it.large).makeReadable E O d mode very = some (.text s, ok))
    (hc : (Color.new (α := α) E (.str s) (some (Color.new E it.bg none))).rgb? = some c)
    (hb : (Color.new (α := α) E it.bg none).rgb? = some b) :
    (Bulk.entry E O d mode very it).status = ((wcagLevel (α := α) c b it.large).label).toLower := by
  unfold Bulk.entry
  simp [h, hm, hc, hb]

end CmProps.C12
