import CmModel.Parser
import CmGen.StrHelpers
/-!
# C07 — the string-to-number helpers of the parser, as translated from the source on this run, are the model's

`_parse_number_token` (every component and alpha of `rgb()`/`rgba()` and of sequences goes through it),
`_parse_hsl_percentage_or_decimal` and `_parse_hue` (every `hsl()`/`hsla()` component): translated over the model's own
string primitives (`Str.strip`, `Str.endsWith`, `PyFloat.parse`) into the `Except PyErr` monad and proved equal to
`numberToken`, `pctOrDec`, `parseHue` for every carrier and every character-class oracle. The rest of the parser
(regular expressions, dispatch on the dynamic type of the input) is tied by correspondence only.
-/
namespace CmProps.C07
open Cm Cm.Parse
variable {α : Type} [Num α]

/-- `_parse_number_token` -/
theorem source_parse_number_token (E : PEnv) (tok : Str) (component : Bool) :
    CmGen.StrHelpers.parse_number_token (α := α) E tok component = numberToken E tok component := by
  unfold CmGen.StrHelpers.parse_number_token numberToken rangeToken
  simp only []
  split
  · cases floatOrValueError (α := α) E (Str.strip E.cls tok).dropLast <;> cases component <;> rfl
  · cases floatOrValueError (α := α) E (Str.strip E.cls tok) with
    | error e => rfl
    | ok v => cases component <;> simp only [bind, Except.bind, pure, Except.pure] <;> (repeat' split) <;> simp_all

/-- `_parse_hsl_percentage_or_decimal` -/
theorem source_parse_hsl_percentage_or_decimal (E : PEnv) (v : Str) :
    CmGen.StrHelpers.parse_hsl_percentage_or_decimal (α := α) E v = pctOrDec E v := rfl

/-- `_parse_hue` -/
theorem source_parse_hue (E : PEnv) (v : Str) : CmGen.StrHelpers.parse_hue (α := α) E v = parseHue E v := rfl

end CmProps.C07
