import CmModel.Parser
import CmGen.Leaves
/-!
# C13 — the blend of `rgba_to_rgb`, as translated from the source on this run, is the model's
-/
namespace CmProps.C13
open Cm Cm.Parse
variable {α : Type} [NumT α]

/-- on validated input (`rgba_to_rgb` raises otherwise) the model's compositing is the source's three blend lines -/
theorem source_rgba_blend (r g b : Int) (a : α) (bg : RGB)
    (hc : validRgb (r, g, b) = true) (ha : (Num.le (0.0 : α) a && Num.le a (1.0 : α)) = true) (hb : validRgb bg = true) :
    rgbaToRgb r g b a bg = .ok (CmGen.Leaves.rgba_to_rgb_core r g b a bg) := by
  obtain ⟨x, y, z⟩ := bg
  unfold rgbaToRgb CmGen.Leaves.rgba_to_rgb_core
  simp [hc, ha, hb]

/-- the hypotheses are satisfiable -/
example : validRgb (119, 119, 119) = true ∧ validRgb (255, 255, 255) = true := by decide

end CmProps.C13
